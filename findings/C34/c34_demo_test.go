package httputil

// Demonstration for C34 (place in utils/httputil/). Run:
//   go test -mod=mod -vet=off -count=1 -run TestC34 ./utils/httputil/
import (
	"bytes"
	"io"
	"net/http"
	"net/http/httptest"
	"sync"
	"testing"
	"time"

	"github.com/cenkalti/backoff"
	"github.com/stretchr/testify/require"
)

// streamReader hides every method but Read: http.NewRequest cannot give such a
// body a GetBody, so net/http does not restore it when the request is reused.
type streamReader struct{ r io.Reader }

func (s streamReader) Read(p []byte) (int, error) { return s.r.Read(p) }

// seekReader additionally seeks (like *os.File).
type seekReader struct{ r *bytes.Reader }

func (s seekReader) Read(p []byte) (int, error)                { return s.r.Read(p) }
func (s seekReader) Seek(off int64, whence int) (int64, error) { return s.r.Seek(off, whence) }

// The first attempt is answered with a retryable 503 after the server consumed
// the body; the retry must carry the complete original body again.
func TestC34RetryResendsCompleteBody(t *testing.T) {
	require := require.New(t)
	payload := bytes.Repeat([]byte("kraken"), 1000)

	var mu sync.Mutex
	var bodies [][]byte
	srv := httptest.NewServer(http.HandlerFunc(func(w http.ResponseWriter, r *http.Request) {
		b, _ := io.ReadAll(r.Body)
		mu.Lock()
		bodies = append(bodies, b)
		n := len(bodies)
		mu.Unlock()
		if n == 1 {
			w.WriteHeader(http.StatusServiceUnavailable)
			return
		}
		w.WriteHeader(http.StatusOK)
	}))
	defer srv.Close()

	retry := func() SendOption {
		return SendRetry(RetryBackoff(backoff.WithMaxRetries(backoff.NewConstantBackOff(10*time.Millisecond), 3)))
	}

	// A seekable body (like a file) is resent completely.
	_, err := Post(srv.URL, SendBody(seekReader{bytes.NewReader(payload)}), retry())
	require.NoError(err, "a retryable first answer must be retried with the full body")
	mu.Lock()
	require.Len(bodies, 2)
	require.Equal(payload, bodies[1], "the retry did not carry the complete original body")
	bodies = nil
	mu.Unlock()

	// A body that cannot be rewound must not be resent truncated, and the helper
	// must not report success for such an attempt.
	_, err = Post(srv.URL, SendBody(streamReader{bytes.NewReader(payload)}), retry())
	mu.Lock()
	defer mu.Unlock()
	for i, b := range bodies[1:] {
		require.Equal(payload, b, "attempt %d carried %d of %d body bytes", i+2, len(b), len(payload))
	}
	if len(bodies) == 1 {
		require.Error(err, "no complete attempt succeeded, yet success was reported")
	}
}
