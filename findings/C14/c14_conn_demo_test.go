package conn

// Demonstration for C14 (place in lib/torrent/scheduler/conn/). Run:
//   go test -mod=mod -vet=off -count=1 -run TestC14 ./lib/torrent/scheduler/conn/
import (
	"encoding/binary"
	"net"
	"testing"
	"time"

	"github.com/stretchr/testify/require"

	"github.com/uber/kraken/core"
	"github.com/uber/kraken/gen/go/proto/p2p"
	"github.com/uber/kraken/lib/torrent/storage"
)

func c14Feed(t *testing.T, msg *p2p.Message) (*Conn, func()) {
	info := storage.TorrentInfoFixture(64, 16)
	nc1, nc2 := net.Pipe()
	// a conn whose read loop is NOT started: the test calls readMessage itself
	local, err := HandshakerFixture(Config{}).newConn(noopDeadline{nc1}, core.PeerIDFixture(), false, info, false)
	require.NoError(t, err)
	go sendMessage(nc2, msg) // raw frame from the remote peer
	return local, func() { nc1.Close(); nc2.Close() }
}

// PIECE_PAYLOAD without a body: readMessage dereferences PiecePayload.
func TestC14PayloadMessageWithoutBodyClosesConnInsteadOfPanicking(t *testing.T) {
	local, cleanup := c14Feed(t, &p2p.Message{Type: p2p.Message_PIECE_PAYLOAD})
	defer cleanup()
	var err error
	require.NotPanics(t, func() { _, err = local.readMessage() })
	require.Error(t, err)
}

// PIECE_PAYLOAD announcing a negative or gigantic length: readPayload passes it
// to make().
func TestC14PayloadLengthIsBoundedBeforeAllocation(t *testing.T) {
	for _, n := range []int32{-1, 1 << 30} {
		local, cleanup := c14Feed(t, &p2p.Message{
			Type:         p2p.Message_PIECE_PAYLOAD,
			PiecePayload: &p2p.PiecePayloadMessage{Index: 0, Offset: 0, Length: n},
		})
		var err error
		done := make(chan struct{})
		go func() {
			defer close(done)
			require.NotPanics(t, func() { _, err = local.readMessage() })
		}()
		select {
		case <-done:
			require.Error(t, err, "length %d must be rejected before allocating/reading", n)
		case <-time.After(2 * time.Second):
			t.Fatalf("length %d: reader allocated the buffer and is waiting for %d bytes", n, n)
		}
		cleanup()
	}
}

// A handshake bitfield whose header declares 2^40 bits in a 16-byte payload
// must be rejected before the bitset is allocated.
func TestC14HandshakeBitfieldDeclaredLengthIsChecked(t *testing.T) {
	raw := make([]byte, 16)
	binary.BigEndian.PutUint64(raw[:8], 1<<40)
	m := &p2p.Message{Type: p2p.Message_BITFIELD, Bitfield: &p2p.BitfieldMessage{
		PeerID:        "0000000000000000000000000000000000000000",
		InfoHash:      "0000000000000000000000000000000000000000",
		Name:          "0000000000000000000000000000000000000000000000000000000000000000",
		BitfieldBytes: raw,
	}}
	done := make(chan error, 1)
	go func() {
		var err error
		require.NotPanics(t, func() { _, err = handshakeFromP2PMessage(m) })
		done <- err
	}()
	select {
	case err := <-done:
		require.Error(t, err)
	case <-time.After(10 * time.Second):
		t.Fatal("allocating 2^40 bits")
	}
}
