package dispatch

// Demonstration for C14 (place in lib/torrent/scheduler/dispatch/). Run:
//   go test -mod=mod -vet=off -count=1 -run TestC14 ./lib/torrent/scheduler/dispatch/
import (
	"testing"

	"github.com/andres-erbsen/clock"
	"github.com/stretchr/testify/require"
	"github.com/willf/bitset"

	"github.com/uber/kraken/core"
	"github.com/uber/kraken/gen/go/proto/p2p"
	"github.com/uber/kraken/lib/torrent/scheduler/conn"
	"github.com/uber/kraken/lib/torrent/storage/agentstorage"
)

func c14Dispatcher(t *testing.T) (*Dispatcher, func()) {
	blob := core.SizedBlobFixture(48, 16) // 3 pieces
	tor, cleanup := agentstorage.TorrentFixture(blob.MetaInfo)
	return testDispatcher(Config{}, clock.NewMock(), tor), cleanup
}

// Messages whose type announces a body that is absent (a valid protobuf
// encoding) must be rejected, not dereferenced.
func TestC14MessagesWithoutBodyDoNotPanic(t *testing.T) {
	d, cleanup := c14Dispatcher(t)
	defer cleanup()
	p, err := d.addPeer(core.PeerIDFixture(), false, bitset.New(3), newMockMessages())
	require.NoError(t, err)
	for _, typ := range []p2p.Message_Type{
		p2p.Message_ERROR, p2p.Message_ANNOUCE_PIECE, p2p.Message_PIECE_REQUEST, p2p.Message_PIECE_PAYLOAD,
	} {
		msg := &conn.Message{Message: &p2p.Message{Type: typ}}
		require.NotPanics(t, func() { d.dispatch(p, msg) }, "message type %s without body", typ)
	}
}

// A negative announced piece index must be rejected: converted to uint it makes
// the peer's bitset grow without bound, and it indexes the per-piece counters.
func TestC14NegativeAnnouncedPieceIndexDoesNotPanic(t *testing.T) {
	d, cleanup := c14Dispatcher(t)
	defer cleanup()
	p, err := d.addPeer(core.PeerIDFixture(), false, bitset.New(3), newMockMessages())
	require.NoError(t, err)
	require.NotPanics(t, func() {
		d.dispatch(p, &conn.Message{Message: &p2p.Message{
			Type:          p2p.Message_ANNOUCE_PIECE,
			AnnouncePiece: &p2p.AnnouncePieceMessage{Index: -1},
		}})
	})
}

// A handshake bitfield with more bits than the torrent has pieces must be
// refused: its set bits index the per-piece counters.
func TestC14OversizedHandshakeBitfieldIsRefused(t *testing.T) {
	d, cleanup := c14Dispatcher(t)
	defer cleanup()
	b := bitset.New(64)
	b.Set(40)
	require.NotPanics(t, func() {
		_, err := d.addPeer(core.PeerIDFixture(), false, b, newMockMessages())
		require.Error(t, err)
	})
}
