package agentstorage

// Demonstration for C14/C03 (place in lib/torrent/storage/agentstorage/). Run:
//   go test -mod=mod -vet=off -count=1 -run TestC14 ./lib/torrent/storage/agentstorage/
import (
	"testing"

	"github.com/stretchr/testify/require"

	"github.com/uber/kraken/core"
	"github.com/uber/kraken/lib/torrent/storage/piecereader"
)

// A remote peer controls the piece index of payload and request messages. The
// dispatcher's full-piece test accepts index -1 with length 0 (PieceLength(-1)
// is 0), so the index reaches the torrent unchanged and must be rejected there.
func TestC14NegativePieceIndexIsRejectedNotPanicking(t *testing.T) {
	blob := core.SizedBlobFixture(32, 16)
	tor, cleanup := TorrentFixture(blob.MetaInfo)
	defer cleanup()

	require.NotPanics(t, func() {
		require.Error(t, tor.WritePiece(piecereader.NewBuffer(nil), -1))
	})
	require.NotPanics(t, func() {
		_, err := tor.GetPieceReader(-1)
		require.Error(t, err)
	})
	require.NotPanics(t, func() { require.False(t, tor.HasPiece(-1)) })
}
