package conn

import (
	"encoding/binary"
	"testing"

	"github.com/uber/kraken/core"
	"github.com/uber/kraken/gen/go/proto/p2p"
)

// A remote handshake whose bitfield declares 10 bits but carries set bits beyond
// bit 9 in its only 64-bit word. Every consumer (Dispatcher.addPeer/removePeer)
// indexes the per-piece counters with each set bit after comparing only Len() with
// the piece count, so such a bitfield must not leave the handshake parser: before
// the fix it was accepted and addPeer panicked with "index out of range [10] with
// length 10" in the scheduler's event loop (see the dispatch-level probe next to
// this file).
func TestDemoHandshakeRejectsBitsBeyondDeclaredLength(t *testing.T) {
	raw := make([]byte, 16)
	binary.BigEndian.PutUint64(raw[:8], 10)
	for i := 8; i < 16; i++ {
		raw[i] = 0xff
	}
	blob := core.NewBlobFixture()
	m := &p2p.Message{
		Type: p2p.Message_BITFIELD,
		Bitfield: &p2p.BitfieldMessage{
			PeerID:        core.PeerIDFixture().String(),
			InfoHash:      blob.MetaInfo.InfoHash().Hex(),
			Name:          blob.Digest.Hex(),
			BitfieldBytes: raw,
		},
	}
	h, err := handshakeFromP2PMessage(m)
	if err != nil {
		return // rejected: fine
	}
	for i, ok := h.bitfield.NextSet(0); ok; i, ok = h.bitfield.NextSet(i + 1) {
		if i >= h.bitfield.Len() {
			t.Fatalf("accepted a bitfield of length %d with bit %d set", h.bitfield.Len(), i)
		}
	}
}
