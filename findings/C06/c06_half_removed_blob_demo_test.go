package disk

// Second demonstration for C06 (place in lib/store/disk/). Run:
//   go test -mod=mod -vet=off -count=1 -run TestC06HalfRemoved ./lib/store/disk/
import (
	"os"
	"testing"

	"github.com/stretchr/testify/require"
	"github.com/uber-go/tally"

	"github.com/uber/kraken/utils/memsize"
)

// Crash point inside Delete / eviction: os.RemoveAll(blob directory) had unlinked
// the blob file but not yet a sidecar (RemoveAll removes entries one by one). At
// reboot the blob is skipped ("parent directory is there but the blob is
// missing"); before the fix its directory was left behind, so completing the same
// key again failed forever with "rename …: file exists" (ENOTEMPTY).
func TestC06HalfRemovedBlobKeyCanBeCompletedAgain(t *testing.T) {
	for _, complete := range []bool{true, false} {
		name := "incomplete"
		if complete {
			name = "complete"
		}
		t.Run(name, func(t *testing.T) {
			require := require.New(t)
			rootDir, err := os.MkdirTemp("/tmp", "kraken-disk-store")
			require.NoError(err)
			defer os.RemoveAll(rootDir)
			config := &Config{CapacityBytes: 10 * memsize.KB, RootDir: rootDir, RebootIncompleteBlobs: true, ShardLength: _defaultShardLength}
			store, err := NewStore(config, tally.NoopScope)
			require.NoError(err)

			const key = "aabbccddeeff00112233"
			f, err := store.Create(key, 1*memsize.KB)
			require.NoError(err)
			require.NoError(f.Close())
			require.NoError(store.BanEviction(key)) // creates a sidecar next to the blob
			if complete {
				require.NoError(store.MarkComplete(key))
			}

			// Delete got as far as unlinking the blob file, then the process died.
			require.NoError(os.Remove(store.impl.blobPath(key, complete)))

			store, err = NewStore(config, tally.NoopScope)
			require.NoError(err, "reopening the store must succeed")
			ok, _ := store.Has(key)
			require.False(ok)

			f, err = store.Create(key, 1*memsize.KB)
			require.NoError(err, "the key must be creatable again")
			require.NoError(f.Close())
			require.NoError(store.MarkComplete(key), "the key must be completable again")
			// and it did not inherit the eviction ban of its previous incarnation
			_, err = os.Stat(store.impl.sidecarFilePath(key, _completeBlob, _evictionBannedFileName))
			require.True(os.IsNotExist(err), "new blob inherited a sidecar of the half-removed one")
		})
	}
}
