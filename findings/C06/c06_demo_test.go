package disk

// Demonstration for C06 (place in lib/store/disk/). Run:
//   go test -mod=mod -vet=off -count=1 -run TestC06 ./lib/store/disk/
import (
	"os"
	"testing"

	"github.com/stretchr/testify/require"
	"github.com/uber-go/tally"

	"github.com/uber/kraken/utils/memsize"
)

// Crash points inside Create: (1) after the blob file was created but before the
// size sidecar was created; (2) after the size sidecar was created (O_EXCL) but
// before its content was written. In both cases reopening the store must
// succeed, and the key must be creatable and completable again.
func TestC06CrashDuringCreateLeavesStoreReopenableAndKeyReusable(t *testing.T) {
	for _, crash := range []string{"size-sidecar-missing", "size-sidecar-empty"} {
		t.Run(crash, func(t *testing.T) {
			require := require.New(t)
			rootDir, err := os.MkdirTemp("/tmp", "kraken-disk-store")
			require.NoError(err)
			defer os.RemoveAll(rootDir)
			config := &Config{CapacityBytes: 10 * memsize.KB, RootDir: rootDir, RebootIncompleteBlobs: true, ShardLength: _defaultShardLength}
			store, err := NewStore(config, tally.NoopScope)
			require.NoError(err)

			const key = "aabbccddeeff00112233"
			f, err := store.Create(key, 1*memsize.KB)
			require.NoError(err)
			require.NoError(f.Close())
			size := store.impl.sidecarFilePath(key, _incompleteBlob, _blobSizeFileName)
			switch crash {
			case "size-sidecar-missing":
				require.NoError(os.Remove(size)) // state right after the blob file was opened
			case "size-sidecar-empty":
				require.NoError(os.Truncate(size, 0)) // state right after O_CREATE|O_EXCL of the sidecar
			}

			// Process restarts.
			store, err = NewStore(config, tally.NoopScope)
			require.NoError(err, "reopening the store after a crash inside Create must succeed")

			if ok, _ := store.Has(key); !ok {
				// Dropped as unrestorable: the key must be usable again.
				f, err = store.Create(key, 1*memsize.KB)
				require.NoError(err, "a key whose creation was interrupted by a crash can never be created again")
				require.NoError(f.Close())
			}
			require.NoError(store.MarkComplete(key))
		})
	}
}
