package healthcheck

// Demonstration for C23 (place in lib/healthcheck/). Run:
//   go test -mod=mod -vet=off -count=1 -run TestC23 ./lib/healthcheck/
import (
	"testing"

	"github.com/stretchr/testify/require"

	"github.com/uber/kraken/utils/stringset"
)

// A host that left the list while it was unhealthy and later rejoins is a host
// "appearing for the first time" again: it must start healthy, with no memory of
// its old failures.
func TestC23HostThatLeftWhileUnhealthyRejoinsHealthy(t *testing.T) {
	require := require.New(t)
	s := newState(FilterConfig{Fails: 2, Passes: 2})

	s.sync(stringset.New("a", "b"))
	s.failed("a")
	s.failed("a")
	require.False(s.getHealthy().Has("a"))

	s.sync(stringset.New("b", "c")) // a leaves
	s.sync(stringset.New("a", "b")) // a rejoins

	require.True(s.getHealthy().Has("a"), "a rejoined host is still treated as unhealthy")
	s.failed("a")
	require.True(s.getHealthy().Has("a"), "a rejoined host was marked unhealthy after a single failure: its old trend was kept")
}
