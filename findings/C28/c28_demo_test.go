package peerstore

// Demonstration for C28 (place in tracker/peerstore/). Run:
//   go test -mod=mod -vet=off -count=1 -run TestC28 ./tracker/peerstore/
import (
	"testing"

	"github.com/stretchr/testify/require"

	"github.com/uber/kraken/core"
)

func TestC28IPv6PeerRoundTrips(t *testing.T) {
	require := require.New(t)
	for _, ip := range []string{"10.0.0.1", "2001:db8::1", "::1", "host.example.com"} {
		p := core.NewPeerInfo(core.PeerIDFixture(), ip, 8080, false, true)
		id, complete, err := deserializePeer(serializePeer(p))
		require.NoError(err, "address %q", ip)
		require.Equal(p.PeerID, id.peerID)
		require.Equal(ip, id.ip)
		require.Equal(8080, id.port)
		require.True(complete)
	}
}
