package scheduler

import (
	"encoding/binary"
	"fmt"
	"io"
	"net"
	"testing"
	"time"

	"github.com/golang/protobuf/proto"
	"github.com/stretchr/testify/require"
	"github.com/willf/bitset"

	"github.com/uber/kraken/core"
	"github.com/uber/kraken/gen/go/proto/p2p"
)

// pendingProbe tries to reserve (and immediately release) the pending slot of
// peer/hash from inside the event loop and reports what AddPending said.
type pendingProbe struct {
	peerID core.PeerID
	hash   core.InfoHash
	res    chan error
}

func (e pendingProbe) apply(s *state) {
	err := s.conns.AddPending(e.peerID, e.hash, nil)
	if err == nil {
		s.conns.DeletePending(e.peerID, e.hash)
	}
	e.res <- err
}

// A remote peer sends a handshake naming blob A by digest but carrying the info
// hash X of another torrent. The pending slot is reserved under X, the conn is
// built for A's real info hash, MovePendingToActive fails and the conn is closed.
// Before the fix nothing ever released the slot held under X: every such handshake
// permanently used up one of X's MaxOpenConnectionsPerTorrent slots.
func TestDemoMismatchedInfoHashHandshakeReleasesPendingSlot(t *testing.T) {
	require := require.New(t)

	mocks, cleanup := newTestMocks(t)
	defer cleanup()

	namespace := "test-namespace"
	p := mocks.newPeer(configFixture())

	a := core.NewBlobFixture()
	b := core.NewBlobFixture()
	mocks.metaInfoClient.EXPECT().Download(namespace, a.Digest).Return(a.MetaInfo, nil).AnyTimes()
	p.writeTorrent(namespace, a)

	remote := core.PeerIDFixture()
	x := b.MetaInfo.InfoHash()

	nc, err := net.Dial("tcp", fmt.Sprintf("localhost:%d", p.pctx.Port))
	require.NoError(err)
	defer nc.Close()

	bf, err := bitset.New(uint(a.MetaInfo.NumPieces())).MarshalBinary()
	require.NoError(err)
	data, err := proto.Marshal(&p2p.Message{
		Type: p2p.Message_BITFIELD,
		Bitfield: &p2p.BitfieldMessage{
			PeerID:        remote.String(),
			Name:          a.Digest.Hex(),
			InfoHash:      x.Hex(),
			BitfieldBytes: bf,
			Namespace:     namespace,
		},
	})
	require.NoError(err)
	require.NoError(binary.Write(nc, binary.BigEndian, uint32(len(data))))
	_, err = nc.Write(data)
	require.NoError(err)

	// The scheduler drops the connection once it has dealt with the handshake.
	nc.SetReadDeadline(time.Now().Add(10 * time.Second))
	_, err = io.Copy(io.Discard, nc)
	require.NoError(err, "scheduler did not close the bogus connection")

	deadline := time.Now().Add(3 * time.Second)
	for {
		res := make(chan error, 1)
		require.True(p.scheduler.eventLoop.send(pendingProbe{remote, x, res}))
		err := <-res
		if err == nil {
			return
		}
		if time.Now().After(deadline) {
			t.Fatalf("pending slot of %s under info hash %s was never released: %v", remote, x, err)
		}
		time.Sleep(20 * time.Millisecond)
	}
}
