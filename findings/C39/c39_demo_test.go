package metadata

// Demonstration for C39 (place in lib/store/metadata/). Run:
//   go test -mod=mod -vet=off -count=1 -run TestC39 ./lib/store/metadata/
import (
	"math"
	"testing"
	"time"

	"github.com/stretchr/testify/require"
)

// A varint-encoded int64 needs up to binary.MaxVarintLen64 (10) bytes; with an
// 8-byte buffer Serialize panics for large (but valid) Unix times.
func TestC39LastAccessTimeSerializeAnyTime(t *testing.T) {
	for _, sec := range []int64{0, 1, time.Now().Unix(), -62135596800, math.MaxInt64 / 2, math.MinInt64 / 2, math.MaxInt64} {
		lat := NewLastAccessTime(time.Unix(sec, 0))
		var b []byte
		require.NotPanics(t, func() { b, _ = lat.Serialize() }, "sec=%d", sec)
		var out LastAccessTime
		require.NoError(t, out.Deserialize(b))
		require.Equal(t, sec, out.Time.Unix())
	}
}
