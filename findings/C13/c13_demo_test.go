package store

// Demonstration for C13 (place in lib/store/). Run:
//   go test -mod=mod -vet=off -count=1 -run TestC13 ./lib/store/
import (
	"testing"

	"github.com/andres-erbsen/clock"
	"github.com/stretchr/testify/require"

	"github.com/uber/kraken/core"
)

// The reservation is made for the size the backend's Stat reported; the entry
// later releases len(data). When the two differ (a backend that does not track
// sizes reports 0, or reports a stale size) the accounting drifts: stored bytes
// are not accounted, and removing the entry zeroes other reservations.
func TestC13AccountedBytesMatchStoredBytes(t *testing.T) {
	require := require.New(t)
	config, cleanup := CAStoreConfigFixture()
	defer cleanup()
	config.MemoryCache = MemoryCacheConfig{Enabled: true, MaxSize: 1000, DrainWorkers: 1, DrainMaxRetries: 1}
	clk := clock.NewMock()
	s, cleanup2 := CAStoreFixtureWithClock(config, clk)
	defer cleanup2()
	// stop the drain from emptying the cache during the test
	close(s.drain.stopChan)
	s.drain.wg.Wait()
	s.drain.stopChan = nil

	blob := core.SizedBlobFixture(600, 64)
	// backend Stat said 0 bytes
	err := s.WriteBlobToCacheWithMetaInfo(blob.Digest.Hex(), 0, func(w FileReadWriter) error {
		_, err := w.Write(blob.Content)
		return err
	}, 64)
	require.NoError(err)

	var stored uint64
	for _, n := range s.memCache.ListNames() {
		stored += s.memCache.Get(n).Size()
	}
	require.Equal(stored, s.memCache.TotalBytes(),
		"memory cache holds %d bytes but accounts for %d: the budget check admits blobs past MaxSize", stored, s.memCache.TotalBytes())
}
