package store

// Demonstration for C11 (place in lib/store/). Run:
//   go test -mod=mod -vet=off -count=1 -run TestC11 ./lib/store/
import (
	"os"
	"path/filepath"
	"strings"
	"testing"

	"github.com/stretchr/testify/require"
	"github.com/uber-go/tally"
)

// The name ".." (e.g. a tag "%2E%2E" sent to the build-index) must be rejected:
// it makes the simple store create <parent of cache dir>/data.
func TestC11DotDotNameIsRejected(t *testing.T) {
	require := require.New(t)
	root, err := os.MkdirTemp("", "c11")
	require.NoError(err)
	defer os.RemoveAll(root)
	config := SimpleStoreConfig{
		UploadDir: filepath.Join(root, "store", "upload"),
		CacheDir:  filepath.Join(root, "store", "cache"),
	}
	s, err := NewSimpleStore(config, tally.NoopScope)
	require.NoError(err)
	defer s.Close()

	escaped := filepath.Join(root, "store", "data")
	err = s.CreateCacheFile("..", strings.NewReader("x"))
	_, statErr := os.Stat(escaped)
	require.True(os.IsNotExist(statErr), "a file was created outside the store directory: %s", escaped)
	require.Error(err)
}
