package agentstorage

// Demonstration for C03/C04 (place in lib/torrent/storage/agentstorage/). Run:
//   go test -mod=mod -vet=off -count=1 -run TestC04 ./lib/torrent/storage/agentstorage/
import (
	"os"
	"path/filepath"
	"testing"

	"github.com/stretchr/testify/require"
	"github.com/uber-go/tally"

	"github.com/uber/kraken/core"
	"github.com/uber/kraken/lib/store"
	"github.com/uber/kraken/lib/torrent/storage/piecereader"
)

// Crash point: the agent dies after the piece-status sidecar was created but
// before its content was written (create and write are two system calls). After
// the restart the empty status vector must not be taken for "all 0 of 0 pieces
// complete": the blob must not be reported complete, and the download must still
// be able to finish with the right bytes.
func TestC04EmptyPieceStatusFileAfterCrashIsNotACompleteBlob(t *testing.T) {
	require := require.New(t)
	root, err := os.MkdirTemp("", "c04")
	require.NoError(err)
	defer os.RemoveAll(root)
	cads, err := store.NewCADownloadStore(store.CADownloadStoreConfig{
		DownloadDir: filepath.Join(root, "download"),
		CacheDir:    filepath.Join(root, "cache"),
	}, tally.NoopScope)
	require.NoError(err)
	defer cads.Close()

	blob := core.SizedBlobFixture(64, 16)
	mi := blob.MetaInfo
	require.NoError(cads.CreateDownloadFile(mi.Digest().Hex(), mi.Length()))
	tor, err := NewTorrent(cads, mi)
	require.NoError(err)
	require.False(tor.Complete())

	// Simulate the crash: _status exists but is empty.
	var status string
	filepath.Walk(filepath.Join(root, "download"), func(p string, info os.FileInfo, err error) error {
		if err == nil && filepath.Base(p) == "_status" {
			status = p
		}
		return nil
	})
	require.NotEmpty(status)
	require.NoError(os.Truncate(status, 0))

	// Restart on the same directories.
	tor2, err := NewTorrent(cads, mi)
	require.NoError(err)
	require.False(tor2.Complete(), "a blob whose pieces were never written is reported complete after restart")
	require.Equal(mi.NumPieces(), tor2.NumPieces())

	// The download can be carried out again.
	for i := 0; i < tor2.NumPieces(); i++ {
		start := int64(i) * mi.PieceLength()
		require.NoError(tor2.WritePiece(piecereader.NewBuffer(blob.Content[start:start+tor2.PieceLength(i)]), i))
	}
	require.True(tor2.Complete())
}
