package base

// Demonstration for C04/C05 (place in lib/store/base/). Run:
//   go test -mod=mod -vet=off -count=1 -run TestC04 ./lib/store/base/
import (
	"os"
	"os/signal"
	"path/filepath"
	"syscall"
	"testing"

	"github.com/stretchr/testify/require"
)

// A metadata sidecar (_torrentmeta, _status, _persist, ...) is created by
// compareAndWriteFile. If the process stops between creating the file and
// writing its content, an empty sidecar is left under the final name; readers
// treat that as fatal (empty _torrentmeta: every later CreateTorrent / metainfo
// request fails; empty _status: see the restorePieces demonstration).
// The stop is forced here by a zero RLIMIT_FSIZE: open(O_CREATE) succeeds, the
// write fails — the same disk state a crash at that point leaves.
func TestC04SidecarIsNeverLeftEmptyUnderItsFinalName(t *testing.T) {
	require := require.New(t)
	dir, err := os.MkdirTemp("", "c04sidecar")
	require.NoError(err)
	defer os.RemoveAll(dir)
	path := filepath.Join(dir, "_torrentmeta")

	signal.Ignore(syscall.SIGXFSZ)
	var old syscall.Rlimit
	require.NoError(syscall.Getrlimit(syscall.RLIMIT_FSIZE, &old))
	require.NoError(syscall.Setrlimit(syscall.RLIMIT_FSIZE, &syscall.Rlimit{Cur: 0, Max: old.Max}))
	_, werr := compareAndWriteFile(path, []byte("metainfo bytes"))
	require.NoError(syscall.Setrlimit(syscall.RLIMIT_FSIZE, &old))
	signal.Reset(syscall.SIGXFSZ)

	require.Error(werr, "the write was supposed to be interrupted")
	if fi, err := os.Stat(path); err == nil {
		t.Fatalf("interrupted creation left %s with %d bytes under its final name", filepath.Base(path), fi.Size())
	}

	// Once the fault is gone the sidecar can be written.
	updated, err := compareAndWriteFile(path, []byte("metainfo bytes"))
	require.NoError(err)
	require.True(updated)
	b, err := os.ReadFile(path)
	require.NoError(err)
	require.Equal("metainfo bytes", string(b))
}
