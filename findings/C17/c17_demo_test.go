package scheduler

// Demonstration for C17 (place in lib/torrent/scheduler/). Run:
//   go test -mod=mod -vet=off -count=1 -run 'TestC17' ./lib/torrent/scheduler/
import (
	"testing"
	"time"

	"github.com/golang/mock/gomock"
	"github.com/stretchr/testify/require"

	"github.com/uber/kraken/core"
	"github.com/uber/kraken/lib/torrent/storage/piecereader"
)

func c17Torrent(t *testing.T, m *stateMocks) (*core.BlobFixture, func() error) {
	blob := core.SizedBlobFixture(64, 16)
	m.metainfoClient.EXPECT().Download(_testNamespace, blob.Digest).Return(blob.MetaInfo, nil).AnyTimes()
	m.announceClient.EXPECT().Announce(gomock.Any(), gomock.Any(), gomock.Any(), gomock.Any()).
		Return(nil, time.Second, nil).AnyTimes()
	return blob, nil
}

// A waiter registered before completion must be answered when the torrent is
// removed after its last piece was written but before the asynchronous
// completion event has been applied.
func TestC17RemovalBetweenCompletionAndCompletionEvent(t *testing.T) {
	require := require.New(t)
	m, cleanup := newStateMocks(t)
	defer cleanup()
	s := m.newState(configFixture())

	blob, _ := c17Torrent(t, m)
	tor, err := m.torrentArchive.CreateTorrent(_testNamespace, blob.Digest)
	require.NoError(err)

	errc := make(chan error, 1)
	newTorrentEvent{_testNamespace, tor, errc}.apply(s)
	require.Len(errc, 0) // registered as waiter

	// Last piece arrives: torrent is complete, the completion notice is still in flight.
	for i := 0; i < tor.NumPieces(); i++ {
		start := int64(i) * blob.MetaInfo.PieceLength()
		end := start + tor.PieceLength(i)
		require.NoError(tor.WritePiece(piecereader.NewBuffer(blob.Content[start:end]), i))
	}
	require.True(tor.Complete())
	ctrl := s.torrentControls[tor.InfoHash()]
	require.NotNil(ctrl)

	// Manual removal is applied first.
	rc := make(chan error, 1)
	removeTorrentEvent{blob.Digest, rc}.apply(s)
	<-rc
	// Then the completion event.
	dispatcherCompleteEvent{ctrl.dispatcher}.apply(s)

	select {
	case <-errc:
	case <-time.After(2 * time.Second):
		t.Fatal("Download waiter was never answered: the control was removed without notifying it")
	}
}

// A stale completion event must not answer the waiters of a newer control for
// the same info hash.
func TestC17StaleCompletionEventDoesNotCompleteNewControl(t *testing.T) {
	require := require.New(t)
	m, cleanup := newStateMocks(t)
	defer cleanup()
	s := m.newState(configFixture())

	blob, _ := c17Torrent(t, m)
	tor, err := m.torrentArchive.CreateTorrent(_testNamespace, blob.Digest)
	require.NoError(err)
	errc := make(chan error, 1)
	newTorrentEvent{_testNamespace, tor, errc}.apply(s)
	for i := 0; i < tor.NumPieces(); i++ {
		start := int64(i) * blob.MetaInfo.PieceLength()
		end := start + tor.PieceLength(i)
		require.NoError(tor.WritePiece(piecereader.NewBuffer(blob.Content[start:end]), i))
	}
	old := s.torrentControls[tor.InfoHash()]

	// The blob is evicted from the cache and requested again before the
	// completion event of the first download is applied.
	require.NoError(m.torrentArchive.DeleteTorrent(blob.Digest))
	tor2, err := m.torrentArchive.CreateTorrent(_testNamespace, blob.Digest)
	require.NoError(err)
	require.False(tor2.Complete())
	errc2 := make(chan error, 1)
	newTorrentEvent{_testNamespace, tor2, errc2}.apply(s)
	require.Len(errc2, 0)

	dispatcherCompleteEvent{old.dispatcher}.apply(s)

	select {
	case err := <-errc2:
		t.Fatalf("second download answered %v although its torrent is incomplete (complete=%v)", err, tor2.Complete())
	default:
	}
}
