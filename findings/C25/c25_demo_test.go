package stringset

// Demonstration for C25 (place in utils/stringset/). Run:
//   go test -mod=mod -vet=off -count=1 -run TestC25 ./utils/stringset/
import "testing"

func TestC25SampleReturnsAtMostN(t *testing.T) {
	s := New("a", "b", "c", "d", "e")
	if got := len(s.Sample(3)); got != 3 {
		t.Fatalf("Sample(3) of 5 hosts returned %d members: cluster clients would contact every host", got)
	}
	if got := len(s.Sample(10)); got != 5 {
		t.Fatalf("Sample(10) of 5 returned %d", got)
	}
	for x := range s.Sample(2) {
		if !s.Has(x) {
			t.Fatalf("sampled %q not in set", x)
		}
	}
}
