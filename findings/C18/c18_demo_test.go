package dispatch

// Demonstration for C18 (place in lib/torrent/scheduler/dispatch/). Run:
//   go test -mod=mod -vet=off -count=1 -run TestC18 ./lib/torrent/scheduler/dispatch/
import (
	"testing"
	"time"

	"github.com/andres-erbsen/clock"
	"github.com/stretchr/testify/require"

	"github.com/uber/kraken/core"
	"github.com/uber/kraken/lib/torrent/storage/agentstorage"
	"github.com/uber/kraken/lib/torrent/storage/piecereader"
)

// Serving a piece successfully (reader obtained and closed without error) must
// refresh the last-read time the seeder idle timeout is computed from.
func TestC18SuccessfulPieceReadRefreshesLastReadTime(t *testing.T) {
	require := require.New(t)
	blob := core.SizedBlobFixture(32, 16)
	tor, cleanup := agentstorage.TorrentFixture(blob.MetaInfo)
	defer cleanup()
	require.NoError(tor.WritePiece(piecereader.NewBuffer(blob.Content[:16]), 0))

	clk := clock.NewMock()
	w := newTorrentAccessWatcher(tor, clk)
	t0 := w.getLastReadTime()

	clk.Add(time.Hour)
	pr, err := w.GetPieceReader(0)
	require.NoError(err)
	require.NoError(pr.Close())

	require.True(w.getLastReadTime().After(t0),
		"piece was served successfully but the last read time did not move: an active seeder looks idle")
}
