package httpbackend

import (
	"net/http"
	"net/http/httptest"
	"testing"

	"github.com/uber-go/tally"

	"github.com/uber/kraken/lib/backend/backenderrors"
)

// Known finding for C37 (recorded, not repaired): httpbackend.Client.Stat reports
// success with size 0 for every name, including names the server answers 404
// for; Download of the same name reports backenderrors.ErrBlobNotFound. The
// source says so itself ("Stat always succeeds. TODO: Support stat URL").
// Place in lib/backend/httpbackend/ and run:
//   go test -mod=mod -vet=off -count=1 -run TestDemoStatOfMissingBlob ./lib/backend/httpbackend/
func TestDemoStatOfMissingBlob(t *testing.T) {
	srv := httptest.NewServer(http.HandlerFunc(func(w http.ResponseWriter, r *http.Request) {
		w.WriteHeader(http.StatusNotFound)
	}))
	defer srv.Close()
	c, err := NewClient(Config{DownloadURL: srv.URL + "/%s"}, tally.NoopScope)
	if err != nil {
		t.Fatal(err)
	}
	if _, err := c.Stat("ns", "never-uploaded"); err != backenderrors.ErrBlobNotFound {
		t.Fatalf("Stat of a name the server does not have: err=%v, want ErrBlobNotFound", err)
	}
}
