package dedup

// Demonstration for C29 (place in utils/dedup/). Run:
//   go test -mod=mod -vet=off -count=1 -run TestC29 ./utils/dedup/
import (
	"sync/atomic"
	"testing"
	"time"

	"github.com/andres-erbsen/clock"
	"github.com/stretchr/testify/require"
)

type c29Runner struct {
	inFlight, maxInFlight int32
	started               chan struct{}
	release               chan struct{}
}

func (r *c29Runner) Run(input interface{}) (interface{}, time.Duration) {
	n := atomic.AddInt32(&r.inFlight, 1)
	for {
		m := atomic.LoadInt32(&r.maxInFlight)
		if n <= m || atomic.CompareAndSwapInt32(&r.maxInFlight, m, n) {
			break
		}
	}
	r.started <- struct{}{}
	<-r.release
	atomic.AddInt32(&r.inFlight, -1)
	return "out", time.Second
}

// Schedule: goroutine A looked the (expired) task up in Limiter.Run and is about
// to lock it; the garbage collection runs in that window and removes the task
// from the table; A then executes it, and a second Run for the same key creates a
// fresh task and executes it too: two executions of one key in flight.
func TestC29AtMostOneExecutionPerKeyAcrossTaskGC(t *testing.T) {
	require := require.New(t)
	clk := clock.NewMock()
	runner := &c29Runner{started: make(chan struct{}, 4), release: make(chan struct{})}
	l := NewLimiter(clk, runner)

	// A's first half of Run: lookup-or-create.
	l.Lock()
	tk := newTask("key")
	l.tasks["key"] = tk
	l.Unlock()
	clk.Add(time.Hour) // the zero-valued task is expired and not running

	// GC runs in the window.
	(&limiterTaskGC{l}).Run()

	// A's second half.
	go l.getOutput(tk)
	<-runner.started

	// B asks for the same key.
	go l.Run("key")
	select {
	case <-runner.started:
	case <-time.After(500 * time.Millisecond):
	}
	max := atomic.LoadInt32(&runner.maxInFlight)
	close(runner.release)
	require.Equal(int32(1), max, "two executions for the same key were in flight at once")
}
