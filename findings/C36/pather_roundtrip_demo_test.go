package namepath

import "testing"

// Demonstrates C36 on the real code: every (root, scheme, name) must round-trip.
// Before the fix: IdentityPather with a root that ends in "/" (as in
// docs/CONFIGURATION.md: root_directory: /kraken/default/) or an empty root drops the
// first character of the name; a root containing a regexp metacharacter makes the
// docker pathers reject (or panic on) their own paths.
func TestDemoPatherRoundTrip(t *testing.T) {
	roots := []string{"/root", "/root/", "/kraken/default/", "", "/", "/a+b", "/a(b", "/x.y/"}
	cases := []struct{ id, name string }{
		{Identity, "foo/bar"},
		{Identity, "abc"},
		{DockerTag, "repo/sub:tag"},
		{ShardedDockerBlob, "ff85ceb9734a3c2fbb886e0f7cfc66b046eeeae953d8cb430dc5a7ace544b0e9"},
	}
	for _, root := range roots {
		for _, c := range cases {
			func() {
				defer func() {
					if e := recover(); e != nil {
						t.Errorf("root=%q scheme=%s name=%q: panic: %v", root, c.id, c.name, e)
					}
				}()
				p, err := New(root, c.id)
				if err != nil {
					t.Fatal(err)
				}
				bp, err := p.BlobPath(c.name)
				if err != nil {
					t.Errorf("root=%q scheme=%s: BlobPath: %v", root, c.id, err)
					return
				}
				got, err := p.NameFromBlobPath(bp)
				if err != nil {
					t.Errorf("root=%q scheme=%s path=%q: NameFromBlobPath: %v", root, c.id, bp, err)
					return
				}
				if got != c.name {
					t.Errorf("root=%q scheme=%s path=%q: got name %q, want %q", root, c.id, bp, got, c.name)
				}
			}()
		}
	}
}
