package piecerequest

// Demonstration for C15 (place in lib/torrent/scheduler/dispatch/piecerequest/). Run:
//   go test -mod=mod -vet=off -count=1 -run TestC15 ./lib/torrent/scheduler/dispatch/piecerequest/
import (
	"testing"
	"time"

	"github.com/andres-erbsen/clock"
	"github.com/stretchr/testify/require"

	"github.com/uber/kraken/core"
	"github.com/uber/kraken/utils/bitsetutil"
)

// History: P's request for piece 0 expires, P is granted piece 0 again (the
// expired request stays in the per-piece list), then P is removed. None of P's
// requests may be reported as pending or failed afterwards.
func TestC15RemovedPeerHasNoRequestsLeftAfterReReservation(t *testing.T) {
	require := require.New(t)
	clk := clock.NewMock()
	m := newManager(clk, 5*time.Second, DefaultPolicy, 1)
	p := core.PeerIDFixture()

	pieces, err := m.ReservePieces(p, false, bitsetutil.FromBools(true), countsFromInts(0), false)
	require.NoError(err)
	require.Equal([]int{0}, pieces)

	clk.Add(6 * time.Second) // the request expires

	pieces, err = m.ReservePieces(p, false, bitsetutil.FromBools(true), countsFromInts(0), false)
	require.NoError(err)
	require.Equal([]int{0}, pieces)

	m.ClearPeer(p)
	clk.Add(6 * time.Second) // whatever is left of P's requests has expired by now

	require.Empty(m.PendingPieces(p))
	for _, r := range m.GetFailedRequests() {
		require.NotEqual(p, r.PeerID, "request %+v of a removed peer is still reported as failed", r)
	}
}
