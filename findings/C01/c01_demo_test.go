package store

// Demonstration for C01 (place in lib/store/). Run:
//   go test -mod=mod -vet=off -count=1 -run TestC01 ./lib/store/
import (
	"io"
	"testing"

	"github.com/andres-erbsen/clock"
	"github.com/stretchr/testify/require"

	"github.com/uber/kraken/core"
	"github.com/uber/kraken/lib/store/metadata"
)

// Bytes that do not hash to the digest must not become readable under it,
// also on the in-memory write-through path (backend refresh with the memory
// cache enabled), before the background drain gets to them.
func TestC01MemoryWriteThroughRejectsMismatchingBytes(t *testing.T) {
	require := require.New(t)
	config, cleanup := CAStoreConfigFixture()
	defer cleanup()
	config.MemoryCache = MemoryCacheConfig{Enabled: true, MaxSize: 1 << 20, DrainWorkers: 1, DrainMaxRetries: 100}
	s, cleanup2 := CAStoreFixtureWithClock(config, clock.New())
	defer cleanup2()

	claimed := core.NewBlobFixture() // digest d
	other := core.NewBlobFixture()   // different bytes
	name := claimed.Digest.Hex()

	err := s.WriteBlobToCacheWithMetaInfo(name, uint64(len(other.Content)), func(w FileReadWriter) error {
		_, err := w.Write(other.Content)
		return err
	}, 4)

	r, rerr := s.GetCacheFileReader(name)
	if rerr == nil {
		b, _ := io.ReadAll(r)
		var tm metadata.TorrentMeta
		merr := s.GetCacheFileMetadata(name, &tm)
		t.Fatalf("write returned %v, yet %d foreign bytes (and metainfo err=%v) are readable under digest %s", err, len(b), merr, name)
	}
	require.Error(err)
}
