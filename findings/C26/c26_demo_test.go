package peerhandoutpolicy

// Demonstration for C26 (place in tracker/peerhandoutpolicy/). Run:
//   go test -mod=mod -vet=off -count=1 -run TestC26 ./tracker/peerhandoutpolicy/
import (
	"testing"

	"github.com/stretchr/testify/require"
	"github.com/uber-go/tally"

	"github.com/uber/kraken/core"
)

// Peer stores return fresh *PeerInfo values, so the announcer must be recognised
// by its peer id, not by pointer identity.
func TestC26AnnouncerExcludedByIdentityNotPointer(t *testing.T) {
	require := require.New(t)
	p, err := NewPriorityPolicy(tally.NoopScope, _defaultPolicy)
	require.NoError(err)

	source := core.PeerInfoFixture()
	copyOfSource := *source // what a peer store returns for the announcer
	other := core.PeerInfoFixture()

	out := p.SortPeers(source, []*core.PeerInfo{&copyOfSource, other})
	for _, x := range out {
		require.NotEqual(source.PeerID, x.PeerID, "handout lists the announcing peer itself")
	}
	require.Len(out, 1)
}
