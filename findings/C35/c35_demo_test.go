package blobclient

// Demonstration for C35 (place in origin/blobclient/). Run:
//   go test -mod=mod -vet=off -count=1 -run TestC35 ./origin/blobclient/
import (
	"bytes"
	"context"
	"errors"
	"io"
	"testing"

	"github.com/stretchr/testify/require"

	"github.com/uber/kraken/core"
)

// c35Client is an origin client whose download either streams the whole blob or
// drops the connection after half of it (what HTTPClient.DownloadBlob reports as
// a "copy body" error after having written the received part to dst).
type c35Client struct {
	Client
	addr     string
	blob     []byte
	dropHalf bool
}

func (c *c35Client) Addr() string { return c.addr }

func (c *c35Client) DownloadBlob(ctx context.Context, namespace string, d core.Digest, dst io.Writer) error {
	if c.dropHalf {
		dst.Write(c.blob[:len(c.blob)/2])
		return errors.New("copy body: unexpected EOF")
	}
	_, err := dst.Write(c.blob)
	return err
}

type c35Resolver struct{ clients []Client }

func (r c35Resolver) Resolve(d core.Digest) ([]Client, error) { return r.clients, nil }

// The first origin drops the connection mid-transfer, the second one delivers
// the blob: a successful call must have delivered the blob exactly once.
func TestC35FailoverAfterPartialTransferDeliversBlobOnce(t *testing.T) {
	blob := core.SizedBlobFixture(1000, 100)
	cc := NewClusterClient(c35Resolver{[]Client{
		&c35Client{addr: "o1", blob: blob.Content, dropHalf: true},
		&c35Client{addr: "o2", blob: blob.Content},
	}})
	var dst bytes.Buffer
	err := cc.DownloadBlob(context.Background(), "ns", blob.Digest, &dst)
	if err == nil {
		require.Equal(t, blob.Content, dst.Bytes(),
			"download reported success but the destination holds %d bytes for a %d byte blob", dst.Len(), len(blob.Content))
	}
}
