package main

import (
	"fmt"
	"go/token"
	"go/types"

	"golang.org/x/tools/go/ssa"
)

func init() {
	register("C34", checkC34)
	register("C35", checkC35)
}

const pkgHTTP = "utils/httputil"

func checkC34(c *Ctx, r *Report) {
	r.Explain = "Shape of the HTTP retry loop: (R1) on every path from one client.Do to the next inside the loop, the request body is either known absent, restorable by net/http itself (GetBody present), or was rewound and the request rebuilt — otherwise the loop is left; (R2) the loop is left when the backoff returns Stop, the retry condition for statuses is conjoined with 'not an accepted code', and success is returned only for accepted codes; (R3) a rebuilt request is made by the same constructor from the same options (method, URL, headers)."
	r.NotDecided = "Header/URL equality across attempts beyond 'same constructor, same options'; behaviour of net/http itself (that GetBody bodies are restored on reuse is a trusted fact, observed on the installed toolchain)."
	r.Trusted = append(r.Trusted, "net/http restores the body of a reused *http.Request when Request.GetBody is set")
	send := r.MustFunc(r.Rule("R1", "E-ORDER(back-edge)", "every path from a client.Do call around the retry loop back to it either leaves through a body-restoration (Seek on the body to the position recorded by Seek(0, SeekCurrent) before the first attempt + newRequest), or is taken only where the body is nil or the request has GetBody", 1), pkgHTTP+".Send")
	r1 := r.Prop + ".R1"
	if send == nil {
		return
	}
	var dos []*CallSite
	for _, cs := range callsInNamed(send, "(*net/http.Client).Do") {
		if reaches(cs.Instr.Block(), cs.Instr.Block()) {
			dos = append(dos, cs)
		}
	}
	if len(dos) == 0 {
		r.Unresolved(r1, "no client.Do inside a loop in Send")
		return
	}
	const fBody = pkgHTTP + ".sendOptions.body"
	// the unexported helpers are found by what they are: the request constructor is
	// the function of the package, called by Send, that returns a *http.Request; the
	// retryable-status predicate is the func(int) bool applied to the status code
	ctorName := pkgHTTP + ".newRequest"
	for _, cs := range callsIn(send) {
		h := cs.Instr.Common().StaticCallee()
		if h == nil || h.Pkg != send.Pkg || h.Signature.Results().Len() == 0 {
			continue
		}
		if h.Signature.Results().At(0).Type().String() == "*net/http.Request" {
			ctorName = funcName(h)
		}
	}
	isStatusPredicate := func(cl *ssa.Call) bool {
		h := cl.Common().StaticCallee()
		if h == nil || h.Pkg != send.Pkg || h.Signature.Params().Len() != 1 || h.Signature.Results().Len() != 1 {
			return false
		}
		return h.Signature.Params().At(0).Type().String() == "int" && h.Signature.Results().At(0).Type().String() == "bool" &&
			mentionsField(cl.Call.Args[0], "net/http.Response.StatusCode")
	}
	for _, do := range dos {
		// enumerate cyclic paths: from the Do block back to itself
		n, bad := 0, 0
		var walk func(b *ssa.BasicBlock, path []*ssa.BasicBlock, seen map[*ssa.BasicBlock]bool)
		safeOn := func(path []*ssa.BasicBlock) bool {
			p := Path(path)
			// (a) rebuilt: a Seek on the body and a newRequest call on the path
			seek, rebuilt := false, false
			for _, b := range path {
				for _, in := range b.Instrs {
					ci, ok := in.(ssa.CallInstruction)
					if !ok {
						continue
					}
					cn := calleeName(ci.Common())
					if cn == "(io.Seeker).Seek" && mentionsField(ci.Common().Value, fBody) && seeksToRecordedStart(ci, fBody) {
						seek = true
					}
					if cn == ctorName {
						rebuilt = true
					}
				}
			}
			if seek && rebuilt {
				return true
			}
			// (b) the path takes an edge establishing body == nil or GetBody != nil
			ok := false
			instrsOf(send, func(in ssa.Instruction) {
				b, isB := in.(*ssa.BinOp)
				if !isB || (b.Op != token.EQL && b.Op != token.NEQ) || !isNilConst(b.Y) {
					return
				}
				switch {
				case isPureLoadOf(b.X, fBody):
					for _, e := range condEdges(b, b.Op == token.EQL) { // body == nil
						if p.hasEdge(e) {
							ok = true
						}
					}
				case isPureLoadOf(b.X, "net/http.Request.GetBody"):
					for _, e := range condEdges(b, b.Op == token.NEQ) { // GetBody != nil
						if p.hasEdge(e) {
							ok = true
						}
					}
				}
			})
			if !ok {
				// the same decided once and kept in a boolean (`needsRewind := body != nil
				// && req.GetBody == nil`): the edge on which that boolean has the value
				// every way of producing which means "no body or GetBody present"
				exempt := func(cond ssa.Value, val bool) bool {
					b, isB := cond.(*ssa.BinOp)
					if !isB || (b.Op != token.EQL && b.Op != token.NEQ) || !isNilConst(b.Y) {
						return false
					}
					switch {
					case isPureLoadOf(b.X, fBody):
						return (b.Op == token.EQL) == val
					case isPureLoadOf(b.X, "net/http.Request.GetBody"):
						return (b.Op == token.NEQ) == val
					}
					return false
				}
				instrsOf(send, func(in ssa.Instruction) {
					phi, isPhi := in.(*ssa.Phi)
					if !isPhi || phi.Type().String() != "bool" {
						return
					}
					for _, val := range []bool{true, false} {
						if !phiAll(phi, val, exempt) {
							continue
						}
						for _, e := range condEdges(phi, val) {
							if p.hasEdge(e) {
								ok = true
							}
						}
					}
				})
			}
			return ok
		}
		walk = func(b *ssa.BasicBlock, path []*ssa.BasicBlock, seen map[*ssa.BasicBlock]bool) {
			if n > 5000 {
				return
			}
			for _, s := range b.Succs {
				if s == do.Instr.Block() {
					n++
					if !safeOn(append(append([]*ssa.BasicBlock{}, path...), s)) {
						bad++
					}
					continue
				}
				if seen[s] {
					continue
				}
				seen[s] = true
				walk(s, append(path, s), seen)
				delete(seen, s)
			}
		}
		walk(do.Instr.Block(), []*ssa.BasicBlock{do.Instr.Block()}, map[*ssa.BasicBlock]bool{do.Instr.Block(): true})
		r.Check(n > 0 && bad == 0, r1, send, "retry back-edge restores the body", do.Instr, fmt.Sprintf("%d loop paths, all restore or need no body", n),
			fmt.Sprintf("%d of %d paths from one attempt to the next reuse the request without restoring a body that the previous attempt consumed: the retry is sent with an empty or truncated body", bad, n))
	}

	r2 := r.Rule("R2", "E-GUARD", "the retry loop is left where NextBackOff() == Stop; a status is retried only if it is not an accepted code (or is an explicitly configured extra code); the response is returned as success only where acceptedCodes[status] holds", 3)
	okStop := false
	for _, cs := range callsInNamed(send, "(github.com/cenkalti/backoff.BackOff).NextBackOff") {
		for _, rf := range *cs.Instr.Value().Referrers() {
			b, isB := rf.(*ssa.BinOp)
			if !isB || b.Op != token.EQL {
				continue
			}
			for _, e := range condEdges(b, true) {
				// the Stop edge must not lead back to a Do
				back := false
				for _, do := range dos {
					if e.To == do.Instr.Block() || reaches(e.To, do.Instr.Block()) {
						back = true
					}
				}
				if !back {
					okStop = true
				}
			}
		}
	}
	r.Check(okStop, r2, send, "stop on exhausted backoff", nil, "Stop edge leaves the loop", "the loop does not stop retrying when the backoff is exhausted")
	const fAcc = pkgHTTP + ".sendOptions.acceptedCodes"
	okAcc := false
	// in Send, or in the retry predicate it was extracted into
	instrsDeep(send, 1, func(_ *ssa.Function, in ssa.Instruction) {
		cl, isC := in.(*ssa.Call)
		if !isC || !isStatusPredicate(cl) {
			return
		}
		// on the true edge of isRetryable the next test must be acceptedCodes[...]
		for _, e := range condEdges(cl, true) {
			if len(e.To.Instrs) == 0 {
				continue
			}
			if iff, isIf := e.To.Instrs[len(e.To.Instrs)-1].(*ssa.If); isIf && mentionsField(iff.Cond, fAcc) {
				okAcc = true
			}
		}
	})
	r.Check(okAcc, r2, send, "retryable ∧ ¬accepted", nil, "status retry conjoined with not-accepted", "a status the caller declared acceptable can be retried")
	okRet := false
	for _, ret := range returnsOf(send) {
		if classifyReturn(ret) == RetFailure {
			continue
		}
		if guardedBy(ret, func(cond ssa.Value, val bool) int {
			if lk, isL := cond.(*ssa.Lookup); isL && mentionsField(lk.X, fAcc) {
				return tern(val, 1, -1)
			}
			return 0
		}) {
			okRet = true
		} else {
			okRet = false
			break
		}
	}
	r.Check(okRet, r2, send, "success only for accepted codes", nil, "guarded by acceptedCodes[status]", "a response with a code that is not accepted is returned as success")

	r3 := r.Rule("R3", "flow", "every request sent by Send/fallback is built by newRequest(method, opts) with the function's own method and options", 2)
	for _, cs := range c.CallsTo(ctorName) {
		fn := cs.Caller
		if c.isFixture(fn) {
			continue
		}
		a := cs.Instr.Common().Args
		_, p0 := a[0].(*ssa.Parameter)
		okOpts := false
		switch x := a[1].(type) {
		case *ssa.Parameter:
			okOpts = true
		case *ssa.Alloc:
			okOpts = true
			_ = x
		}
		r.Check(p0 && okOpts, r3, fn, "newRequest(method, opts)", cs.Instr, "same method and options", "a request is (re)built from something else than the call's own method and options")
	}
	_ = types.Typ
}

func checkC35(c *Ctx, r *Report) {
	const pkg = "origin/blobclient"
	r.Explain = "A closure that is retried across origins by blobclient.Poll must not write into a caller-supplied io.Writer on an attempt that can be followed by another attempt: the writer handed to the per-origin download must be a local counting wrapper of the destination, and the closure must return (without downloading) once that counter is non-zero; Poll itself must call the closure at most once per origin per poll round and stop at the first success."
	r.NotDecided = "That a successful attempt delivered all bytes (io.Copy and Content-Length semantics of net/http, decided inside HTTPClient.DownloadBlob by the written==ContentLength test)."
	defer rulesSingleSink(c, r)
	r1 := r.Rule("R1", "E-ORDER/guard", "in every makeRequest closure passed to Poll, an io.Writer that comes from the enclosing function's parameters reaches a client call only through a local wrapper whose byte counter is tested (non-zero ⇒ return) before the call", 1)
	n := 0
	for _, cs := range c.CallsTo(pkg + ".Poll") {
		fn := cs.Caller
		if c.isFixture(fn) {
			continue
		}
		mc, ok := cs.Instr.Common().Args[3].(*ssa.MakeClosure)
		if !ok {
			continue
		}
		cl := mc.Fn.(*ssa.Function)
		n += c35AttemptHelpers(c, r, r1, pkg, cl, mc)
		// does the closure pass a writer to the client?
		for _, call := range callsIn(cl) {
			cc := call.Instr.Common()
			args := cc.Args
			for _, a := range args {
				if !types.Implements(a.Type(), ioWriter(c)) && !(isPtrToStructWithWriter(a.Type())) {
					continue
				}
				if _, isIface := a.Type().Underlying().(*types.Interface); !isIface && !isPtrToStructWithWriter(a.Type()) {
					continue
				}
				if !cc.IsInvoke() || typeName(cc.Value.Type()) != pkg+".Client" {
					continue
				}
				n++
				// a must derive from a free variable bound to a fresh local wrapper in fn
				var wrapper *ssa.Alloc
				mentions(a, func(v ssa.Value) bool {
					fv, isFV := v.(*ssa.FreeVar)
					if !isFV {
						return false
					}
					for i, f := range cl.FreeVars {
						if f == fv {
							b := mc.Bindings[i]
							if al, isAl := rootOf(b).(*ssa.Alloc); isAl && isPtrToStructWithWriter(al.Type()) {
								wrapper = al
							} else if al2, isAl2 := b.(*ssa.Alloc); isAl2 {
								// variable cell holding the pointer
								for _, rf := range *al2.Referrers() {
									if st, isSt := rf.(*ssa.Store); isSt && st.Addr == al2 {
										if w, isW := st.Val.(*ssa.Alloc); isW {
											wrapper = w
										}
									}
								}
							}
						}
					}
					return false
				}, 6)
				if wrapper == nil || !isPtrToStructWithWriter(wrapper.Type()) {
					r.Bad(r1, cl, "writer passed to per-origin download", call.Instr, "the caller's destination writer is handed unchanged to every origin attempt: after a mid-transfer failure the next origin appends a second copy and the call reports success")
					continue
				}
				// guard: an If in the closure on a field of the wrapper, whose 'non-zero' edge returns without reaching the call
				guarded := guardedBy(call.Instr, func(cond ssa.Value, val bool) int {
					b, isB := cond.(*ssa.BinOp)
					if !isB {
						return 0
					}
					cnt := func(v ssa.Value) bool {
						return mentions(v, func(w ssa.Value) bool {
							fa, isFA := w.(*ssa.FieldAddr)
							return isFA && typeName(fa.X.Type()) == typeName(wrapper.Type())
						}, 5)
					}
					if !(cnt(b.X) && isConstZero(b.Y)) {
						return 0
					}
					nonZero := false
					switch b.Op {
					case token.GTR, token.NEQ:
						nonZero = val
					case token.EQL, token.LEQ:
						nonZero = !val
					default:
						return 0
					}
					return tern(nonZero, -1, 1)
				})
				// and the wrapper counts what it writes
				counts := wrapperCounts(c, wrapper)
				r.Check(guarded && counts, r1, cl, "writer passed to per-origin download", call.Instr, "counting wrapper, attempt refused once bytes were written",
					fmt.Sprintf("the destination is wrapped but the retry is not refused after bytes were written (guard=%v, wrapper counts=%v)", guarded, counts))
			}
		}
	}
	if n == 0 {
		r.Unresolved(r1, "no Poll closure passing a writer to a client call")
	}
	r2 := r.Rule("R2", "E-ORDER", "Poll returns nil at the first successful makeRequest and otherwise moves to the next origin or backs off; it never calls makeRequest again after a success", 1)
	if poll := r.MustFunc(r2, pkg+".Poll"); poll != nil {
		ok := false
		instrsOf(poll, func(in ssa.Instruction) {
			ci, isC := in.(ssa.CallInstruction)
			if !isC || ci.Common().Value != poll.Params[3] {
				return
			}
			for _, e0 := range errResults(ci) {
				for _, e := range nilEdges(e0, true) {
					// nil edge must lead straight to a success return without reaching the call again
					if !reaches(e.To, in.Block()) && e.To != in.Block() {
						last := e.To.Instrs[len(e.To.Instrs)-1]
						if ret, isRet := last.(*ssa.Return); isRet && classifyReturn(ret) == RetSuccess {
							ok = true
						}
					}
				}
			}
		})
		r.Check(ok, r2, poll, "first success returns", nil, "nil result ⇒ return nil immediately", "Poll continues to call makeRequest after an attempt succeeded (the blob would be written twice)")
	}
}

func ioWriter(c *Ctx) *types.Interface {
	for _, p := range c.Pkgs {
		if ip, ok := p.Imports["io"]; ok && ip.Types != nil {
			if o := ip.Types.Scope().Lookup("Writer"); o != nil {
				return o.Type().Underlying().(*types.Interface)
			}
		}
	}
	return types.NewInterfaceType(nil, nil)
}

// isPtrToStructWithWriter: *T where T is a struct having an io.Writer-typed field.
func isPtrToStructWithWriter(t types.Type) bool {
	p, ok := t.Underlying().(*types.Pointer)
	if !ok {
		return false
	}
	st, ok := p.Elem().Underlying().(*types.Struct)
	if !ok {
		return false
	}
	for i := 0; i < st.NumFields(); i++ {
		if typeName(st.Field(i).Type()) == "io.Writer" {
			return true
		}
	}
	return false
}

// wrapperCounts: the wrapper type's Write method adds the written count to a field.
func wrapperCounts(c *Ctx, wrapper *ssa.Alloc) bool {
	tn := typeName(wrapper.Type())
	w := c.Func("(*" + tn + ").Write")
	if w == nil {
		return false
	}
	ok := false
	// in Write itself or in a function literal it defers (named results read after the return)
	for _, g := range append([]*ssa.Function{w}, w.AnonFuncs...) {
		instrsOf(g, func(in ssa.Instruction) {
			if st, isSt := in.(*ssa.Store); isSt {
				if fa, isFA := st.Addr.(*ssa.FieldAddr); isFA && typeName(fa.X.Type()) == tn {
					if b, isB := st.Val.(*ssa.BinOp); isB && b.Op == token.ADD {
						ok = true
					}
				}
			}
		})
	}
	return ok
}

// seeksToRecordedStart: the call is body.Seek(x, io.SeekStart) where x derives from
// the position returned by a body.Seek(0, io.SeekCurrent) made outside any loop
// (i.e. before the first attempt): the retry resends from where the first attempt
// started reading, not from an assumed offset.
func seeksToRecordedStart(ci ssa.CallInstruction, fBody string) bool {
	a := ci.Common().Args
	if len(a) != 2 {
		return false
	}
	if w, ok := intConst(a[1]); !ok || w != 0 { // io.SeekStart
		return false
	}
	return mentions(a[0], func(v ssa.Value) bool {
		ex, ok := v.(*ssa.Extract)
		if !ok || ex.Index != 0 {
			return false
		}
		rc, ok := ex.Tuple.(*ssa.Call)
		if !ok || calleeName(rc.Common()) != "(io.Seeker).Seek" || !mentionsField(rc.Common().Value, fBody) {
			return false
		}
		ra := rc.Common().Args
		off, ok1 := intConst(ra[0])
		wh, ok2 := intConst(ra[1])
		return ok1 && ok2 && off == 0 && wh == 1 && !reaches(rc.Block(), rc.Block())
	}, 8)
}
