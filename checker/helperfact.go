package main

import (
	"golang.org/x/tools/go/ssa"
)

// helperFact: cond is a call to a loop-free boolean function of the same package
// as caller. It returns +1 if every path of that function on which it can return
// `val` establishes the fact (through one of its own branch conditions or through
// the returned expression itself), -1 if every such path establishes the
// negation, and 0 otherwise. Facts are evaluated on the helper's own SSA values,
// so only facts that do not refer to values of the caller can be recognised.
func helperFact(caller *ssa.Function, cond ssa.Value, val bool, fact FactFn, depth int) int {
	if depth > 2 || caller == nil {
		return 0
	}
	cl, ok := cond.(*ssa.Call)
	if !ok {
		return 0
	}
	h := cl.Common().StaticCallee()
	if h == nil || h.Pkg == nil || h.Pkg != caller.Pkg || len(h.Blocks) == 0 || len(h.Blocks) > 24 || h == caller {
		return 0
	}
	res := h.Signature.Results()
	if res.Len() != 1 || res.At(0).Type().String() != "bool" {
		return 0
	}
	for _, b := range h.Blocks { // loop-free only
		if reaches(b, b) {
			return 0
		}
	}
	eval := func(c ssa.Value, v bool) int {
		c, v = stripNot(c, v)
		if r := fact(c, v); r != 0 {
			return r
		}
		return helperFact(h, c, v, fact, depth+1)
	}
	n, pos, neg := 0, 0, 0
	complete := forEachPath(h, 400, func(p Path) {
		ret := p.ret()
		if ret == nil {
			return
		}
		rv := resolveOnPath(unspill(ret.Results[0]), p)
		if isBoolConst(rv, !val) {
			return // this path cannot return val
		}
		n++
		got := 0
		for i := 0; i+1 < len(p); i++ {
			iff, isIf := lastInstr(p[i]).(*ssa.If)
			if !isIf || p[i].Succs[0] == p[i].Succs[1] {
				continue
			}
			if r := eval(iff.Cond, p[i+1] == p[i].Succs[0]); r != 0 && got == 0 {
				got = r
			}
		}
		if !isBoolConst(rv, val) && got == 0 {
			got = eval(rv, val)
		}
		switch {
		case got > 0:
			pos++
		case got < 0:
			neg++
		}
	})
	if !complete || n == 0 {
		return 0
	}
	if pos == n {
		return 1
	}
	if neg == n {
		return -1
	}
	return 0
}
