package main

import (
	"golang.org/x/tools/go/ssa"
)

// helperFact: cond is a call to a loop-free boolean function of the same package
// as caller. It returns +1 if every path of that function on which it can return
// `val` establishes the fact (through one of its own branch conditions or through
// the returned expression itself), -1 if every such path establishes the
// negation, and 0 otherwise. Facts are evaluated on the helper's own SSA values,
// so only facts that do not refer to values of the caller can be recognised.
func helperFact(caller *ssa.Function, cond ssa.Value, val bool, fact FactFn, depth int) int {
	if depth > 2 || caller == nil {
		return 0
	}
	cl, ok := cond.(*ssa.Call)
	if !ok {
		return 0
	}
	h := cl.Common().StaticCallee()
	if h == nil || h.Pkg == nil || h.Pkg != caller.Pkg || len(h.Blocks) == 0 || len(h.Blocks) > 24 || h == caller {
		return 0
	}
	res := h.Signature.Results()
	if res.Len() != 1 || res.At(0).Type().String() != "bool" {
		return 0
	}
	for _, b := range h.Blocks { // loop-free only
		if reaches(b, b) {
			return 0
		}
	}
	eval := func(c ssa.Value, v bool) int {
		c, v = stripNot(c, v)
		if r := fact(c, v); r != 0 {
			return r
		}
		return helperFact(h, c, v, fact, depth+1)
	}
	n, pos, neg := 0, 0, 0
	complete := forEachPath(h, 400, func(p Path) {
		ret := p.ret()
		if ret == nil {
			return
		}
		rv := resolveOnPath(unspill(ret.Results[0]), p)
		if isBoolConst(rv, !val) {
			return // this path cannot return val
		}
		n++
		got := 0
		for i := 0; i+1 < len(p); i++ {
			iff, isIf := lastInstr(p[i]).(*ssa.If)
			if !isIf || p[i].Succs[0] == p[i].Succs[1] {
				continue
			}
			if r := eval(iff.Cond, p[i+1] == p[i].Succs[0]); r != 0 && got == 0 {
				got = r
			}
		}
		if !isBoolConst(rv, val) && got == 0 {
			got = eval(rv, val)
		}
		switch {
		case got > 0:
			pos++
		case got < 0:
			neg++
		}
	})
	if !complete || n == 0 {
		return 0
	}
	if pos == n {
		return 1
	}
	if neg == n {
		return -1
	}
	return 0
}

// phiFact: cond is a boolean phi produced by && / || (`known := ok && a == b`).
// The phi having value val can only come from the edges that are not the
// opposite constant; if there is exactly one such edge, val implies that edge's
// value being val and everything that guards the edge's predecessor block.
func phiFact(cond ssa.Value, val bool, fact FactFn, depth int) int {
	phi, ok := cond.(*ssa.Phi)
	if !ok || depth > 2 || phi.Type().String() != "bool" {
		return 0
	}
	idx := -1
	for i, e := range phi.Edges {
		if isBoolConst(e, !val) {
			continue
		}
		if idx >= 0 {
			return 0 // more than one way to get val
		}
		idx = i
	}
	if idx < 0 || idx >= len(phi.Block().Preds) {
		return 0
	}
	e := phi.Edges[idx]
	if !isBoolConst(e, val) {
		ev, v := stripNot(e, val)
		if r := fact(ev, v); r != 0 {
			return r
		}
		if r := phiFact(ev, v, fact, depth+1); r != 0 {
			return r
		}
	}
	for _, cf := range dominatingConds(phi.Block().Preds[idx]) {
		cv, v := stripNot(cf.Cond, cf.Val)
		if r := fact(cv, v); r > 0 {
			return r
		}
		if r := phiFact(cv, v, fact, depth+1); r > 0 {
			return r
		}
	}
	// the branch that ends the predecessor block itself
	pred := phi.Block().Preds[idx]
	if iff, isIf := lastInstr(pred).(*ssa.If); isIf && len(pred.Succs) == 2 && pred.Succs[0] != pred.Succs[1] {
		took := pred.Succs[0] == phi.Block()
		cv, v := stripNot(iff.Cond, took)
		if r := fact(cv, v); r > 0 {
			return r
		}
	}
	return 0
}

// phiAll: cond is a boolean phi; pred holds for EVERY way in which the phi can
// have value val: an edge carrying the constant val must come from a block that
// is reached only under a condition satisfying pred; any other edge value must
// satisfy pred itself. Used for "the whole false side of a && b is exempt when
// ¬a is exempt and ¬b is exempt".
func phiAll(cond ssa.Value, val bool, pred func(ssa.Value, bool) bool) bool {
	phi, ok := cond.(*ssa.Phi)
	if !ok || phi.Type().String() != "bool" || len(phi.Edges) == 0 {
		return false
	}
	for i, e := range phi.Edges {
		if isBoolConst(e, !val) {
			continue
		}
		if i >= len(phi.Block().Preds) {
			return false
		}
		if !isBoolConst(e, val) {
			ev, v := stripNot(e, val)
			if !pred(ev, v) {
				return false
			}
			continue
		}
		p := phi.Block().Preds[i]
		found := false
		for _, cf := range dominatingConds(p) {
			if pred(cf.Cond, cf.Val) {
				found = true
			}
		}
		if iff, isIf := lastInstr(p).(*ssa.If); isIf && len(p.Succs) == 2 && p.Succs[0] != p.Succs[1] {
			if pred(iff.Cond, p.Succs[0] == phi.Block()) {
				found = true
			}
		}
		if !found {
			return false
		}
	}
	return true
}
