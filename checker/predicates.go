// predicates.go: path conditions over a finite set of named boolean atoms
// (predicate abstraction). A rule gives an atomizer that recognises the
// conditions it cares about by their DEFINITION (field compared with a constant,
// a time comparison, a parameter) — not by the name of a helper function. Calls
// to small loop-free boolean helpers of the same package are expanded, so that
// extracting `pending && !expired` into a method, inverting a guard into an early
// `continue`, or merging two ifs into one `||` all yield the same assignments.
package main

import (
	"go/token"
	"sort"
	"strings"

	"golang.org/x/tools/go/ssa"
)

// Assignment is a partial valuation of atoms established along one path.
type Assignment map[string]bool

func (a Assignment) clone() Assignment {
	b := Assignment{}
	for k, v := range a {
		b[k] = v
	}
	return b
}

// set records atom=val; false if it contradicts what the path already established.
func (a Assignment) set(atom string, val bool) bool {
	if old, ok := a[atom]; ok {
		return old == val
	}
	a[atom] = val
	return true
}

func (a Assignment) String() string {
	var ks []string
	for k := range a {
		ks = append(ks, k)
	}
	sort.Strings(ks)
	var sb []string
	for _, k := range ks {
		if a[k] {
			sb = append(sb, k)
		} else {
			sb = append(sb, "¬"+k)
		}
	}
	return "{" + strings.Join(sb, " ∧ ") + "}"
}

// Tri is a three-valued truth value.
type Tri int

const (
	TriFalse Tri = -1
	TriUnknown Tri = 0
	TriTrue  Tri = 1
)

// Formula evaluates under a partial assignment.
type Formula func(a Assignment) Tri

func fAtom(name string) Formula {
	return func(a Assignment) Tri {
		v, ok := a[name]
		if !ok {
			return TriUnknown
		}
		if v {
			return TriTrue
		}
		return TriFalse
	}
}
func fNot(f Formula) Formula { return func(a Assignment) Tri { return -f(a) } }
func fAnd(fs ...Formula) Formula {
	return func(a Assignment) Tri {
		res := TriTrue
		for _, f := range fs {
			switch f(a) {
			case TriFalse:
				return TriFalse
			case TriUnknown:
				res = TriUnknown
			}
		}
		return res
	}
}
func fOr(fs ...Formula) Formula {
	return func(a Assignment) Tri {
		res := TriFalse
		for _, f := range fs {
			switch f(a) {
			case TriTrue:
				return TriTrue
			case TriUnknown:
				res = TriUnknown
			}
		}
		return res
	}
}

// Atomizer recognises a boolean SSA value as an atom. resolve maps a value that
// is a parameter of an expanded helper to the argument at the (outermost) caller
// and resolves phis along the current path. It returns the atom's name, whether
// the value equals the atom (true) or its negation (false), and ok. It may also
// report that the value is a known constant on this path: atom == "" with ok and
// positive carrying the constant.
type Atomizer func(v ssa.Value, resolve func(ssa.Value) ssa.Value) (atom string, positive bool, ok bool)

type predEnv struct {
	atomize Atomizer
	maxExp  int
}

// condAssignments returns the alternative assignments under which boolean value
// v (as seen on a path described by resolve) evaluates to want, each extending
// base. An empty result means v == want is impossible on this path; ok=false means
// v could not be interpreted (the caller treats the literal as unknown and keeps
// base unchanged).
func (e *predEnv) condAssignments(v ssa.Value, want bool, base Assignment, resolve func(ssa.Value) ssa.Value, depth int) (out []Assignment, ok bool) {
	v = resolve(v)
	if k, isK := v.(*ssa.Const); isK {
		if isBoolConst(k, want) {
			return []Assignment{base}, true
		}
		if isBoolConst(k, !want) {
			return nil, true
		}
	}
	if u, isU := v.(*ssa.UnOp); isU && u.Op == token.NOT {
		return e.condAssignments(u.X, !want, base, resolve, depth)
	}
	if atom, pos, isA := e.atomize(v, resolve); isA {
		if atom == "" { // constant on this path
			if pos == want {
				return []Assignment{base}, true
			}
			return nil, true
		}
		a := base.clone()
		if !a.set(atom, pos == want) {
			return nil, true
		}
		return []Assignment{a}, true
	}
	// a phi that could not be resolved on the path: give up
	// expansion of a boolean helper of the same package
	if cl, isC := v.(*ssa.Call); isC && depth < e.maxExp {
		if h := cl.Common().StaticCallee(); h != nil && len(h.Blocks) > 0 && len(h.Blocks) <= 24 {
			res := h.Signature.Results()
			if res.Len() == 1 && res.At(0).Type().String() == "bool" {
				args := cl.Common().Args
				var all []Assignment
				interpretable := true
				complete := forEachPath(h, 400, func(p Path) {
					ret := p.ret()
					if ret == nil {
						return
					}
					inner := func(x ssa.Value) ssa.Value {
						x = resolveOnPath(x, p)
						if lv := unspill(x); lv != x {
							x = resolveOnPath(lv, p)
						}
						for i, prm := range h.Params {
							if x == ssa.Value(prm) && i < len(args) {
								return resolve(args[i])
							}
						}
						return x
					}
					// assignments implied by the helper's own branches on this path
					cur := []Assignment{base}
					for i := 0; i+1 < len(p) && len(cur) > 0; i++ {
						iff, isIf := lastInstr(p[i]).(*ssa.If)
						if !isIf || p[i].Succs[0] == p[i].Succs[1] {
							continue
						}
						took := p[i+1] == p[i].Succs[0]
						var next []Assignment
						for _, a := range cur {
							as, okc := e.condAssignments(iff.Cond, took, a, inner, depth+1)
							if !okc {
								next = append(next, a) // uninterpreted branch: no information
								continue
							}
							next = append(next, as...)
						}
						cur = next
					}
					// the returned value must equal want
					for _, a := range cur {
						as, okr := e.condAssignments(ret.Results[0], want, a, inner, depth+1)
						if !okr {
							interpretable = false
							continue
						}
						all = append(all, as...)
					}
				})
				if complete && interpretable {
					return all, true
				}
			}
		}
	}
	return nil, false
}

func lastInstr(b *ssa.BasicBlock) ssa.Instruction {
	if len(b.Instrs) == 0 {
		return nil
	}
	return b.Instrs[len(b.Instrs)-1]
}

// pathAssignments enumerates the paths of fn that start at block `from` (the
// function entry if nil) and end at instruction `to`'s block (when to != nil) or
// at any block for which stop(b) is true, visiting each block at most once, and
// returns for each such path the alternative assignments its branches establish.
// Paths whose branches are contradictory are dropped.
type pathResult struct {
	Path  Path
	Alts  []Assignment
	Loose bool // some branch on the path could not be interpreted
}

func (e *predEnv) pathAssignments(fn *ssa.Function, from *ssa.BasicBlock, stop func(b *ssa.BasicBlock) bool, within func(b *ssa.BasicBlock) bool) []pathResult {
	if from == nil {
		from = fn.Blocks[0]
	}
	var out []pathResult
	var cur Path
	on := map[*ssa.BasicBlock]bool{}
	count := 0
	var walk func(b *ssa.BasicBlock)
	walk = func(b *ssa.BasicBlock) {
		if count > 5000 {
			return
		}
		cur = append(cur, b)
		on[b] = true
		defer func() { cur = cur[:len(cur)-1]; on[b] = false }()
		if len(cur) > 1 && stop(b) || len(b.Succs) == 0 {
			count++
			p := make(Path, len(cur))
			copy(p, cur)
			res := pathResult{Path: p}
			resolve := func(x ssa.Value) ssa.Value {
				x = resolveOnPath(x, p)
				return x
			}
			alts := []Assignment{{}}
			for i := 0; i+1 < len(p) && len(alts) > 0; i++ {
				iff, isIf := lastInstr(p[i]).(*ssa.If)
				if !isIf || p[i].Succs[0] == p[i].Succs[1] {
					continue
				}
				took := p[i+1] == p[i].Succs[0]
				var next []Assignment
				for _, a := range alts {
					as, ok := e.condAssignments(iff.Cond, took, a, resolve, 0)
					if !ok {
						res.Loose = true
						next = append(next, a)
						continue
					}
					next = append(next, as...)
				}
				alts = next
			}
			if len(alts) > 0 {
				res.Alts = alts
				out = append(out, res)
			}
			return
		}
		for _, s := range b.Succs {
			if on[s] {
				continue
			}
			if within != nil && !within(s) && !stop(s) {
				continue
			}
			walk(s)
		}
	}
	walk(from)
	return out
}
