package main

import (
	"fmt"
	"go/constant"
	"go/token"
	"go/types"
	"regexp/syntax"
	"sort"
	"strings"

	"golang.org/x/tools/go/ssa"
)

func init() { register("C38", checkC38) }

// finiteLang enumerates the language of a regexp syntax tree when it is a small
// finite set of strings (literals, concatenations, alternations, small classes).
func finiteLang(re *syntax.Regexp) ([]string, bool) {
	const maxN = 64
	switch re.Op {
	case syntax.OpEmptyMatch, syntax.OpEndText, syntax.OpBeginText:
		return []string{""}, true // anchors contribute no text to the capture
	case syntax.OpLiteral:
		if re.Flags&syntax.FoldCase != 0 {
			return nil, false
		}
		return []string{string(re.Rune)}, true
	case syntax.OpCapture:
		return finiteLang(re.Sub[0])
	case syntax.OpCharClass:
		var out []string
		for i := 0; i+1 < len(re.Rune); i += 2 {
			if re.Rune[i+1]-re.Rune[i] > 8 {
				return nil, false
			}
			for x := re.Rune[i]; x <= re.Rune[i+1]; x++ {
				out = append(out, string(x))
			}
		}
		return out, len(out) <= maxN
	case syntax.OpAlternate:
		var out []string
		for _, s := range re.Sub {
			l, ok := finiteLang(s)
			if !ok {
				return nil, false
			}
			out = append(out, l...)
		}
		return out, len(out) <= maxN
	case syntax.OpConcat:
		out := []string{""}
		for _, s := range re.Sub {
			l, ok := finiteLang(s)
			if !ok {
				return nil, false
			}
			var nx []string
			for _, a := range out {
				for _, b := range l {
					nx = append(nx, a+b)
				}
			}
			if len(nx) > maxN {
				return nil, false
			}
			out = nx
		}
		return out, true
	}
	return nil, false
}

// patternOf resolves a *regexp.Regexp value to the constant it was compiled from:
// a MustCompile call in the function, or a package-level variable that the
// package initialiser sets to such a call (and nothing else stores to).
func patternOf(v ssa.Value) (string, bool) {
	fromCall := func(x ssa.Value) (string, bool) {
		cl, ok := x.(*ssa.Call)
		if !ok || calleeName(cl.Common()) != "regexp.MustCompile" {
			return "", false
		}
		k, isK := cl.Common().Args[0].(*ssa.Const)
		if !isK || k.Value == nil || k.Value.Kind() != constant.String {
			return "", false
		}
		return constant.StringVal(k.Value), true
	}
	if p, ok := fromCall(v); ok {
		return p, true
	}
	ld, ok := v.(*ssa.UnOp)
	if !ok || ld.Op != token.MUL {
		return "", false
	}
	g, ok := ld.X.(*ssa.Global)
	if !ok || g.Pkg == nil {
		return "", false
	}
	pat, n := "", 0
	for _, m := range g.Pkg.Members {
		f, isF := m.(*ssa.Function)
		if !isF {
			continue
		}
		for _, fn := range withClosures(f) {
			for _, b := range fn.Blocks {
				for _, in := range b.Instrs {
					if st, isSt := in.(*ssa.Store); isSt && st.Addr == ssa.Value(g) {
						n++
						if p, ok := fromCall(st.Val); ok {
							pat = p
						} else {
							return "", false
						}
					}
				}
			}
		}
	}
	return pat, n == 1
}

func findCapture(re *syntax.Regexp, n int) *syntax.Regexp {
	if re.Op == syntax.OpCapture && re.Cap == n {
		return re
	}
	for _, s := range re.Sub {
		if f := findCapture(s, n); f != nil {
			return f
		}
	}
	return nil
}

// checkC38 decides the part of "parsing recovers what was built" that is visible
// in the parser alone: each pattern is a valid constant regular expression,
// its capture groups agree with the way its match slice is guarded and indexed,
// and a capture that is converted to the path-subtype enumeration can only take
// declared values of that enumeration.
func checkC38(c *Ctx, r *Report) {
	const pkg = "lib/dockerregistry"
	r.Explain = "The structural part of the registry-path parser, decided from the constant patterns in lib/dockerregistry (parsed with regexp/syntax, never run): (R1) every regular expression used by the parser (ParsePath, the Get* extractors named by the property, and their callees in the package) is compiled (locally or in a package-level variable assigned once) from a constant that parses; (R2) for every FindStringSubmatch on such a pattern, the length guard len(m) < K and every constant index m[i] agree with the number of capture groups (1 <= K <= groups+1, i <= groups; a larger K rejects every path, a larger i panics); (R3) a capture converted to PathSubType has a finite language and every word of it is a declared PathSubType constant, so classification can only return a declared subtype."
	r.NotDecided = "That the patterns accept exactly the paths docker/distribution builds and that the captured text equals the component that was built: there is no path builder in the repository to compare with, and inclusion between regular languages is not computed. Which of several matching classifiers wins in ParsePath is not decided."
	r1 := r.Rule("R1", "E-CODEC", "every regular expression used in the path parser (ParsePath, the Get* extractors and their callees in lib/dockerregistry) is compiled, in the function or in a package-level variable, from a constant that parses (Perl syntax; MustCompile panics on every call otherwise)", 11)
	r2 := r.Rule("R2", "E-CODEC", "the length guard and the constant indices on every FindStringSubmatch result agree with the pattern's capture-group count", 8)
	r3 := r.Rule("R3", "E-CODEC", "a capture converted to PathSubType ranges over declared PathSubType constants only", 2)

	declared := map[string]bool{}
	if p := c.PkgByID[K+"/"+pkg]; p != nil && p.Types != nil {
		for _, n := range p.Types.Scope().Names() {
			k, ok := p.Types.Scope().Lookup(n).(*types.Const)
			if !ok || k.Val().Kind() != constant.String {
				continue
			}
			if nm := namedOf(k.Type()); nm != nil && nm.Obj().Name() == "PathSubType" {
				declared[constant.StringVal(k.Val())] = true
			}
		}
	}
	if len(declared) == 0 {
		r.Unresolved(r3, "no PathSubType constants found in "+pkg)
	}

	// the parser: the entry points named by the property and what they call inside the package
	roots := map[string]bool{"ParsePath": true, "GetRepo": true, "GetManifestTag": true, "GetBlobDigest": true, "GetLayerDigest": true,
		"GetManifestDigest": true, "GetUploadUUID": true, "GetUploadAlgoAndOffset": true}
	inParser := map[*ssa.Function]bool{}
	var grow func(fn *ssa.Function)
	grow = func(fn *ssa.Function) {
		if inParser[fn] {
			return
		}
		inParser[fn] = true
		for _, cs := range callsIn(fn) {
			if sf := cs.Instr.Common().StaticCallee(); sf != nil && pkgOf(sf) == pkg {
				grow(sf)
			}
		}
	}
	nRoots := 0
	for _, fn := range c.FuncsIn(pkg) {
		if fn.Parent() == nil && fn.Signature.Recv() == nil && roots[fn.Name()] {
			nRoots++
			grow(fn)
		}
	}
	if nRoots != len(roots) {
		r.Unresolved(r1, fmt.Sprintf("only %d of the %d parser entry points named by the property were found in %s", nRoots, len(roots), pkg))
	}
	var fns []*ssa.Function
	for fn := range inParser {
		fns = append(fns, fn)
	}
	sort.Slice(fns, func(i, j int) bool { return funcName(fns[i]) < funcName(fns[j]) })
	for _, fn := range fns {
		if c.isFixture(fn) {
			continue
		}
		for _, cs := range callsIn(fn) {
			if !strings.HasPrefix(cs.Callee, "(*regexp.Regexp).") {
				continue
			}
			r.Analysed(fn)
			pat, okPat := patternOf(cs.Instr.Common().Args[0])
			if !okPat {
				r.Undecided(r1, fn, "pattern of "+cs.Callee, cs.Instr, "the receiver is not a regexp compiled from a constant (in the function or in a package-level variable)")
				continue
			}
			re, err := syntax.Parse(pat, syntax.Perl)
			if err != nil {
				r.Bad(r1, fn, "pattern "+pat, cs.Instr, "the pattern does not parse: "+err.Error())
				continue
			}
			r.OK(r1, fn, "pattern "+pat, cs.Instr, true, "constant; parses")
			groups := re.MaxCap()
			fs, isCall := cs.Instr.(*ssa.Call)
			if !isCall || cs.Callee != "(*regexp.Regexp).FindStringSubmatch" {
				continue
			}
			{
				okAll := true
				var facts []string
				for _, mr := range *fs.Referrers() {
					switch y := mr.(type) {
					case *ssa.Call:
						if b, isB := y.Common().Value.(*ssa.Builtin); isB && b.Name() == "len" {
							for _, lr := range *y.Referrers() {
								bo, isBo := lr.(*ssa.BinOp)
								if !isBo {
									continue
								}
								kk, isC := intConst(bo.Y)
								if !isC || bo.X != ssa.Value(y) {
									continue
								}
								var K int64 = -1
								switch bo.Op {
								case token.LSS: // len(m) < K rejects
									K = kk
								case token.LEQ:
									K = kk + 1
								case token.EQL, token.NEQ: // len(m) == 0 / != n
									if kk == 0 {
										K = 1
									} else {
										K = kk
									}
								}
								if K < 0 {
									continue
								}
								facts = append(facts, fmt.Sprintf("guard K=%d", K))
								if K < 1 || K > int64(groups)+1 {
									okAll = false
									r.Bad(r2, fn, "length guard of "+pat, bo, fmt.Sprintf("the guard requires %d elements but a match has exactly %d (the pattern has %d capture groups): every path is rejected", K, groups+1, groups))
								}
							}
						}
					case *ssa.IndexAddr:
						if i, isC := intConst(y.Index); isC {
							facts = append(facts, fmt.Sprintf("m[%d]", i))
							if i > int64(groups) {
								okAll = false
								r.Bad(r2, fn, "index into match of "+pat, y, fmt.Sprintf("m[%d] is read but the pattern has only %d capture groups", i, groups))
							}
							// R3: conversion of the element to PathSubType
							for _, lr := range *y.Referrers() {
								ld, isLd := lr.(*ssa.UnOp)
								if !isLd || ld.Op != token.MUL {
									continue
								}
								for _, cr := range *ld.Referrers() {
									ct, isCt := cr.(*ssa.ChangeType)
									if !isCt {
										continue
									}
									if nm := namedOf(ct.Type()); nm == nil || nm.Obj().Name() != "PathSubType" {
										continue
									}
									cap := findCapture(re, int(i))
									if cap == nil {
										r.Bad(r3, fn, "subtype from "+pat, ct, fmt.Sprintf("capture %d does not exist", i))
										continue
									}
									lang, fin := finiteLang(cap)
									if !fin {
										r.Bad(r3, fn, "subtype from "+pat, ct, "the capture converted to PathSubType is not a finite set of words: arbitrary text becomes a subtype")
										continue
									}
									var undeclared []string
									for _, w := range lang {
										if !declared[w] {
											undeclared = append(undeclared, w)
										}
									}
									r.Check(len(undeclared) == 0, r3, fn, "subtype from "+pat, ct, "words "+strings.Join(lang, ",")+" are all declared PathSubType constants",
										"the capture can be "+strings.Join(undeclared, ",")+", which is not a declared PathSubType: the classifier returns a subtype no caller compares with")
								}
							}
						}
					}
				}
				if okAll {
					sort.Strings(facts)
					r.OK(r2, fn, "match of "+pat, fs, true, fmt.Sprintf("%d capture groups; %s", groups, strings.Join(facts, " ")))
				}
			}
		}
	}
}
