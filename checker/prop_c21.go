package main

import (
	"fmt"
	"go/token"
	"sort"
	"strings"

	"golang.org/x/tools/go/ssa"
)

func init() {
	register("C21", checkC21)
	register("C22", checkC22)
}

const (
	pkgRing = "lib/hashring"
	pkgHRW  = "lib/hrw"
)

// footprint lists the struct fields read (FieldAddr/Field) and the callees of fn.
func footprint(fn *ssa.Function) (fields map[string]bool, callees map[string]bool, dynamic int) {
	fields, callees = map[string]bool{}, map[string]bool{}
	seen := map[*ssa.Function]bool{}
	var visit func(f *ssa.Function)
	visit = func(f *ssa.Function) {
		seen[f] = true
		instrsOf(f, func(in ssa.Instruction) {
			switch x := in.(type) {
			case *ssa.FieldAddr, *ssa.Field:
				if n, ok := fieldName(x.(ssa.Value)); ok {
					fields[n] = true
				}
			case ssa.CallInstruction:
				// helpers of the same package are part of the function: their
				// footprint is merged instead of being listed as a callee
				if sf := x.Common().StaticCallee(); sf != nil && len(sf.Blocks) > 0 && sf.Pkg != nil && sf.Pkg == fn.Pkg {
					if !seen[sf] {
						visit(sf)
					}
					return
				}
				n := calleeName(x.Common())
				if n == "" {
					dynamic++
				} else {
					callees[n] = true
				}
			}
			if u, ok := in.(*ssa.UnOp); ok && u.Op == token.MUL {
				if g, isG := u.X.(*ssa.Global); isG {
					fields["global:"+g.String()] = true
				}
			}
		})
	}
	visit(fn)
	return
}

func checkC21(c *Ctx, r *Report) {
	const tRing = pkgRing + ".ring"
	r.Explain = "Structure of replica-set computation: (R1) every address appended to the result of Locations is on the true side of a membership test in the healthy set, inside a loop whose continuation condition bounds the position by MaxReplica unless the result is still empty; with no healthy host the first ordered node is returned; (R2) Locations reads only the ring's hash, members, healthy set and MaxReplica and the digest's shard id — no clock, no local address, no discovery order; (R3) members, hash and healthy set are replaced together in one critical section and read under the read lock, and a new hash is built from exactly the membership stored with it."
	r.NotDecided = "Non-emptiness when some member is healthy (needs healthy ⊆ members), which healthy members are chosen and tie behaviour — set and ordering facts over hash values."
	loc := r.MustFunc(r.Rule("R1", "E-GUARD", "appends to the Locations result only for addresses in r.healthy; loop continuation mentions MaxReplica and the emptiness of the result; the no-healthy path returns the first ordered node", 2), "(*"+tRing+").Locations")
	r1 := r.Prop + ".R1"
	if loc != nil {
		// the replica set is built in Locations or in a helper of the package whose
		// result Locations returns; fields reach the helper as arguments
		builders := []*ssa.Function{loc}
		for _, cs := range callsIn(loc) {
			h := cs.Instr.Common().StaticCallee()
			hv, isV := cs.Instr.(ssa.Value)
			if h == nil || !isV || h.Pkg != loc.Pkg || len(h.Blocks) == 0 || (h.Object() != nil && h.Object().Exported()) {
				continue
			}
			for _, ret := range returnsOf(loc) {
				if len(ret.Results) == 1 && mentions(unspill(ret.Results[0]), func(v ssa.Value) bool { return v == hv }, 3) {
					builders = append(builders, h)
					break
				}
			}
		}
		ordered := func(v ssa.Value) bool { return isCallTo(v, "(*"+pkgHRW+".RendezvousHash).GetOrderedNodes") }
		n := 0
		for _, bf := range builders {
			bf := bf
			instrsOf(bf, func(in ssa.Instruction) {
				cl, ok := in.(*ssa.Call)
				if !ok || calleeName(cl.Common()) != "builtin.append" {
					return
				}
				n++
				okH := guardedBy(cl, func(cond ssa.Value, val bool) int {
					if c2, isC := cond.(*ssa.Call); isC && calleeName(c2.Common()) == "(utils/stringset.Set).Has" && mentionsFieldIP(c, c2.Call.Args[0], tRing+".healthy") {
						return tern(val, 1, -1)
					}
					return 0
				})
				// the appended address is the tested one and comes from the ordered nodes
				addrOK := mentionsField(cl, pkgHRW+".RendezvousHashNode.Label") && mentionsIP(c, cl, ordered, 2)
				// loop condition
				loopOK := false
				for _, iff := range controlConds(cl.Block()) {
					if mentionsFieldIP(c, iff.Cond, pkgRing+".Config.MaxReplica") {
						loopOK = true
					}
				}
				if !loopOK {
					// short-circuit form: the MaxReplica test is a separate If in the loop header chain
					instrsOf(bf, func(in2 ssa.Instruction) {
						if iff, isIf := in2.(*ssa.If); isIf && mentionsFieldIP(c, iff.Cond, pkgRing+".Config.MaxReplica") && reaches(iff.Block(), cl.Block()) && reaches(cl.Block(), iff.Block()) {
							loopOK = true
						}
					})
				}
				emptyOK := false
				instrsOf(bf, func(in2 ssa.Instruction) {
					if iff, isIf := in2.(*ssa.If); isIf && reaches(iff.Block(), cl.Block()) && reaches(cl.Block(), iff.Block()) {
						// a test of the emptiness of the result so far, in any spelling
						zf := lenZeroFact(func(x ssa.Value) bool {
							return !mentionsFieldIP(c, x, tRing+".healthy") && !bindsTo(c, x, ordered, 2)
						})
						if zf(iff.Cond, true) != 0 {
							emptyOK = true
						}
					}
				})
				r.Check(okH && addrOK && loopOK && emptyOK, r1, bf, "append to replica set", cl, "healthy member among the ordered nodes, bounded by MaxReplica unless still empty",
					fmt.Sprintf("an address enters the replica set without: healthy-set membership (%v), coming from the ordered node list (%v), MaxReplica bound in the loop condition (%v), 'still empty' extension (%v)", okH, addrOK, loopOK, emptyOK))
			})
		}
		if n == 0 {
			r.Bad(r1, loc, "append", nil, "Locations never builds a replica set")
		}
		okNone := false
		for _, ret := range returnsOf(loc) {
			if guardedBy(ret, eqFact(func(b *ssa.BinOp) bool {
				lc, isL := b.X.(*ssa.Call)
				return isL && calleeName(lc.Common()) == "builtin.len" && mentionsField(lc.Call.Args[0], tRing+".healthy") && isConstZero(b.Y)
			}, true)) && mentionsField(unspill(ret.Results[0]), pkgHRW+".RendezvousHashNode.Label") {
				okNone = true
			}
		}
		if !okNone {
			// single-return form: the returned value is a phi one of whose edges, taken
			// on the empty-healthy-set side, is the one-element list of the first node
			hz := lenZeroFact(func(x ssa.Value) bool { return mentionsField(x, tRing+".healthy") })
			for _, ret := range returnsOf(loc) {
				phi, isPhi := unspill(ret.Results[0]).(*ssa.Phi)
				if !isPhi {
					continue
				}
				for i, e := range phi.Edges {
					if !mentionsField(e, pkgHRW+".RendezvousHashNode.Label") || mentionsCall(e, "builtin.append") {
						continue
					}
					pred := phi.Block().Preds[i]
					if len(pred.Instrs) > 0 && guardedBy(pred.Instrs[len(pred.Instrs)-1], hz) {
						okNone = true
					}
				}
			}
		}
		r.Check(okNone, r1, loc, "no healthy host ⇒ top owner", nil, "returns the first ordered node", "with no healthy host Locations does not return the top owner")
	}

	r2 := r.Rule("R2", "E-NONINTERF", "the read footprint of Locations is {ring.hash, ring.addrs, ring.healthy, ring.config.MaxReplica, mutex, ordered node labels}; its callees are the rendezvous ordering, the shard id, set membership, len/append and logging", 1)
	if loc != nil {
		fields, callees, dyn := footprint(loc)
		allowedF := map[string]bool{tRing + ".hash": true, tRing + ".addrs": true, tRing + ".healthy": true, tRing + ".config": true, tRing + ".mu": true,
			pkgRing + ".Config.MaxReplica": true, pkgHRW + ".RendezvousHashNode.Label": true}
		allowedC := map[string]bool{"(*" + pkgHRW + ".RendezvousHash).GetOrderedNodes": true, "(core.Digest).ShardID": true, "(utils/stringset.Set).Has": true,
			"builtin.len": true, "builtin.append": true, "(*sync.RWMutex).RLock": true, "(*sync.RWMutex).RUnlock": true, "utils/log.Fatal": true}
		var extra []string
		for f := range fields {
			if !allowedF[f] {
				extra = append(extra, "field "+f)
			}
		}
		for cn := range callees {
			if !allowedC[cn] {
				extra = append(extra, "call "+cn)
			}
		}
		sort.Strings(extra)
		r.Check(len(extra) == 0 && dyn == 0, r2, loc, "footprint", nil, fmt.Sprintf("%d fields, %d callees, all allowed", len(fields), len(callees)),
			"Locations depends on something outside the membership/health/hash/MaxReplica footprint ("+strings.Join(extra, ", ")+"): processes with the same membership may compute different replica sets")
		// the key is the digest's shard id, the count is the membership size
		for _, cs := range callsInNamed(loc, "(*"+pkgHRW+".RendezvousHash).GetOrderedNodes") {
			a := cs.Instr.Common().Args
			okk := mentionsCall(a[1], "(core.Digest).ShardID") && mentionsField(a[2], tRing+".addrs")
			r.Check(okk, r2, loc, "ordering key", cs.Instr, "shard id of the digest, all members", "the ordering is not computed from the digest's shard id over all members")
		}
	}

	r3 := r.Rule("R3", "E-LOCK/E-COUPDATE", "ring.addrs/hash/healthy are stored together in one critical section; readers hold the read lock; a rebuilt hash gets exactly the nodes of the membership stored with it", 3)
	checkLockRows(c, r, r3, []string{pkgRing}, []LockRow{{Struct: tRing, Mutex: "mu", Fields: []string{"addrs", "hash", "healthy"},
		Ctors: []string{pkgRing + ".New"},
		Except: map[string]string{"(*" + tRing + ").Refresh": "the refresh goroutine is the only writer; its unlocked reads of its own previous writes cannot race with another writer (readers take the read lock)"}}})
	if rf := r.MustFunc(r3, "(*"+tRing+").Refresh"); rf != nil {
		// the three stores are in Refresh or in one helper method it calls on the same ring
		holder := rf
		var holderCall ssa.CallInstruction
		if len(storesToField(rf, tRing+".addrs")) == 0 {
			for _, cs := range callsIn(rf) {
				h := cs.Instr.Common().StaticCallee()
				if h == nil || h.Pkg != rf.Pkg || len(h.Blocks) == 0 || len(h.Params) == 0 || len(storesToField(h, tRing+".addrs")) == 0 {
					continue
				}
				if a := cs.Instr.Common().Args; len(a) > 0 && a[0] == ssa.Value(rf.Params[0]) {
					holder, holderCall = h, cs.Instr
				}
			}
		}
		sets := locksets(holder, lockState{})
		var blocks []*ssa.BasicBlock
		okAll := true
		var addrsVal ssa.Value
		for _, f := range []string{"addrs", "hash", "healthy"} {
			sts := storesToField(holder, tRing+"."+f)
			if len(sts) != 1 {
				okAll = false
				continue
			}
			if sets[sts[0]][lk(holder.Params[0], "mu")] < 2 {
				okAll = false
			}
			blocks = append(blocks, sts[0].Block())
			if f == "addrs" {
				addrsVal = sts[0].Val
				if holderCall != nil {
					addrsVal = nil
					for i, p := range holder.Params {
						if sts[0].Val == ssa.Value(p) && i < len(holderCall.Common().Args) {
							addrsVal = holderCall.Common().Args[i]
						}
					}
				}
			}
		}
		for _, b := range blocks {
			if b != blocks[0] {
				okAll = false
			}
		}
		// no unlock between them: same block and lock held at each is enough
		r.Check(okAll, r3, rf, "one critical section", nil, "three stores under one Lock", "members, hash and healthy set are not replaced together under the write lock: Locations can see a hash built for another membership")
		// hash nodes from the same membership
		okNodes := false
		for _, l := range rangeLoops(rf) {
			if addrsVal != nil && l.Ranged == addrsVal || (addrsVal != nil && mentions(l.Ranged, func(v ssa.Value) bool { return v == addrsVal }, 2)) {
				for _, cs := range callsInNamed(rf, "(*"+pkgHRW+".RendezvousHash).AddNode") {
					if l.everyIteration(cs.Instr) && l.derivesFromElem(cs.Instr.Common().Args[1]) {
						okNodes = true
					}
				}
			}
		}
		rebuiltWhenChanged := false
		for _, cs := range callsInNamed(rf, pkgHRW+".NewRendezvousHash") {
			if guardedBy(cs.Instr, func(cond ssa.Value, val bool) int {
				if isCallTo(cond, "utils/stringset.Equal") {
					return tern(val, -1, 1)
				}
				return 0
			}) {
				rebuiltWhenChanged = true
			}
		}
		if !(okNodes && rebuiltWhenChanged) && addrsVal != nil {
			// the same through a constructor helper: newHash(members) makes a fresh
			// hash, adds a node for every element of its parameter and returns it;
			// Refresh calls it with the stored membership on the changed side
			for _, hc := range callsIn(rf) {
				h := hc.Instr.Common().StaticCallee()
				if h == nil || h.Pkg != rf.Pkg || len(h.Blocks) == 0 || len(callsInNamed(h, pkgHRW+".NewRendezvousHash")) != 1 {
					continue
				}
				pidx := -1
				for i, a := range hc.Instr.Common().Args {
					if a == addrsVal || mentions(a, func(v ssa.Value) bool { return v == addrsVal }, 2) {
						pidx = i
					}
				}
				if pidx < 0 || pidx >= len(h.Params) {
					continue
				}
				built := false
				for _, l := range rangeLoops(h) {
					if l.Ranged != ssa.Value(h.Params[pidx]) {
						continue
					}
					for _, cs := range callsInNamed(h, "(*"+pkgHRW+".RendezvousHash).AddNode") {
						if l.everyIteration(cs.Instr) && l.derivesFromElem(cs.Instr.Common().Args[1]) {
							built = true
						}
					}
				}
				changedSide := guardedBy(hc.Instr, func(cond ssa.Value, val bool) int {
					if isCallTo(cond, "utils/stringset.Equal") {
						return tern(val, -1, 1)
					}
					return 0
				})
				if built && changedSide {
					okNodes, rebuiltWhenChanged = true, true
				}
			}
		}
		r.Check(okNodes && rebuiltWhenChanged, r3, rf, "hash matches membership", nil, "rebuilt from the stored membership whenever it changed", "the hash is not rebuilt from exactly the membership that is stored with it whenever the membership changed")
	}
}

func checkC22(c *Ctx, r *Report) {
	const tRH, tNode = pkgHRW + ".RendezvousHash", pkgHRW + ".RendezvousHashNode"
	r.Explain = "Structural basis of insertion-independence and minimal disruption of rendezvous ordering: (R1) a node's score depends only on the key, the node's own label and weight and the immutable hash configuration — never on the node list, an index or mutable globals; the comparator compares the scores of the two indexed nodes for the same key and the ordering is descending; (R2) GetOrderedNodes sorts a fresh copy and never writes the node list; AddNode only appends a node with the given label/weight; RemoveNode only removes nodes whose label matches; the list is written nowhere else."
	r.NotDecided = "Ties between equal scores (the sort is not stable), NaN scores for non-hex keys — value facts."
	r1 := r.Rule("R1", "E-NONINTERF", "footprint of RendezvousHashNode.Score ⊆ {RHash.Hash, RHash.ScoreFunc, RHash.MaxHashValue, Label, Weight}; comparator = Score(nodes[i]) < Score(nodes[j]) for one key, used under sort.Reverse (descending)", 3)
	if sc := r.MustFunc(r1, "(*"+tNode+").Score"); sc != nil {
		fields, callees, _ := footprint(sc)
		allowed := map[string]bool{tNode + ".RHash": true, tNode + ".Label": true, tNode + ".Weight": true, tRH + ".Hash": true, tRH + ".ScoreFunc": true, tRH + ".MaxHashValue": true}
		var extra []string
		for f := range fields {
			if !allowed[f] {
				extra = append(extra, f)
			}
		}
		for cn := range callees {
			// package math is stateless: any of its functions keeps the score a pure
			// function of (key, label, weight, configuration)
			if strings.HasPrefix(cn, "math.") {
				continue
			}
			switch cn {
			case "encoding/hex.DecodeString", "builtin.append", "(hash.Hash).Write", "(hash.Hash).Sum", "(io.Writer).Write":
			default:
				extra = append(extra, "call "+cn)
			}
		}
		sort.Strings(extra)
		r.Check(len(extra) == 0, r1, sc, "score footprint", nil, "key, label, weight, hash configuration only", "a node's score depends on "+strings.Join(extra, ", ")+": the rank of a node is no longer independent of the other nodes / of insertion order")
		// uses the key parameter and the label
		usesKey := false
		instrsOf(sc, func(in ssa.Instruction) {
			if cl, ok := in.(*ssa.Call); ok && calleeName(cl.Common()) == "encoding/hex.DecodeString" && cl.Call.Args[0] == sc.Params[1] {
				usesKey = true
			}
		})
		r.Check(usesKey && fields[tNode+".Label"], r1, sc, "score inputs", nil, "hash of key ‖ label", "the score is not computed from the key and the node's label")
	}
	var lessOp token.Token
	if ls := r.MustFunc(r1, "("+pkgHRW+".RendezvousNodesByScore).Less"); ls != nil {
		ok := false
		for _, ret := range returnsOf(ls) {
			b, isB := ret.Results[0].(*ssa.BinOp)
			if !isB || (b.Op != token.LSS && b.Op != token.GTR) {
				continue
			}
			sx, okx := b.X.(*ssa.Call)
			sy, oky := b.Y.(*ssa.Call)
			if !okx || !oky || calleeName(sx.Common()) != "(*"+tNode+").Score" || calleeName(sy.Common()) != "(*"+tNode+").Score" {
				continue
			}
			ix := mentions(sx.Call.Args[0], func(v ssa.Value) bool { return v == ls.Params[1] }, 5)
			jy := mentions(sy.Call.Args[0], func(v ssa.Value) bool { return v == ls.Params[2] }, 5)
			sameKey := mentionsField(sx.Call.Args[1], pkgHRW+".RendezvousNodesByScore.key") && mentionsField(sy.Call.Args[1], pkgHRW+".RendezvousNodesByScore.key")
			if ix && jy && sameKey {
				ok = true
				lessOp = b.Op
			}
		}
		r.Check(ok, r1, ls, "comparator", nil, "Score(nodes[i]) op Score(nodes[j]) for the same key", "the comparator does not compare the scores of nodes i and j for the same key")
	}
	gon := r.MustFunc(r1, "(*"+tRH+").GetOrderedNodes")
	if gon != nil {
		// direction of the ordering actually handed to the sort: sort.Reverse, wrapper
		// types delegating to another Less and the innermost comparison are composed
		sorts := callsInNamed(gon, "sort.Sort", "sort.Stable")
		desc := len(sorts) == 1 && sortDirection(c, sorts[0].Instr.Common().Args[0], "(*"+tNode+").Score", 0) == -1
		_ = lessOp
		r.Check(desc, r1, gon, "descending order", nil, "the sorted interface orders by descending score", "the node list is not sorted by descending score")
	}

	r2 := r.Rule("R2", "E-OWN", "RendezvousHash.Nodes is stored only by AddNode (append of a new node) and RemoveNode (splice at a label match); GetOrderedNodes sorts a fresh copy", 3)
	for _, fn := range c.Funcs {
		if c.isFixture(fn) {
			continue
		}
		for _, st := range storesToField(fn, tRH+".Nodes") {
			if _, fresh := st.Addr.(*ssa.FieldAddr).X.(*ssa.Alloc); fresh {
				continue
			}
			switch funcName(fn) {
			case "(*" + tRH + ").AddNode":
				ok := mentions(st.Val, func(v ssa.Value) bool { cl, isC := v.(*ssa.Call); return isC && calleeName(cl.Common()) == "builtin.append" }, 2)
				r.Check(ok, r2, fn, "store Nodes", st, "append", "AddNode does something else than appending")
			case "(*" + tRH + ").RemoveNode":
				ok := guardedBy(st, eqFact(func(b *ssa.BinOp) bool {
					return mentionsField(b.X, tNode+".Label") && b.Y == fn.Params[1] || mentionsField(b.Y, tNode+".Label") && b.X == fn.Params[1]
				}, true))
				r.Check(ok, r2, fn, "store Nodes", st, "splice where Label == name", "RemoveNode removes a node whose label does not match")
			default:
				r.Bad(r2, fn, "store Nodes", st, "the node list is written outside AddNode/RemoveNode: relative order of the other nodes can change")
			}
		}
	}
	if gon != nil {
		cp := false
		var sorted ssa.Value
		for _, cs := range callsInNamed(gon, "builtin.copy") {
			a := cs.Instr.Common().Args
			if _, isMk := a[0].(*ssa.MakeSlice); isMk && isPureLoadOf(a[1], tRH+".Nodes") {
				cp = true
				sorted = a[0]
			}
		}
		okRet := sorted != nil
		for _, ret := range returnsOf(gon) {
			if sorted == nil || !mentions(ret.Results[0], func(v ssa.Value) bool { return v == sorted }, 3) {
				okRet = false
			}
		}
		// what is handed to the sorter is that copy, never the shared list itself
		// (Locations runs under a read lock: sorting the shared slice in place lets
		// concurrent readers permute it under each other)
		sortsCopy, nsort := true, 0
		for _, st := range storesToField(gon, pkgHRW+".RendezvousNodesByScore.nodes") {
			nsort++
			if sorted == nil || st.Val != sorted {
				sortsCopy = false
			}
		}
		for _, cs := range callsInNamed(gon, "sort.Slice", "sort.SliceStable") {
			nsort++
			if sorted == nil || !mentions(cs.Instr.Common().Args[0], func(v ssa.Value) bool { return v == sorted }, 3) {
				sortsCopy = false
			}
		}
		if nsort == 0 {
			sortsCopy = false
		}
		cp = cp && sortsCopy
		r.Check(cp && okRet && len(storesToField(gon, tRH+".Nodes")) == 0, r2, gon, "sorts a copy", nil, "make+copy, result is (a prefix of) the copy", "GetOrderedNodes sorts the shared node list in place or returns something else than the sorted copy")
	}
	if an := c.Func("(*" + tRH + ").AddNode"); an != nil {
		ok := false
		instrsOf(an, func(in ssa.Instruction) {
			if st, isSt := in.(*ssa.Store); isSt {
				if fa, isFA := st.Addr.(*ssa.FieldAddr); isFA {
					if n, _ := fieldName(fa); n == tNode+".Label" && st.Val == an.Params[1] {
						ok = true
					}
				}
			}
		})
		r.Check(ok, r2, an, "node label", nil, "label = seed", "AddNode does not label the new node with the given seed")
	}
}
