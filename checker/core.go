// kvet: repository-specific static checker for uber/kraken.
//
// core.go: loading the type-checked program, building SSA, lookups.
package main

import (
	"crypto/sha256"
	"fmt"
	"go/ast"
	"go/constant"
	"go/token"
	"go/types"
	"os"
	"path/filepath"
	"sort"
	"strings"
	"time"

	"golang.org/x/tools/go/callgraph"
	"golang.org/x/tools/go/callgraph/cha"
	"golang.org/x/tools/go/callgraph/vta"
	"golang.org/x/tools/go/packages"
	"golang.org/x/tools/go/ssa"
	"golang.org/x/tools/go/ssa/ssautil"
)

// K is the module path of the analysed repository.
const K = "github.com/uber/kraken"

// Ctx is the loaded program.
type Ctx struct {
	RepoDir  string
	Fset     *token.FileSet
	Pkgs     []*packages.Package
	PkgByID  map[string]*packages.Package // by import path
	Prog     *ssa.Program
	SSAPkg   map[string]*ssa.Package // by import path (repo packages only)
	Funcs    []*ssa.Function        // every repo function with a body, incl. closures and instantiations
	funcByNm map[string]*ssa.Function
	cg       *callgraph.Graph
	LoadTime time.Duration
	// callers index (static + invoke by method object), built lazily
	callIdx map[string][]*CallSite
	tparent map[*ssa.Function]*ssa.Function
}

// CallSite is one resolved call instruction.
type CallSite struct {
	Caller *ssa.Function
	Instr  ssa.CallInstruction
	Callee string // canonical callee name (see calleeName)
	IsGo   bool
	IsDefer bool
}

func fileHash(p string) string {
	b, err := os.ReadFile(p)
	if err != nil {
		return "absent"
	}
	return fmt.Sprintf("%x", sha256.Sum256(b))
}

// Load loads ./... of repoDir with syntax for every repo package.
// overlay may be nil.
func Load(repoDir string, overlay map[string][]byte) (*Ctx, error) {
	t0 := time.Now()
	env := []string{}
	for _, e := range os.Environ() {
		if strings.HasPrefix(e, "GOWORK=") || strings.HasPrefix(e, "GOFLAGS=") {
			continue
		}
		env = append(env, e)
	}
	env = append(env, "GOFLAGS=-mod=mod", "GOPROXY=off", "GOSUMDB=off", "GOTOOLCHAIN=local", "GOWORK=off", "CGO_ENABLED=1")
	h1 := fileHash(filepath.Join(repoDir, "go.mod")) + fileHash(filepath.Join(repoDir, "go.sum"))
	cfg := &packages.Config{
		Mode: packages.NeedName | packages.NeedFiles | packages.NeedCompiledGoFiles | packages.NeedImports |
			packages.NeedDeps | packages.NeedTypes | packages.NeedTypesSizes | packages.NeedSyntax | packages.NeedTypesInfo | packages.NeedModule,
		Dir:     repoDir,
		Env:     env,
		Overlay: overlay,
		Tests:   false,
	}
	pkgs, err := packages.Load(cfg, "./...")
	if err != nil {
		return nil, fmt.Errorf("packages.Load: %w", err)
	}
	h2 := fileHash(filepath.Join(repoDir, "go.mod")) + fileHash(filepath.Join(repoDir, "go.sum"))
	if h1 != h2 {
		return nil, fmt.Errorf("go.mod/go.sum of %s changed while loading; refusing to analyse", repoDir)
	}
	if len(pkgs) == 0 {
		return nil, fmt.Errorf("no packages loaded from %s", repoDir)
	}
	var errs []string
	for _, p := range pkgs {
		for _, e := range p.Errors {
			errs = append(errs, e.Error())
		}
		if p.IllTyped && len(p.Errors) == 0 {
			errs = append(errs, p.PkgPath+": ill-typed")
		}
	}
	if len(errs) > 0 {
		sort.Strings(errs)
		if len(errs) > 10 {
			errs = errs[:10]
		}
		return nil, fmt.Errorf("type-check failures (the tree must compile): %s", strings.Join(errs, "; "))
	}
	c := &Ctx{RepoDir: repoDir, Pkgs: pkgs, PkgByID: map[string]*packages.Package{}, SSAPkg: map[string]*ssa.Package{},
		funcByNm: map[string]*ssa.Function{}, tparent: map[*ssa.Function]*ssa.Function{}}
	c.Fset = pkgs[0].Fset
	prog, spkgs := ssautil.AllPackages(pkgs, ssa.InstantiateGenerics)
	prog.Build()
	c.Prog = prog
	for i, p := range pkgs {
		c.PkgByID[p.PkgPath] = p
		if spkgs[i] != nil {
			c.SSAPkg[p.PkgPath] = spkgs[i]
		}
	}
	all := ssautil.AllFunctions(prog)
	for fn := range all {
		if fn.Blocks == nil {
			continue
		}
		if !c.inRepo(fn) {
			continue
		}
		if s := fn.Synthetic; s != "" && (strings.Contains(s, "wrapper") || strings.Contains(s, "thunk") || strings.Contains(s, "bound method")) {
			continue // compiler-generated forwarding code, no source of its own
		}
		c.Funcs = append(c.Funcs, fn)
	}
	sort.Slice(c.Funcs, func(i, j int) bool {
		a, b := funcName(c.Funcs[i]), funcName(c.Funcs[j])
		if a != b {
			return a < b
		}
		return c.Funcs[i].Pos() < c.Funcs[j].Pos()
	})
	for _, fn := range c.Funcs {
		n := funcName(fn)
		if _, dup := c.funcByNm[n]; !dup {
			c.funcByNm[n] = fn
		}
	}
	c.LoadTime = time.Since(t0)
	return c, nil
}

func (c *Ctx) inRepo(fn *ssa.Function) bool {
	for f := fn; f != nil; f = f.Parent() {
		if f.Pkg != nil {
			return strings.HasPrefix(f.Pkg.Pkg.Path(), K)
		}
		if o := f.Origin(); o != nil && o.Pkg != nil {
			return strings.HasPrefix(o.Pkg.Pkg.Path(), K)
		}
		if f.Object() != nil && f.Object().Pkg() != nil {
			return strings.HasPrefix(f.Object().Pkg().Path(), K)
		}
	}
	return false
}

// short strips the module prefix.
func short(s string) string {
	return strings.ReplaceAll(s, K+"/", "")
}

// funcName is the canonical name: "pkg/path.Func", "(*pkg/path.T).M", "(pkg/path.T).M",
// closures "outer$1". Module prefix stripped.
func funcName(fn *ssa.Function) string {
	if fn == nil {
		return "<nil>"
	}
	return short(fn.String())
}

// objFuncName gives the canonical name for a *types.Func (same format as funcName
// for declared functions and methods; interface methods give "(pkg.I).M").
func objFuncName(f *types.Func) string {
	return short(f.FullName())
}

// Func looks a function up by canonical name; nil if absent.
func (c *Ctx) Func(name string) *ssa.Function {
	return c.funcByNm[name]
}

// FuncsIn returns the functions (incl. closures) declared in the package path (short).
func (c *Ctx) FuncsIn(pkgShort string) []*ssa.Function {
	var out []*ssa.Function
	for _, fn := range c.Funcs {
		if pkgOf(fn) == pkgShort {
			out = append(out, fn)
		}
	}
	return out
}

func pkgOf(fn *ssa.Function) string {
	for f := fn; f != nil; f = f.Parent() {
		if f.Pkg != nil {
			return short(f.Pkg.Pkg.Path())
		}
		if o := f.Origin(); o != nil && o.Pkg != nil {
			return short(o.Pkg.Pkg.Path())
		}
	}
	return ""
}

// topFunc returns the outermost enclosing declared function of a closure.
func topFunc(fn *ssa.Function) *ssa.Function {
	for fn.Parent() != nil {
		fn = fn.Parent()
	}
	return fn
}

// isTestFile reports files that are not part of the production build semantics we care
// about (fixtures, test utilities compiled into the non-test package).
func (c *Ctx) fileOf(pos token.Pos) string {
	if !pos.IsValid() {
		return ""
	}
	p := c.Fset.Position(pos)
	rel, err := filepath.Rel(c.RepoDir, p.Filename)
	if err != nil {
		return p.Filename
	}
	return rel
}

func (c *Ctx) posStr(pos token.Pos) string {
	if !pos.IsValid() {
		return "?"
	}
	p := c.Fset.Position(pos)
	rel, err := filepath.Rel(c.RepoDir, p.Filename)
	if err != nil {
		rel = p.Filename
	}
	return fmt.Sprintf("%s:%d", rel, p.Line)
}

// isFixture reports whether the function lives in a file that only provides test
// fixtures / mocks (never linked for behaviour we verify).
func (c *Ctx) isFixture(fn *ssa.Function) bool {
	f := c.fileOf(topFunc(fn).Pos())
	base := filepath.Base(f)
	if strings.HasPrefix(f, "mocks/") || strings.HasPrefix(f, "gen/") || strings.HasPrefix(f, "test/") {
		return true
	}
	switch {
	case base == "fixtures.go", base == "testing.go", base == "testutils.go", strings.HasSuffix(base, "_fixture.go"),
		strings.HasSuffix(base, "fixture.go"), base == "test_utils.go", strings.HasSuffix(base, "_fixtures.go"):
		return true
	}
	return false
}

// calleeName resolves the callee of a call: static callee (functions, methods,
// closures bound to a variable are not resolved here), or interface method.
// Returns "" for dynamic calls through function values.
func calleeName(call *ssa.CallCommon) string {
	if call.IsInvoke() {
		// named by the static interface type of the receiver expression (not by the
		// interface that happens to declare the method, e.g. io.Closer)
		if n := namedOf(call.Value.Type()); n != nil && n.Obj().Pkg() != nil {
			return "(" + short(n.Obj().Pkg().Path()) + "." + n.Obj().Name() + ")." + call.Method.Name()
		}
		return objFuncName(call.Method)
	}
	if f := call.StaticCallee(); f != nil {
		if o := f.Origin(); o != nil {
			return funcName(o)
		}
		return funcName(f)
	}
	if b, ok := call.Value.(*ssa.Builtin); ok {
		return "builtin." + b.Name()
	}
	return ""
}

// Calls returns all call sites in repo functions, indexed by callee canonical name.
func (c *Ctx) buildCallIdx() {
	if c.callIdx != nil {
		return
	}
	c.callIdx = map[string][]*CallSite{}
	for _, fn := range c.Funcs {
		for _, b := range fn.Blocks {
			for _, in := range b.Instrs {
				ci, ok := in.(ssa.CallInstruction)
				if !ok {
					continue
				}
				n := calleeName(ci.Common())
				if n == "" {
					continue
				}
				cs := &CallSite{Caller: fn, Instr: ci, Callee: n}
				switch in.(type) {
				case *ssa.Go:
					cs.IsGo = true
				case *ssa.Defer:
					cs.IsDefer = true
				}
				c.callIdx[n] = append(c.callIdx[n], cs)
			}
		}
	}
}

// CallsTo returns call sites whose resolved callee has one of the given canonical names.
func (c *Ctx) CallsTo(names ...string) []*CallSite {
	c.buildCallIdx()
	var out []*CallSite
	for _, n := range names {
		out = append(out, c.callIdx[n]...)
	}
	return out
}

// CallsMatching returns call sites whose callee name satisfies pred.
func (c *Ctx) CallsMatching(pred func(string) bool) []*CallSite {
	c.buildCallIdx()
	var keys []string
	for k := range c.callIdx {
		if pred(k) {
			keys = append(keys, k)
		}
	}
	sort.Strings(keys)
	var out []*CallSite
	for _, k := range keys {
		out = append(out, c.callIdx[k]...)
	}
	return out
}

// callsIn lists calls in fn (not in its closures) with names.
func callsIn(fn *ssa.Function) []*CallSite {
	var out []*CallSite
	for _, b := range fn.Blocks {
		for _, in := range b.Instrs {
			ci, ok := in.(ssa.CallInstruction)
			if !ok {
				continue
			}
			cs := &CallSite{Caller: fn, Instr: ci, Callee: calleeName(ci.Common())}
			switch in.(type) {
			case *ssa.Go:
				cs.IsGo = true
			case *ssa.Defer:
				cs.IsDefer = true
			}
			out = append(out, cs)
		}
	}
	return out
}

// CallGraph builds (once) the VTA call graph over all functions.
func (c *Ctx) CallGraph() *callgraph.Graph {
	if c.cg != nil {
		return c.cg
	}
	all := ssautil.AllFunctions(c.Prog)
	c.cg = vta.CallGraph(all, cha.CallGraph(c.Prog))
	return c.cg
}

// Callers returns the functions with a (static or VTA-resolved) edge to fn.
func (c *Ctx) Callers(fn *ssa.Function) []*callgraph.Edge {
	g := c.CallGraph()
	n := g.Nodes[fn]
	if n == nil {
		return nil
	}
	return n.In
}

// closures of fn (direct), in order.
func closuresOf(fn *ssa.Function) []*ssa.Function { return fn.AnonFuncs }

// withClosures returns fn and all nested closures.
func withClosures(fn *ssa.Function) []*ssa.Function {
	out := []*ssa.Function{fn}
	for _, a := range fn.AnonFuncs {
		out = append(out, withClosures(a)...)
	}
	return out
}

// namedOf returns the named type behind t (through pointers), or nil.
func namedOf(t types.Type) *types.Named {
	for {
		switch x := t.(type) {
		case *types.Pointer:
			t = x.Elem()
		case *types.Named:
			return x
		case *types.Alias:
			t = types.Unalias(x)
		default:
			return nil
		}
	}
}

// typeName gives "pkg/path.T" (short) for a named type behind pointers, else t.String().
func typeName(t types.Type) string {
	if n := namedOf(t); n != nil && n.Obj().Pkg() != nil {
		return short(n.Obj().Pkg().Path()) + "." + n.Obj().Name()
	}
	return short(t.String())
}

// fieldOf describes a field address/field instruction: "pkg.T.f".
func fieldName(v ssa.Value) (string, bool) {
	switch x := v.(type) {
	case *ssa.FieldAddr:
		st := structOf(x.X.Type())
		if st == nil {
			return "", false
		}
		return typeName(x.X.Type()) + "." + st.Field(x.Field).Name(), true
	case *ssa.Field:
		st := structOf(x.X.Type())
		if st == nil {
			return "", false
		}
		return typeName(x.X.Type()) + "." + st.Field(x.Field).Name(), true
	}
	return "", false
}

func structOf(t types.Type) *types.Struct {
	for {
		switch x := t.Underlying().(type) {
		case *types.Pointer:
			t = x.Elem()
		case *types.Struct:
			return x
		default:
			return nil
		}
	}
}

// enclosingDecl finds the ast.FuncDecl for a top-level function.
func (c *Ctx) declOf(fn *ssa.Function) *ast.FuncDecl {
	if d, ok := fn.Syntax().(*ast.FuncDecl); ok {
		return d
	}
	return nil
}

// pkgIntConst returns the value of an integer constant declared at package level.
func pkgIntConst(c *Ctx, pkgPath, name string) (int64, bool) {
	p := c.PkgByID[pkgPath]
	if p == nil || p.Types == nil {
		return 0, false
	}
	k, ok := p.Types.Scope().Lookup(name).(*types.Const)
	if !ok {
		return 0, false
	}
	return constant.Int64Val(constant.ToInt(k.Val()))
}

func isErrorType(t types.Type) bool {
	n, ok := t.(*types.Named)
	return ok && n.Obj().Pkg() == nil && n.Obj().Name() == "error"
}
