package main

import (
	"fmt"

	"golang.org/x/tools/go/ssa"
)

// rulesFreshStoreDecision (C06.R6): left-over blobs are dropped or restored only
// inside rebootPersistedStore. newStore skips it when existsPersistedStore says
// nothing is persisted, so that answer may be "no" only where BOTH state
// directories were looked at; and rebootPersistedStore must clear the incomplete
// directory when incomplete blobs are not rebooted.
func rulesFreshStoreDecision(c *Ctx, r *Report) {
	const pkg = "lib/store/disk"
	r6 := r.Rule("R6", "E-ORDER(paths)", "existsPersistedStore returns a value that can be false only on paths that called exists() on both the complete and the incomplete directory; newStore builds an empty store only on the false side of that result; rebootPersistedStore removes the incomplete directory on the ¬RebootIncompleteBlobs side before scanning", 3)
	if ex := r.MustFunc(r6, pkg+".existsPersistedStore"); ex != nil {
		dirCall := func(name string) []ssa.Instruction {
			var out []ssa.Instruction
			for _, cs := range callsInNamed(ex, pkg+".exists") {
				arg := cs.Instr.Common().Args[0]
				hit := mentions(arg, func(v ssa.Value) bool {
					cl, ok := v.(*ssa.Call)
					if !ok || calleeName(cl.Common()) != "path/filepath.Join" {
						return false
					}
					for _, e := range varargElems(cl.Call.Args[0]) {
						if s, isS := constString(e); isS && s == name {
							return true
						}
					}
					return false
				}, 4)
				if hit {
					out = append(out, cs.Instr)
				}
			}
			return out
		}
		comp, incomp := dirCall("complete"), dirCall("incomplete")
		if len(comp) == 0 || len(incomp) == 0 {
			r.Undecided(r6, ex, "both directories examined", nil, fmt.Sprintf("exists() calls on the complete/incomplete directory not recognised (%d/%d)", len(comp), len(incomp)))
		} else {
			n, bad := 0, 0
			var where ssa.Instruction
			forEachPath(ex, 5000, func(p Path) {
				ret := p.ret()
				if ret == nil || classifyReturn(ret) == RetFailure {
					return
				}
				v := resolveOnPath(unspill(ret.Results[0]), p)
				if isBoolConst(v, true) {
					return
				}
				n++
				has := func(ins []ssa.Instruction) bool {
					for _, in := range ins {
						if p.hasInstr(in) {
							return true
						}
					}
					return false
				}
				if !has(comp) || !has(incomp) {
					bad++
					where = ret
				}
			})
			r.Check(n > 0 && bad == 0, r6, ex, "'nothing persisted' only after looking at both directories", where, fmt.Sprintf("%d path(s) that may answer false examined both directories", n),
				fmt.Sprintf("%d of %d paths can answer 'no persisted state' without having looked at both the complete and the incomplete directory: newStore then skips the reboot, left-over incomplete blobs are neither restored nor removed, and their keys can never be created again", bad, n))
		}
	}
	if ns := r.MustFunc(r6, pkg+".newStore"); ns != nil {
		exc := callsInNamed(ns, pkg+".existsPersistedStore")
		rbc := callsInNamed(ns, pkg+".rebootPersistedStore")
		ok := len(exc) == 1 && len(rbc) == 1
		if ok {
			okv := resultN(exc[0].Instr, 0)
			ok = false
			for _, v := range okv {
				if guardedBy(rbc[0].Instr, func(cond ssa.Value, val bool) int {
					if cond == v {
						return tern(val, 1, -1)
					}
					return 0
				}) {
					ok = true
				}
			}
			// every success return that does not come from the reboot is on the false side
			for _, ret := range returnsOf(ns) {
				if classifyReturn(ret) == RetFailure || mentions(unspill(ret.Results[0]), func(v ssa.Value) bool { return isCallTo(v, pkg+".rebootPersistedStore") }, 4) {
					continue
				}
				fresh := false
				for _, v := range okv {
					if guardedBy(ret, func(cond ssa.Value, val bool) int {
						if cond == v {
							return tern(val, -1, 1)
						}
						return 0
					}) {
						fresh = true
					}
				}
				if !fresh {
					ok = false
				}
			}
		}
		r.Check(ok, r6, ns, "empty store only when nothing is persisted", nil, "reboot on the true side, fresh store on the false side", "newStore can start empty although persisted state exists (or reboot without it)")
	}
	if rb := r.MustFunc(r6, pkg+".rebootPersistedStore"); rb != nil {
		ok := false
		for _, rm := range callsInNamed(rb, "os.RemoveAll") {
			arg := rm.Instr.Common().Args[0]
			isInc := mentions(arg, func(v ssa.Value) bool { s, isS := constString(v); return isS && s == "incomplete" }, 6) ||
				mentions(arg, func(v ssa.Value) bool {
					cl, isC := v.(*ssa.Call)
					if !isC || calleeName(cl.Common()) != "path/filepath.Join" {
						return false
					}
					for _, e := range varargElems(cl.Call.Args[0]) {
						if s, isS := constString(e); isS && s == "incomplete" {
							return true
						}
					}
					return false
				}, 4)
			flagOff := guardedBy(rm.Instr, func(cond ssa.Value, val bool) int {
				if isPureLoadOf(cond, pkg+".Config.RebootIncompleteBlobs") {
					return tern(val, -1, 1)
				}
				return 0
			})
			first := true
			for _, cs := range callsInNamed(rb, "(*"+pkg+".pather).rebootKeys") {
				// no scan can have run before the removal
				if cs.Instr.Block() == rm.Instr.Block() || reaches(cs.Instr.Block(), rm.Instr.Block()) {
					first = false
				}
			}
			if isInc && flagOff && first {
				ok = true
			}
		}
		r.Check(ok, r6, rb, "incomplete directory cleared when not rebooted", nil, "RemoveAll(incomplete) on the ¬RebootIncompleteBlobs side, before scanning", "with RebootIncompleteBlobs off, left-over incomplete blobs are not removed at start: they are unknown to the store yet occupy their keys on disk")
	}
}

// resolveOnPath replaces a phi by the operand of the edge the path took into the
// phi's block (last occurrence of that block on the path).
func resolveOnPath(v ssa.Value, p Path) ssa.Value {
	for i := 0; i < 4; i++ {
		phi, ok := v.(*ssa.Phi)
		if !ok {
			return v
		}
		b := phi.Block()
		found := false
		for j := len(p) - 1; j > 0; j-- {
			if p[j] == b {
				for k, pred := range b.Preds {
					if pred == p[j-1] {
						v = phi.Edges[k]
						found = true
						break
					}
				}
				break
			}
		}
		if !found {
			return v
		}
	}
	return v
}
