package main

import (
	"fmt"
	"go/ast"
	"go/parser"
	"go/token"
	"go/types"

	"golang.org/x/tools/go/ssa"
	"golang.org/x/tools/go/ssa/ssautil"
)

// buildFixture type-checks an import-free Go source text and returns its
// functions in SSA form. Fixtures are tiny positive/negative examples that a
// matcher must classify correctly on every run (guards against a rule that
// silently matches nothing).
func buildFixture(src string) (map[string]*ssa.Function, error) {
	fset := token.NewFileSet()
	f, err := parser.ParseFile(fset, "fixture.go", src, 0)
	if err != nil {
		return nil, err
	}
	pkg := types.NewPackage("fx", "fx")
	spkg, _, err := ssautil.BuildPackage(&types.Config{Importer: nil}, fset, pkg, []*ast.File{f}, ssa.InstantiateGenerics)
	if err != nil {
		return nil, err
	}
	out := map[string]*ssa.Function{}
	for name, m := range spkg.Members {
		if fn, ok := m.(*ssa.Function); ok {
			out[name] = fn
		}
	}
	if len(out) == 0 {
		return nil, fmt.Errorf("fixture has no functions")
	}
	return out, nil
}
