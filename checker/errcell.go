package main

import (
	"go/token"

	"golang.org/x/tools/go/ssa"
)

// succeededOnEveryPathTo: on every feasible entry→site path of fn that executes
// call a, the error result of a is known to be nil when site is reached. Unlike
// the dominator-based success region this follows an error that is accumulated
// in a local variable cell (`err = f(); if err == nil { err = g() } … if err !=
// nil { return }`), which is how go/ssa represents a named result captured by a
// deferred closure: stores to the cell, loads from it and nil tests of the loads
// are interpreted along each path; a path that asserts the same value both nil
// and non-nil is infeasible and ignored.
func succeededOnEveryPathTo(fn *ssa.Function, a ssa.CallInstruction, site ssa.Instruction) bool {
	errs := errResults(a)
	if len(errs) == 0 {
		return false
	}
	isErr := map[ssa.Value]bool{}
	for _, e := range errs {
		isErr[e] = true
	}
	n, bad := 0, 0
	complete := forEachPath(fn, 20000, func(p Path) {
		if !p.hasInstr(site) || !p.hasInstr(a) {
			return
		}
		cell := map[*ssa.Alloc]ssa.Value{}   // last value stored on the path
		loaded := map[ssa.Value]ssa.Value{}  // load instruction -> value it yields on this path
		known := map[ssa.Value]int{}         // +1 nil, -1 non-nil
		feasible := true
		assert := func(v ssa.Value, isNil bool) {
			want := -1
			if isNil {
				want = 1
			}
			if prev, ok := known[v]; ok && prev != want {
				feasible = false
			}
			known[v] = want
		}
		reached := false
	walk:
		for i, b := range p {
			for _, in := range b.Instrs {
				if in == site {
					reached = true
					break walk
				}
				switch x := in.(type) {
				case *ssa.Store:
					if al, ok := x.Addr.(*ssa.Alloc); ok {
						v := x.Val
						if lv, isL := loaded[v]; isL {
							v = lv
						}
						cell[al] = v
					}
				case *ssa.UnOp:
					if x.Op == token.MUL {
						if al, ok := x.X.(*ssa.Alloc); ok {
							if v, has := cell[al]; has {
								loaded[x] = v
							}
						}
					}
				case *ssa.Phi:
					// value on this path: the edge from the previous block
					if i > 0 {
						for k, pred := range b.Preds {
							if pred == p[i-1] && k < len(x.Edges) {
								v := x.Edges[k]
								if lv, isL := loaded[v]; isL {
									v = lv
								}
								loaded[x] = v
							}
						}
					}
				case *ssa.If:
					if i+1 >= len(p) {
						continue
					}
					took := p[i+1] == b.Succs[0]
					cond, val := stripNot(x.Cond, took)
					bo, ok := cond.(*ssa.BinOp)
					if !ok || (bo.Op != token.EQL && bo.Op != token.NEQ) {
						continue
					}
					var subj ssa.Value
					switch {
					case isNilConst(bo.Y):
						subj = bo.X
					case isNilConst(bo.X):
						subj = bo.Y
					default:
						continue
					}
					if lv, isL := loaded[subj]; isL {
						subj = lv
					}
					isNil := (bo.Op == token.EQL) == val
					assert(subj, isNil)
				}
			}
		}
		if !reached || !feasible {
			return
		}
		n++
		for e := range isErr {
			if known[e] != 1 {
				bad++
				return
			}
		}
	})
	return complete && n > 0 && bad == 0
}
