package main

import (
	"fmt"
	"go/token"
	"go/types"

	"golang.org/x/tools/go/ssa"
)

const (
	c15Mgr = pkgPR2 + ".Manager"
	c15Req = pkgPR2 + ".Request"
)

// c15Atomizer recognises the conditions of the piece-request bookkeeping by what
// they compute:
//   pending   Request.Status == StatusPending (a status that is a constant on the path folds to a constant)
//   expired   clock.Now().After(Request.sentAt.Add(Manager.timeout))
//   samePeer  Request.PeerID == <a PeerID parameter>
//   flag:<n>  a bool parameter of the analysed function (allowDuplicates, isPeerOrigin)
func c15Atomizer(c *Ctx, outer *ssa.Function) Atomizer {
	pendingConst, hasPending := pkgIntConst(c, K+"/"+pkgPR2, "StatusPending")
	statusLike := func(v ssa.Value) (isField bool, k int64, isConst bool) {
		for i := 0; i < 3; i++ {
			if cv, ok := v.(*ssa.Convert); ok {
				v = cv.X
			} else if ct, ok := v.(*ssa.ChangeType); ok {
				v = ct.X
			}
		}
		if kk, ok := intConst(v); ok {
			return false, kk, true
		}
		return isPureLoadOf(v, c15Req+".Status"), 0, false
	}
	return func(v ssa.Value, resolve func(ssa.Value) ssa.Value) (string, bool, bool) {
		switch x := v.(type) {
		case *ssa.Parameter:
			if x.Type().String() == "bool" && x.Parent() == outer {
				return "flag:" + x.Name(), true, true
			}
		case *ssa.UnOp:
			// a captured bool of the enclosing function (predicate written as a closure)
			if fv, isFV := x.X.(*ssa.FreeVar); isFV && x.Op == token.MUL && x.Type().String() == "bool" && fv.Parent() == outer {
				return "flag:" + fv.Name(), true, true
			}
		case *ssa.BinOp:
			if x.Op != token.EQL && x.Op != token.NEQ {
				return "", false, false
			}
			eq := x.Op == token.EQL
			l, rr := resolve(x.X), resolve(x.Y)
			// status comparisons
			if hasPending {
				lf, lk, lc := statusLike(l)
				rf, rk, rc := statusLike(rr)
				switch {
				case lc && rc && isStatusTyped(x.X):
					return "", (lk == rk) == eq, true
				case lf && rc && rk == pendingConst, rf && lc && lk == pendingConst:
					return "pending", eq, true
				}
			}
			// peer identity
			isPeerField := func(v ssa.Value) bool { return isPureLoadOf(v, c15Req+".PeerID") }
			isPeerParam := func(v ssa.Value) bool {
				if u, isU := v.(*ssa.UnOp); isU && u.Op == token.MUL {
					if _, isFV := u.X.(*ssa.FreeVar); isFV {
						return typeName(u.Type()) == "core.PeerID"
					}
				}
				p, ok := v.(*ssa.Parameter)
				return ok && typeName(p.Type()) == "core.PeerID"
			}
			if isPeerField(l) && isPeerParam(rr) || isPeerField(rr) && isPeerParam(l) {
				return "samePeer", eq, true
			}
		case *ssa.Call:
			if calleeName(x.Common()) == "(time.Time).After" {
				a, b := resolve(x.Call.Args[0]), resolve(x.Call.Args[1])
				isNow := func(v ssa.Value) bool {
					cl, ok := v.(*ssa.Call)
					return ok && calleeName(cl.Common()) == "(github.com/andres-erbsen/clock.Clock).Now"
				}
				isDeadline := func(v ssa.Value) bool {
					cl, ok := v.(*ssa.Call)
					if !ok || calleeName(cl.Common()) != "(time.Time).Add" {
						return false
					}
					return isPureLoadOf(resolve(cl.Call.Args[0]), c15Req+".sentAt") && isPureLoadOf(resolve(cl.Call.Args[1]), c15Mgr+".timeout")
				}
				if isNow(a) && isDeadline(b) {
					return "expired", true, true
				}
			}
		}
		return "", false, false
	}
}

func isStatusTyped(v ssa.Value) bool {
	return typeName(v.Type()) == pkgPR2+".Status"
}

// iterationPaths: the paths of one iteration of l, from the body's first block to
// a return, to the header (next element) or out of the loop (break).
func iterationPaths(e *predEnv, fn *ssa.Function, l *RangeLoop) []pathResult {
	inBody := func(b *ssa.BasicBlock) bool { return b == l.Body || l.Body.Dominates(b) }
	stop := func(b *ssa.BasicBlock) bool { return b == l.Header || !inBody(b) }
	return e.pathAssignments(fn, l.Body, stop, inBody)
}

func pathEndsInReturn(p Path) *ssa.Return {
	return p.ret()
}

// c15Roles finds, in ReservePieces, the validity predicate (the boolean function
// called by the closure handed to the selection policy) and the quota function
// (whose result is the policy's limit) without relying on their names.
func c15Roles(c *Ctx) (valid, quota *ssa.Function) {
	rp := c.Func("(*" + c15Mgr + ").ReservePieces")
	if rp == nil {
		return nil, nil
	}
	for _, cs := range callsInNamed(rp, "("+pkgPR2+".pieceSelectionPolicy).selectPieces") {
		args := cs.Instr.Common().Args
		if len(args) < 2 {
			continue
		}
		if cl, ok := args[0].(*ssa.Call); ok {
			if sf := cl.Common().StaticCallee(); sf != nil && sf.Pkg == rp.Pkg {
				quota = sf
			}
		}
		if mc, ok := args[1].(*ssa.MakeClosure); ok {
			if cf, _ := mc.Fn.(*ssa.Function); cf != nil {
				scans := func(f *ssa.Function) bool {
					for _, l := range rangeLoops(f) {
						if mentionsField(l.Ranged, c15Mgr+".requests") {
							return true
						}
					}
					return false
				}
				if scans(cf) {
					valid = cf // the predicate is written inline in the function literal
				} else {
					for _, ics := range callsIn(cf) {
						if sf := ics.Instr.Common().StaticCallee(); sf != nil && sf.Pkg == rp.Pkg && sf.Signature.Results().Len() == 1 && sf.Signature.Results().At(0).Type().String() == "bool" && scans(sf) {
							valid = sf
						}
					}
				}
			}
		}
	}
	return
}

func c15QuotaFunc(c *Ctx, r *Report, rule string) *ssa.Function {
	if _, q := c15Roles(c); q != nil {
		r.Analysed(q)
		return q
	}
	return r.MustFunc(rule, "(*"+c15Mgr+").requestQuota")
}

// rulesC15Validity (C15.R4) over path assignments.
func rulesC15Validity(c *Ctx, r *Report, r4, fReq string) {
	vr, _ := c15Roles(c)
	if vr == nil {
		vr = r.MustFunc(r4, "(*"+c15Mgr+").validRequest")
	}
	if vr == nil {
		return
	}
	r.Analysed(vr)
	var loop *RangeLoop
	for _, l := range rangeLoops(vr) {
		if mentionsField(l.Ranged, fReq) {
			loop = l
		}
	}
	if loop == nil {
		r.Bad(r4, vr, "scan", nil, "the validity predicate does not scan the requests of the piece")
		return
	}
	env := &predEnv{atomize: c15Atomizer(c, vr), maxExp: 3}
	var dupFlag string
	for _, p := range vr.Params {
		if p.Type().String() == "bool" {
			dupFlag = "flag:" + p.Name()
		}
	}
	for _, fv := range vr.FreeVars {
		if fv.Type().String() == "*bool" {
			dupFlag = "flag:" + fv.Name()
		}
	}
	if dupFlag == "" {
		r.Undecided(r4, vr, "scan", nil, "no boolean 'duplicates allowed' parameter found")
		return
	}
	// a request blocks the piece iff it is live and (same peer or duplicates not allowed)
	blocks := fAnd(fAtom("pending"), fNot(fAtom("expired")), fOr(fAtom("samePeer"), fNot(fAtom(dupFlag))))
	nRet, nCont := 0, 0
	ok := true
	why := ""
	var where ssa.Instruction
	for _, pr := range iterationPaths(env, vr, loop) {
		last := pr.Path[len(pr.Path)-1]
		ret := pr.Path.ret()
		for _, a := range pr.Alts {
			v := blocks(a)
			switch {
			case ret != nil:
				nRet++
				if !isBoolConst(unspill(ret.Results[0]), false) {
					ok, why, where = false, "a return inside the scan yields something other than false", ret
				} else if v != TriTrue {
					ok, why, where = false, fmt.Sprintf("'false' is returned inside the scan on a path where the request is not known to block the piece %s", a), ret
				}
			case last == loop.Header:
				nCont++
				if v != TriFalse {
					ok, why = false, fmt.Sprintf("the scan moves on to the next request on a path where this request may block the piece %s", a)
					where = last.Instrs[0]
				}
			default:
				ok, why = false, "the scan is left early (break) without a decision: later requests of the piece are not examined"
				if len(last.Instrs) > 0 {
					where = last.Instrs[0]
				}
			}
		}
	}
	if nRet == 0 || nCont == 0 {
		ok, why = false, fmt.Sprintf("the scan has %d deciding and %d continuing path(s)", nRet, nCont)
	}
	r.Check(ok, r4, vr, "decision inside the scan", where, fmt.Sprintf("%d deciding path(s) all block; %d continuing path(s) all harmless", nRet, nCont),
		"the validity predicate does not answer 'false' exactly for an unexpired pending request of the same peer (or of any peer unless duplicates are allowed): "+why+" — a piece can get two unexpired requests, or a peer more than its limit")
	for _, ret := range returnsOf(vr) {
		if ret.Block() == loop.Body || loop.Body.Dominates(ret.Block()) {
			continue
		}
		r.Check(isBoolConst(unspill(ret.Results[0]), true) && loop.completedBefore(ret), r4, vr, "return after scan", ret, "true after all requests were examined", "the validity predicate returns after the scan with something else than true, or before the scan completed")
	}
}

// c15QuotaDecrement: in the loop over the peer's requests the quota is
// decremented exactly on the paths where the request is pending and unexpired.
func c15QuotaDecrement(c *Ctx, rq *ssa.Function) (bool, string) {
	env := &predEnv{atomize: c15Atomizer(c, rq), maxExp: 3}
	live := fAnd(fAtom("pending"), fNot(fAtom("expired")))
	var subs []ssa.Instruction
	instrsOf(rq, func(in ssa.Instruction) {
		b, ok := in.(*ssa.BinOp)
		if !ok || b.Op != token.SUB {
			return
		}
		if k, isK := intConst(b.Y); isK && k == 1 {
			subs = append(subs, in)
		}
	})
	if len(subs) == 0 {
		return false, "no decrement found"
	}
	found := false
	for _, l := range rangeLoops(rq) {
		holds := false
		for _, s := range subs {
			if s.Block() == l.Body || l.Body.Dominates(s.Block()) {
				holds = true
			}
		}
		if !holds {
			continue
		}
		found = true
		nDec, nSkip := 0, 0
		for _, pr := range iterationPaths(env, rq, l) {
			dec := false
			for _, s := range subs {
				if pr.Path.hasInstr(s) {
					dec = true
				}
			}
			for _, a := range pr.Alts {
				v := live(a)
				if dec {
					nDec++
					if v != TriTrue {
						return false, fmt.Sprintf("the quota is decremented on a path where the request is not known to be pending and unexpired %s", a)
					}
				} else {
					nSkip++
					if v != TriFalse {
						return false, fmt.Sprintf("a request that may be pending and unexpired does not consume quota %s", a)
					}
				}
			}
		}
		if nDec == 0 || nSkip == 0 {
			return false, "the loop over the peer's requests does not both count and skip"
		}
	}
	if !found {
		return false, "the decrement is not inside a loop over the peer's requests"
	}
	return true, ""
}

// c15FailedReport: a request is appended to the report exactly on the paths where
// it is not pending or has expired.
func c15FailedReport(c *Ctx, gf *ssa.Function) (bool, string) {
	env := &predEnv{atomize: c15Atomizer(c, gf), maxExp: 3}
	failed := fOr(fNot(fAtom("pending")), fAtom("expired"))
	var apps []ssa.Instruction
	instrsOf(gf, func(in ssa.Instruction) {
		cl, ok := in.(*ssa.Call)
		if ok && calleeName(cl.Common()) == "builtin.append" {
			if _, isReq := elemStruct(cl.Type()); isReq {
				apps = append(apps, in)
			}
		}
	})
	if len(apps) == 0 {
		return false, "no append to the report found"
	}
	found := false
	for _, l := range rangeLoops(gf) {
		if l.IsMap {
			continue
		}
		holds := false
		for _, s := range apps {
			if s.Block() == l.Body || l.Body.Dominates(s.Block()) {
				holds = true
			}
		}
		if !holds {
			continue
		}
		found = true
		nApp, nSkip := 0, 0
		for _, pr := range iterationPaths(env, gf, l) {
			app := false
			for _, s := range apps {
				if pr.Path.hasInstr(s) {
					app = true
				}
			}
			if pr.Path.ret() != nil {
				return false, "the scan returns from inside the loop"
			}
			if pr.Path[len(pr.Path)-1] != l.Header {
				return false, "the scan over a piece's requests is left early"
			}
			for _, a := range pr.Alts {
				v := failed(a)
				if app {
					nApp++
					if v != TriTrue {
						return false, fmt.Sprintf("a request is reported on a path where it is not known to be non-pending or expired %s", a)
					}
				} else {
					nSkip++
					if v != TriFalse {
						return false, fmt.Sprintf("a request that may be non-pending or expired is not reported %s", a)
					}
				}
			}
		}
		if nApp == 0 || nSkip == 0 {
			return false, "the scan does not both report and skip"
		}
	}
	if !found {
		return false, "the report is not built inside a scan of the per-piece request lists"
	}
	return true, ""
}

// elemStruct: t is a slice whose element type is the Request struct.
func elemStruct(t types.Type) (types.Type, bool) {
	sl, ok := t.Underlying().(*types.Slice)
	if !ok {
		return nil, false
	}
	return sl.Elem(), typeName(sl.Elem()) == c15Req
}
