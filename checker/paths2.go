package main

import (
	"go/token"

	"golang.org/x/tools/go/ssa"
)

// unparam: if v is a load of a local cell that holds a parameter of the function
// (go/ssa moves a parameter into a heap cell when a closure captures it) and the
// cell is never written again — neither here nor in a capturing closure —, the
// parameter itself is returned, so that all its uses compare equal.
func unparam(v ssa.Value) ssa.Value {
	ld, ok := v.(*ssa.UnOp)
	if !ok || ld.Op != token.MUL {
		return v
	}
	al, ok := ld.X.(*ssa.Alloc)
	if !ok || al.Referrers() == nil {
		return v
	}
	var only *ssa.Store
	n := 0
	for _, rf := range *al.Referrers() {
		switch x := rf.(type) {
		case *ssa.Store:
			if x.Addr == ssa.Value(al) {
				n++
				only = x
			}
		case *ssa.MakeClosure:
			fnc, _ := x.Fn.(*ssa.Function)
			if fnc == nil {
				return v
			}
			for i, b := range x.Bindings {
				if b != ssa.Value(al) || i >= len(fnc.FreeVars) {
					continue
				}
				if refs := fnc.FreeVars[i].Referrers(); refs != nil {
					for _, r2 := range *refs {
						if st, isSt := r2.(*ssa.Store); isSt && st.Addr == ssa.Value(fnc.FreeVars[i]) {
							return v
						}
					}
				}
			}
		}
	}
	if n == 1 {
		if p, isP := only.Val.(*ssa.Parameter); isP {
			return p
		}
	}
	return v
}

// deferredCall is a call that a deferred closure of fn performs when fn returns
// at the end of a given path, with its arguments translated into values of fn.
type deferredCall struct {
	Callee string
	Args   []ssa.Value
	Defer  *ssa.Defer
}

// deferredCallsOnPath lists the calls to `callee` that deferred closures
// registered on path p execute when the function returns at the end of p. A call
// guarded inside the closure by a captured boolean cell (`if !done { … }`) is
// included only if the last value stored into that cell on p gives the guard the
// right polarity; a call under any other condition is not reported (unknown).
func deferredCallsOnPath(fn *ssa.Function, p Path, callee string) []deferredCall {
	var out []deferredCall
	for _, b := range p {
		for _, in := range b.Instrs {
			d, ok := in.(*ssa.Defer)
			if !ok {
				continue
			}
			mc, ok := d.Call.Value.(*ssa.MakeClosure)
			if !ok {
				continue
			}
			cf, _ := mc.Fn.(*ssa.Function)
			if cf == nil {
				continue
			}
			// free variable -> binding in fn
			bind := map[ssa.Value]ssa.Value{}
			for i, fv := range cf.FreeVars {
				if i < len(mc.Bindings) {
					bind[fv] = mc.Bindings[i]
				}
			}
			toParent := func(v ssa.Value) ssa.Value {
				if ld, isLd := v.(*ssa.UnOp); isLd && ld.Op == token.MUL {
					if cell, has := bind[ld.X]; has {
						// a load of the captured cell: the parameter it holds, or the last value stored on p
						if al, isAl := cell.(*ssa.Alloc); isAl {
							if pv := unparam(&ssa.UnOp{Op: token.MUL, X: al}); pv != nil {
								if _, isP := pv.(*ssa.Parameter); isP {
									return pv
								}
							}
							if st := lastStoreOnPath(p, al); st != nil {
								return st.Val
							}
						}
						return cell
					}
				}
				if cell, has := bind[v]; has {
					return cell
				}
				return v
			}
			for _, cs := range callsInNamed(cf, callee) {
				runs := true
				for _, cnd := range dominatingConds(cs.Instr.Block()) {
					cv, want := stripNot(cnd.Cond, cnd.Val)
					ld, isLd := cv.(*ssa.UnOp)
					if !isLd || ld.Op != token.MUL {
						runs = false
						break
					}
					cell, has := bind[ld.X]
					al, isAl := cell.(*ssa.Alloc)
					if !has || !isAl {
						runs = false
						break
					}
					st := lastStoreOnPath(p, al)
					if st == nil {
						runs = false
						break
					}
					k, isK := st.Val.(*ssa.Const)
					if !isK || !(isBoolConst(k, true) || isBoolConst(k, false)) {
						runs = false
						break
					}
					if isBoolConst(k, true) != want {
						runs = false
						break
					}
				}
				if !runs {
					continue
				}
				dc := deferredCall{Callee: callee, Defer: d}
				for _, a := range cs.Instr.Common().Args {
					dc.Args = append(dc.Args, toParent(a))
				}
				out = append(out, dc)
			}
		}
	}
	return out
}

// lastStoreOnPath: the last store into local cell al executed along p.
func lastStoreOnPath(p Path, al *ssa.Alloc) *ssa.Store {
	var last *ssa.Store
	for _, b := range p {
		for _, in := range b.Instrs {
			if st, ok := in.(*ssa.Store); ok && st.Addr == ssa.Value(al) {
				last = st
			}
		}
	}
	return last
}

// alwaysStoresField: every entry→return path of fn stores to the given field.
func alwaysStoresField(fn *ssa.Function, field string) bool {
	stores := storesToField(fn, field)
	if len(stores) == 0 {
		return false
	}
	for _, ret := range returnsOf(fn) {
		ok := false
		for _, st := range stores {
			if st.Block() == ret.Block() || st.Block().Dominates(ret.Block()) {
				ok = true
			}
		}
		if !ok {
			return false
		}
	}
	return true
}

// isOrderSearchHelper: fn ranges over the given slice field, does not write it,
// and returns an int (the position of a match, or a not-found value).
func isOrderSearchHelper(fn *ssa.Function, field string) bool {
	if len(storesToField(fn, field)) > 0 {
		return false
	}
	res := fn.Signature.Results()
	if res.Len() != 1 || res.At(0).Type().String() != "int" {
		return false
	}
	for _, l := range rangeLoops(fn) {
		if l.rangesOverField(field) {
			return true
		}
	}
	return false
}
