package main

import (
	"fmt"
	"os"
	"path/filepath"
	"strings"
)

// applyUnifiedDiff applies a git-style unified diff to the files under repo IN
// MEMORY and returns the patched contents keyed by absolute path (a go/packages
// overlay). With reverse, '+' and '-' lines swap roles. Hunks are located by
// their old-side text, searching outwards from the recorded line number, so the
// patch still applies when unrelated lines moved. Only modifications of existing
// .go files are supported (no creations, deletions or renames).
func applyUnifiedDiff(repo, diff string, reverse bool) (map[string][]byte, error) {
	ov := map[string][]byte{}
	lines := strings.Split(diff, "\n")
	var file string
	var cur []string
	flush := func() {
		if file != "" && cur != nil {
			ov[filepath.Join(repo, file)] = []byte(strings.Join(cur, "\n"))
		}
	}
	i := 0
	for i < len(lines) {
		l := lines[i]
		switch {
		case strings.HasPrefix(l, "--- "):
			// header pair
			if i+1 >= len(lines) || !strings.HasPrefix(lines[i+1], "+++ ") {
				i++
				continue
			}
			flush()
			a := strings.TrimPrefix(strings.Fields(l)[1], "a/")
			b := strings.TrimPrefix(strings.Fields(lines[i+1])[1], "b/")
			if a == "/dev/null" && b != "/dev/null" && !reverse {
				// a file created by the patch (a function moved into a new file of the
				// package): the overlay adds it to its directory's package
				file = b
				cur = []string{}
				i += 2
				continue
			}
			if a == "/dev/null" || b == "/dev/null" || strings.TrimPrefix(a, "a/") != strings.TrimPrefix(b, "b/") {
				return nil, fmt.Errorf("unsupported diff (creation/deletion/rename) for %s -> %s", a, b)
			}
			file = b
			if prev, ok := ov[filepath.Join(repo, file)]; ok {
				cur = strings.Split(string(prev), "\n")
			} else {
				src, err := os.ReadFile(filepath.Join(repo, file))
				if err != nil {
					return nil, fmt.Errorf("file missing: %s", file)
				}
				cur = strings.Split(string(src), "\n")
			}
			i += 2
		case strings.HasPrefix(l, "@@ "):
			if file == "" {
				return nil, fmt.Errorf("hunk without file header")
			}
			var oldStart int
			fmt.Sscanf(l, "@@ -%d", &oldStart)
			if reverse {
				// position on the new side
				if k := strings.Index(l, "+"); k >= 0 {
					fmt.Sscanf(l[k:], "+%d", &oldStart)
				}
			}
			i++
			var oldSide, newSide []string
			for i < len(lines) {
				h := lines[i]
				if strings.HasPrefix(h, "@@ ") || strings.HasPrefix(h, "diff ") || strings.HasPrefix(h, "--- ") {
					break
				}
				if strings.HasPrefix(h, "\\") { // "\ No newline at end of file"
					i++
					continue
				}
				if h == "" && i == len(lines)-1 {
					i++
					continue
				}
				tag, body := byte(' '), ""
				if len(h) > 0 {
					tag, body = h[0], h[1:]
				}
				if reverse {
					if tag == '+' {
						tag = '-'
					} else if tag == '-' {
						tag = '+'
					}
				}
				switch tag {
				case ' ':
					oldSide = append(oldSide, body)
					newSide = append(newSide, body)
				case '-':
					oldSide = append(oldSide, body)
				case '+':
					newSide = append(newSide, body)
				default:
					// unknown line inside hunk (e.g. index line): end of hunk
					goto doneHunk
				}
				i++
			}
		doneHunk:
			pos := locate(cur, oldSide, oldStart-1)
			if pos < 0 {
				return nil, fmt.Errorf("hunk does not apply to %s near line %d", file, oldStart)
			}
			next := append([]string{}, cur[:pos]...)
			next = append(next, newSide...)
			next = append(next, cur[pos+len(oldSide):]...)
			cur = next
		default:
			i++
		}
	}
	flush()
	if len(ov) == 0 {
		return nil, fmt.Errorf("empty patch")
	}
	return ov, nil
}

// locate finds want as a contiguous block in have, nearest to hint.
func locate(have, want []string, hint int) int {
	if len(want) == 0 {
		if hint < 0 {
			hint = 0
		}
		if hint > len(have) {
			hint = len(have)
		}
		return hint
	}
	match := func(p int) bool {
		if p < 0 || p+len(want) > len(have) {
			return false
		}
		for k := range want {
			if have[p+k] != want[k] {
				return false
			}
		}
		return true
	}
	for d := 0; d <= len(have); d++ {
		if match(hint + d) {
			return hint + d
		}
		if d > 0 && match(hint-d) {
			return hint - d
		}
	}
	return -1
}
