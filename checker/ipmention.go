package main

import (
	"go/token"
	"go/types"

	"golang.org/x/tools/go/ssa"
)

// mentionsIP is mentions() made interprocedural in one direction: a parameter of
// an unexported function stands for the arguments passed at every one of its call
// sites (all of them must satisfy the predicate), up to `depth` levels. It makes a
// rule that asks "does this value come from field F" insensitive to the code
// having been moved into a helper that receives F's value as an argument.
func mentionsIP(c *Ctx, v ssa.Value, pred func(ssa.Value) bool, depth int) bool {
	return mentions(v, func(x ssa.Value) bool {
		if pred(x) {
			return true
		}
		p, ok := x.(*ssa.Parameter)
		if !ok || depth <= 0 {
			return false
		}
		fn := p.Parent()
		if fn == nil || fn.Parent() != nil || (fn.Object() != nil && fn.Object().Exported()) {
			return false
		}
		idx := -1
		for i, q := range fn.Params {
			if q == p {
				idx = i
			}
		}
		if idx < 0 {
			return false
		}
		n := 0
		for _, cs := range c.CallsTo(funcName(fn)) {
			if c.isFixture(cs.Caller) {
				continue
			}
			args := cs.Instr.Common().Args
			if idx >= len(args) || !mentionsIP(c, args[idx], pred, depth-1) {
				return false
			}
			n++
		}
		return n > 0
	}, 12)
}

func mentionsFieldIP(c *Ctx, v ssa.Value, field string) bool {
	return mentionsIP(c, v, func(x ssa.Value) bool { return isFieldRef(x, field) }, 2)
}

// sortDirection tells in which direction of Score a sort.Interface value orders:
// +1 ascending, -1 descending, 0 unknown. It composes sort.Reverse, wrapper types
// whose Less delegates to another Less (with the indices possibly swapped) and
// the comparison in the innermost Less.
func sortDirection(c *Ctx, v ssa.Value, scoreFn string, depth int) int {
	if depth > 4 {
		return 0
	}
	switch x := v.(type) {
	case *ssa.Call:
		if calleeName(x.Common()) == "sort.Reverse" {
			return -sortDirection(c, x.Call.Args[0], scoreFn, depth+1)
		}
	case *ssa.MakeInterface:
		ms := types.NewMethodSet(x.X.Type())
		for i := 0; i < ms.Len(); i++ {
			f, ok := ms.At(i).Obj().(*types.Func)
			if !ok || f.Name() != "Less" {
				continue
			}
			if fn := c.Func(objFuncName(f)); fn != nil {
				return lessDirection(c, fn, scoreFn, depth+1)
			}
		}
	case *ssa.ChangeInterface:
		return sortDirection(c, x.X, scoreFn, depth+1)
	}
	return 0
}

func lessDirection(c *Ctx, ls *ssa.Function, scoreFn string, depth int) int {
	if depth > 4 || len(ls.Params) != 3 {
		return 0
	}
	dir, first := 0, true
	for _, ret := range returnsOf(ls) {
		d := 0
		switch b := unspill(ret.Results[0]).(type) {
		case *ssa.BinOp:
			if b.Op != token.LSS && b.Op != token.GTR {
				return 0
			}
			sx, okx := b.X.(*ssa.Call)
			sy, oky := b.Y.(*ssa.Call)
			if !okx || !oky || calleeName(sx.Common()) != scoreFn || calleeName(sy.Common()) != scoreFn {
				return 0
			}
			kx, okkx := fieldName(loadedAddr(sx.Call.Args[1]))
			ky, okky := fieldName(loadedAddr(sy.Call.Args[1]))
			if !okkx || !okky || kx != ky {
				return 0
			}
			on := func(v ssa.Value, p *ssa.Parameter) bool {
				return mentions(v, func(x ssa.Value) bool { return x == ssa.Value(p) }, 5)
			}
			switch {
			case on(sx.Call.Args[0], ls.Params[1]) && on(sy.Call.Args[0], ls.Params[2]) && !on(sx.Call.Args[0], ls.Params[2]) && !on(sy.Call.Args[0], ls.Params[1]):
				d = 1
			case on(sx.Call.Args[0], ls.Params[2]) && on(sy.Call.Args[0], ls.Params[1]) && !on(sx.Call.Args[0], ls.Params[1]) && !on(sy.Call.Args[0], ls.Params[2]):
				d = -1
			default:
				return 0
			}
			if b.Op == token.GTR {
				d = -d
			}
		case *ssa.Call:
			inner := b.Common().StaticCallee()
			if inner == nil || inner.Name() != "Less" || len(b.Call.Args) != 3 {
				return 0
			}
			switch {
			case b.Call.Args[1] == ssa.Value(ls.Params[1]) && b.Call.Args[2] == ssa.Value(ls.Params[2]):
				d = lessDirection(c, inner, scoreFn, depth+1)
			case b.Call.Args[1] == ssa.Value(ls.Params[2]) && b.Call.Args[2] == ssa.Value(ls.Params[1]):
				d = -lessDirection(c, inner, scoreFn, depth+1)
			}
		}
		if d == 0 {
			return 0
		}
		if first {
			dir, first = d, false
		} else if d != dir {
			return 0
		}
	}
	return dir
}

// loadedAddr: for a load `*addr` gives addr, for a Field instruction the value itself.
func loadedAddr(v ssa.Value) ssa.Value {
	if u, ok := v.(*ssa.UnOp); ok && u.Op == token.MUL {
		return u.X
	}
	return v
}

// bindsTo: v itself satisfies pred, or v is a parameter of an unexported function
// every call site of which passes a value that does.
func bindsTo(c *Ctx, v ssa.Value, pred func(ssa.Value) bool, depth int) bool {
	if pred(v) {
		return true
	}
	p, ok := v.(*ssa.Parameter)
	if !ok || depth <= 0 {
		return false
	}
	fn := p.Parent()
	if fn == nil || fn.Parent() != nil || (fn.Object() != nil && fn.Object().Exported()) {
		return false
	}
	n := 0
	for i, q := range fn.Params {
		if q != p {
			continue
		}
		for _, cs := range c.CallsTo(funcName(fn)) {
			if c.isFixture(cs.Caller) {
				continue
			}
			args := cs.Instr.Common().Args
			if i >= len(args) || !bindsTo(c, args[i], pred, depth-1) {
				return false
			}
			n++
		}
	}
	return n > 0
}
