package main

import (
	"fmt"
	"go/token"

	"golang.org/x/tools/go/ssa"
)

// c35WrapperOf: a is (derived from) a free variable of closure cl that is bound
// to a freshly allocated counting wrapper in the enclosing function.
func c35WrapperOf(cl *ssa.Function, mc *ssa.MakeClosure, a ssa.Value) *ssa.Alloc {
	var wrapper *ssa.Alloc
	mentions(a, func(v ssa.Value) bool {
		fv, isFV := v.(*ssa.FreeVar)
		if !isFV {
			return false
		}
		for i, f := range cl.FreeVars {
			if f != fv || i >= len(mc.Bindings) {
				continue
			}
			b := mc.Bindings[i]
			if al, isAl := rootOf(b).(*ssa.Alloc); isAl && isPtrToStructWithWriter(al.Type()) {
				wrapper = al
			} else if al2, isAl2 := b.(*ssa.Alloc); isAl2 {
				for _, rf := range *al2.Referrers() {
					if st, isSt := rf.(*ssa.Store); isSt && st.Addr == ssa.Value(al2) {
						if w, isW := st.Val.(*ssa.Alloc); isW {
							wrapper = w
						}
					}
				}
			}
		}
		return false
	}, 6)
	if wrapper == nil || !isPtrToStructWithWriter(wrapper.Type()) {
		return nil
	}
	return wrapper
}

// c35CounterGuard: the fact "the wrapper's byte counter is zero".
func c35CounterGuard(wrapper *ssa.Alloc) FactFn {
	return func(cond ssa.Value, val bool) int {
		b, isB := cond.(*ssa.BinOp)
		if !isB {
			return 0
		}
		cnt := func(v ssa.Value) bool {
			return mentions(v, func(w ssa.Value) bool {
				fa, isFA := w.(*ssa.FieldAddr)
				return isFA && typeName(fa.X.Type()) == typeName(wrapper.Type())
			}, 5)
		}
		if !(cnt(b.X) && isConstZero(b.Y)) {
			return 0
		}
		nonZero := false
		switch b.Op {
		case token.GTR, token.NEQ:
			nonZero = val
		case token.EQL, token.LEQ:
			nonZero = !val
		default:
			return 0
		}
		return tern(nonZero, -1, 1)
	}
}

// c35AttemptHelpers: the per-origin attempt written as a function of the package
// that the Poll closure calls with the counting wrapper: the client call inside
// it must receive that parameter and be guarded by the counter test there.
func c35AttemptHelpers(c *Ctx, r *Report, r1, pkg string, cl *ssa.Function, mc *ssa.MakeClosure) int {
	n := 0
	for _, call := range callsIn(cl) {
		h := call.Instr.Common().StaticCallee()
		if h == nil || h.Pkg != cl.Pkg || len(h.Blocks) == 0 {
			continue
		}
		for i, a := range call.Instr.Common().Args {
			w := c35WrapperOf(cl, mc, a)
			if w == nil || i >= len(h.Params) {
				continue
			}
			for _, inner := range callsIn(h) {
				icc := inner.Instr.Common()
				if !icc.IsInvoke() || typeName(icc.Value.Type()) != pkg+".Client" {
					continue
				}
				passes := false
				for _, ia := range icc.Args {
					if ia == ssa.Value(h.Params[i]) || mentions(ia, func(v ssa.Value) bool { return v == ssa.Value(h.Params[i]) }, 3) {
						passes = true
					}
				}
				if !passes {
					continue
				}
				n++
				r.Analysed(h)
				guarded := guardedBy(inner.Instr, c35CounterGuard(w))
				counts := wrapperCounts(c, w)
				r.Check(guarded && counts, r1, h, "writer passed to per-origin download", inner.Instr, "counting wrapper, attempt refused once bytes were written",
					fmt.Sprintf("the destination is wrapped but the retry is not refused after bytes were written (guard=%v, wrapper counts=%v)", guarded, counts))
			}
		}
	}
	return n
}
