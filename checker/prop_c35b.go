package main

import (
	"fmt"
	"go/types"

	"golang.org/x/tools/go/ssa"
)

// rulesSingleSink (C35.R3): inside one call, a destination writer supplied by the
// caller is handed to at most one writing call on any path. A second copy into
// the same writer after a first one failed midway (a retry inside the
// per-origin client, say) appends a second body behind the partial first one
// and reports success. The cluster client's fail-over closure is exempt from
// this rule only because it goes through the counting wrapper decided by R1:
// it never passes the caller's writer itself.
func rulesSingleSink(c *Ctx, r *Report) {
	const pkg = "origin/blobclient"
	r3 := r.Rule("R3", "E-PAIR(path count)", "in origin/blobclient, on every path of a function, an io.Writer parameter is passed to at most one call (io.Copy or a callee that receives it)", 1)
	n := 0
	for _, fn := range c.FuncsIn(pkg) {
		if c.isFixture(fn) {
			continue
		}
		for _, prm := range fn.Params {
			if !isIOWriter(prm.Type()) {
				continue
			}
			// sinks: calls that receive the parameter (directly or converted)
			var sinks []ssa.Instruction
			instrsOf(fn, func(in ssa.Instruction) {
				ci, ok := in.(ssa.CallInstruction)
				if !ok {
					return
				}
				for _, a := range ci.Common().Args {
					if derivesFromParamValue(a, prm) {
						sinks = append(sinks, in)
						return
					}
				}
			})
			if len(sinks) == 0 {
				continue
			}
			n++
			worst := 0
			complete := forEachPath(fn, 20000, func(p Path) {
				cnt := 0
				for _, b := range p {
					for _, in := range b.Instrs {
						for _, s := range sinks {
							if in == s {
								cnt++
							}
						}
					}
				}
				if cnt > worst {
					worst = cnt
				}
			})
			r.Check(complete && worst <= 1, r3, fn, "writer "+prm.Name()+" written once", sinks[0], fmt.Sprintf("%d writing call site(s), at most one per path", len(sinks)),
				fmt.Sprintf("some path hands the caller's destination writer to %d writing calls (a retry or loop around the download): after a partial first transfer the second one appends a whole copy and the call reports success", worst))
		}
	}
	if n == 0 {
		r.Unresolved(r3, "no function with an io.Writer parameter in origin/blobclient")
	}
}

func isIOWriter(t types.Type) bool {
	n, ok := t.(*types.Named)
	return ok && n.Obj() != nil && n.Obj().Pkg() != nil && n.Obj().Pkg().Path() == "io" && n.Obj().Name() == "Writer"
}

// derivesFromParamValue: v is the parameter itself or an interface conversion of it.
func derivesFromParamValue(v ssa.Value, p *ssa.Parameter) bool {
	for i := 0; i < 4; i++ {
		if v == ssa.Value(p) {
			return true
		}
		switch x := v.(type) {
		case *ssa.ChangeInterface:
			v = x.X
		case *ssa.MakeInterface:
			v = x.X
		case *ssa.ChangeType:
			v = x.X
		default:
			return unparam(v) == ssa.Value(p)
		}
	}
	return false
}
