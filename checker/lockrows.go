package main

import (
	"go/types"
	"sort"
	"strings"

	"golang.org/x/tools/go/ssa"
)

// structByName resolves "pkg/path.Type" (module prefix stripped) to its struct type.
func structByName(c *Ctx, name string) *types.Struct {
	i := strings.LastIndex(name, ".")
	if i < 0 {
		return nil
	}
	p := c.PkgByID[K+"/"+name[:i]]
	if p == nil || p.Types == nil {
		return nil
	}
	obj := p.Types.Scope().Lookup(name[i+1:])
	if obj == nil {
		return nil
	}
	st, _ := obj.Type().Underlying().(*types.Struct)
	return st
}

func isMutexType(t types.Type) bool {
	if p, ok := t.Underlying().(*types.Pointer); ok {
		t = p.Elem()
	}
	s := t.String()
	return s == "sync.Mutex" || s == "sync.RWMutex"
}

// normLockRows makes a guarded-by table independent of the spelling of
// unexported names: the mutex of a row is the struct's only mutex field when the
// declared one is gone (embedded `sync.Mutex` ↔ named `mu`), and declared
// guarded fields that no longer exist are replaced by the struct's other
// mutable fields (those written outside the constructors) when the numbers
// match exactly, i.e. when the edit was a rename.
func normLockRows(c *Ctx, pkgs []string, rows []LockRow) []LockRow {
	out := make([]LockRow, len(rows))
	copy(out, rows)
	for i := range out {
		row := &out[i]
		st := structByName(c, row.Struct)
		if st == nil {
			continue
		}
		has := map[string]bool{}
		var mutexes []string
		for j := 0; j < st.NumFields(); j++ {
			f := st.Field(j)
			has[f.Name()] = true
			if isMutexType(f.Type()) {
				mutexes = append(mutexes, f.Name())
			}
		}
		if !has[row.Mutex] && len(mutexes) == 1 {
			row.Mutex = mutexes[0]
		}
		var kept, missing []string
		for _, f := range row.Fields {
			if has[f] {
				kept = append(kept, f)
			} else {
				missing = append(missing, f)
			}
		}
		if len(missing) == 0 {
			continue
		}
		ctor := map[string]bool{}
		for _, n := range row.Ctors {
			ctor[n] = true
		}
		all := LockRow{Struct: row.Struct}
		for j := 0; j < st.NumFields(); j++ {
			if !isMutexType(st.Field(j).Type()) {
				all.Fields = append(all.Fields, st.Field(j).Name())
			}
		}
		mutable := map[string]bool{}
		for _, pkg := range pkgs {
			for _, fn := range c.FuncsIn(pkg) {
				if c.isFixture(fn) || ctor[funcName(topFunc(fn))] {
					continue
				}
				for _, a := range guardedAccesses(fn, all) {
					if a.write {
						mutable[a.field] = true
					}
				}
			}
		}
		var extra []string
		for f := range mutable {
			found := false
			for _, k := range kept {
				if k == f {
					found = true
				}
			}
			if !found {
				extra = append(extra, f)
			}
		}
		sort.Strings(extra)
		if len(extra) == len(missing) {
			row.Fields = append(kept, extra...)
		}
	}
	return out
}

// fieldByType returns the name of the only field of the struct whose type prints
// as typ; the declared name is the fallback.
func fieldByType(c *Ctx, structName, typ, declared string) string {
	st := structByName(c, structName)
	if st == nil {
		return declared
	}
	var found []string
	for i := 0; i < st.NumFields(); i++ {
		if st.Field(i).Type().String() == typ {
			found = append(found, st.Field(i).Name())
		}
	}
	if len(found) == 1 {
		return found[0]
	}
	return declared
}

// loopHasNoEarlyExit: the only way out of the loop is its header (no break, no return inside).
func loopHasNoEarlyExit(fn *ssa.Function, l *RangeLoop) bool {
	for _, b := range fn.Blocks {
		if b == l.Header || !l.contains(b) {
			continue
		}
		if len(b.Succs) == 0 {
			if len(b.Instrs) > 0 {
				if _, isRet := b.Instrs[len(b.Instrs)-1].(*ssa.Return); isRet {
					return false
				}
			}
			continue
		}
		for _, s := range b.Succs {
			if !l.contains(s) {
				return false
			}
		}
	}
	return true
}
