package main

import (
	"fmt"
	"go/token"
	"sort"
	"strings"

	"golang.org/x/tools/go/ssa"
)

func init() { register("C09", checkC09) }

const pkgTiered = "lib/store/tiered"

// mutexClass names a lock by the struct type that owns it and the field.
func mutexClass(in ssa.Instruction) (string, int, bool) {
	ci, ok := in.(ssa.CallInstruction)
	if !ok {
		return "", 0, false
	}
	_, mode, ok := mutexEvent(in)
	if !ok {
		return "", 0, false
	}
	cc := ci.Common()
	var recv ssa.Value
	if cc.IsInvoke() {
		recv = cc.Value
	} else if len(cc.Args) > 0 {
		recv = cc.Args[0]
	}
	if u, isU := recv.(*ssa.UnOp); isU && u.Op == token.MUL {
		recv = u.X
	}
	if fa, isFA := recv.(*ssa.FieldAddr); isFA {
		if n, ok := fieldName(fa); ok {
			return n, mode, true
		}
	}
	return "", mode, false
}

// lockOrderEdges computes held→acquired edges between mutex classes over the
// functions of pkgs, following static calls (transitively) for acquisitions.
func lockOrderEdges(c *Ctx, pkgs []string) map[[2]string]string {
	inPkgs := func(fn *ssa.Function) bool {
		p := pkgOf(fn)
		for _, q := range pkgs {
			if p == q {
				return true
			}
		}
		return false
	}
	var fns []*ssa.Function
	for _, fn := range c.Funcs {
		if inPkgs(fn) && !c.isFixture(fn) {
			fns = append(fns, fn)
		}
	}
	// direct acquisitions per function
	acq := map[*ssa.Function]map[string]bool{}
	for _, fn := range fns {
		acq[fn] = map[string]bool{}
		instrsOf(fn, func(in ssa.Instruction) {
			if _, isDefer := in.(*ssa.Defer); isDefer {
				return
			}
			if cls, mode, ok := mutexClass(in); ok && mode > 0 {
				acq[fn][cls] = true
			}
		})
	}
	// transitive closure over static callees (incl. closures created and called)
	callees := func(fn *ssa.Function) []*ssa.Function {
		var out []*ssa.Function
		for _, cs := range callsIn(fn) {
			if cs.IsGo {
				continue
			}
			if g := cs.Instr.Common().StaticCallee(); g != nil {
				if o := g.Origin(); o != nil {
					g = o
				}
				if _, ok := acq[g]; ok {
					out = append(out, g)
				}
			}
		}
		return out
	}
	for changed := true; changed; {
		changed = false
		for _, fn := range fns {
			for _, g := range callees(fn) {
				for cls := range acq[g] {
					if !acq[fn][cls] {
						acq[fn][cls] = true
						changed = true
					}
				}
			}
		}
	}
	edges := map[[2]string]string{}
	for _, fn := range fns {
		// held classes at each instruction
		held := map[ssa.Instruction]map[string]bool{}
		cur := map[*ssa.BasicBlock]map[string]bool{}
		// simple forward may-hold (union) analysis by class
		for it := 0; it < 20; it++ {
			ch := false
			for _, b := range fn.Blocks {
				st := map[string]bool{}
				for _, p := range b.Preds {
					for k := range cur[p] {
						st[k] = true
					}
				}
				for _, in := range b.Instrs {
					h := map[string]bool{}
					for k := range st {
						h[k] = true
					}
					held[in] = h
					if _, isDefer := in.(*ssa.Defer); isDefer {
						continue
					}
					if cls, mode, ok := mutexClass(in); ok {
						if mode > 0 {
							st[cls] = true
						} else {
							delete(st, cls)
						}
					}
				}
				if len(st) != len(cur[b]) {
					ch = true
				}
				cur[b] = st
			}
			if !ch {
				break
			}
		}
		instrsOf(fn, func(in ssa.Instruction) {
			if _, isDefer := in.(*ssa.Defer); isDefer {
				return
			}
			if _, isGo := in.(*ssa.Go); isGo {
				return
			}
			if cls, mode, ok := mutexClass(in); ok && mode > 0 {
				for h := range held[in] {
					if h != cls {
						edges[[2]string{h, cls}] = funcName(fn)
					}
				}
				return
			}
			if ci, isCall := in.(ssa.CallInstruction); isCall {
				if g := ci.Common().StaticCallee(); g != nil {
					if o := g.Origin(); o != nil {
						g = o
					}
					for cls := range acq[g] {
						for h := range held[in] {
							if h != cls {
								edges[[2]string{h, cls}] = funcName(fn) + " → " + funcName(g)
							}
						}
					}
				}
			}
		})
	}
	return edges
}

// findCycle returns a cycle in the edge set, or nil.
func findCycle(edges map[[2]string]string) []string {
	adj := map[string][]string{}
	for e := range edges {
		adj[e[0]] = append(adj[e[0]], e[1])
	}
	for k := range adj {
		sort.Strings(adj[k])
	}
	color := map[string]int{}
	var stack []string
	var cyc []string
	var dfs func(u string) bool
	dfs = func(u string) bool {
		color[u] = 1
		stack = append(stack, u)
		for _, v := range adj[u] {
			if color[v] == 1 {
				for i, s := range stack {
					if s == v {
						cyc = append(append([]string{}, stack[i:]...), v)
						return true
					}
				}
			}
			if color[v] == 0 && dfs(v) {
				return true
			}
		}
		stack = stack[:len(stack)-1]
		color[u] = 2
		return false
	}
	var nodes []string
	for k := range adj {
		nodes = append(nodes, k)
	}
	sort.Strings(nodes)
	for _, n := range nodes {
		if color[n] == 0 && dfs(n) {
			return cyc
		}
	}
	return nil
}

func checkC09(c *Ctx, r *Report) {
	r.Explain = "Structural protocol of the tiered (memory→disk) store: (R1) a blob is handed to the flusher only after the memory tier banned its eviction, and every flush ends by unbanning it (deferred first); (R2) the flusher's table/queue and each blob's dirty-metadata set are accessed under their mutexes, and every tiered mutator runs entirely under the store mutex; (R3) the lock order over all store mutexes is acyclic; (R4) the flusher re-checks, under its mutex, that the blob is still registered between creating the disk entry and copying, deleting the disk entry otherwise; (R5) a blob leaves the dirty table only when its dirty-metadata set is empty, tested with both locks held, and that set is only inserted into or swapped for a fresh map — never pruned per key after a flush (a re-mark made during the flush must survive); (R6) Delete aborts the flush before deleting on disk; (R7) the disk copy is completed only after the copy from memory succeeded."
	r.NotDecided = "Linearizability of reads against flush steps under every interleaving; the windows between individual store calls in the unsynchronised read paths (Open/Has/Stat/GetMetadata)."
	const tSt, tFl, tBl = pkgTiered + ".store", pkgTiered + ".flusher", pkgTiered + ".blob"
	memM := func(m string) string { return "(*lib/store/memory.Store)." + m }
	memSM := func(m string) string { return "(*lib/store/memory.ScopedStore)." + m }
	diskM := func(m string) string { return "(*lib/store/disk.Store)." + m }
	_ = memSM

	r1 := r.Rule("R1", "E-PAIR", "flusher.markDirty / markMetadataDirty are called only in the success region of a memory-tier BanEviction; flush registers the UnbanEviction as its first deferred action", 3)
	for _, m := range []string{"markDirty", "markMetadataDirty"} {
		for _, cs := range c.CallsTo("(*" + tFl + ")." + m) {
			fn := cs.Caller
			if c.isFixture(fn) {
				continue
			}
			ok := false
			for _, be := range callsIn(fn) {
				if lastSeg(be.Callee) == "BanEviction" && strings.Contains(be.Callee, "lib/store/memory.") && inSuccessRegion(be.Instr, cs.Instr) {
					ok = true
				}
			}
			r.Check(ok, r1, fn, m, cs.Instr, "after successful BanEviction", "a blob is registered for flushing without its memory copy having been protected from eviction first: memory pressure can drop the only complete copy")
		}
	}
	if fl := r.MustFunc(r1, "(*"+tFl+").flush"); fl != nil {
		ok := false
		for _, in := range fl.Blocks[0].Instrs {
			if d, isD := in.(*ssa.Defer); isD {
				// the deferred function (a closure, or a method of the package) calls
				// the memory tier's UnbanEviction on every path
				var target *ssa.Function
				if mc, isMC := d.Call.Value.(*ssa.MakeClosure); isMC {
					target, _ = mc.Fn.(*ssa.Function)
				} else if sf := d.Call.StaticCallee(); sf != nil && sf.Pkg == fl.Pkg {
					target = sf
				}
				if target != nil {
					for _, ub := range callsInNamed(target, memM("UnbanEviction")) {
						always := true
						for _, ret := range returnsOf(target) {
							if !(ub.Instr.Block() == ret.Block() || ub.Instr.Block().Dominates(ret.Block())) {
								always = false
							}
						}
						if always {
							ok = true
						}
					}
				}
				break // must be the first defer
			}
			if _, isRet := in.(*ssa.Return); isRet {
				break
			}
		}
		r.Check(ok, r1, fl, "deferred UnbanEviction", nil, "registered before any return", "flush can return without unbanning the blob's eviction in the memory tier: the memory store leaks")
	}

	// R2 locks
	r2 := r.Rule("R2", "E-LOCK", "flusher.blobs/queue under flusher.mu; blob.dirtyMD under blob.mu; tiered mutators hold store.mu (write) at every call into the tiers", 8)
	checkLockRows(c, r, r2, []string{pkgTiered}, []LockRow{
		{Struct: tFl, Mutex: "mu", Fields: []string{"blobs", "queue"}, Ctors: []string{pkgTiered + ".newFlusher"}},
		{Struct: tBl, Mutex: "mu", Fields: []string{"dirtyMD"}},
	})
	for _, m := range []string{"Create", "Delete", "MarkComplete", "SetMetadata", "DeleteMetadata"} {
		fn := r.MustFunc(r2, "(*"+tSt+")."+m)
		if fn == nil {
			continue
		}
		sets := locksets(fn, lockState{})
		bad := 0
		n := 0
		for _, cs := range callsIn(fn) {
			if !(strings.Contains(cs.Callee, "lib/store/memory.") || strings.Contains(cs.Callee, "lib/store/disk.") || strings.Contains(cs.Callee, tFl)) {
				continue
			}
			if strings.HasSuffix(cs.Callee, ".Scoped") || strings.HasSuffix(cs.Callee, ".ScopeComplete") || strings.HasSuffix(cs.Callee, ".ScopeIncomplete") {
				continue
			}
			n++
			if sets[cs.Instr.(ssa.Instruction)][lk(fn.Params[0], "mu")] < 2 {
				bad++
			}
		}
		r.Check(n > 0 && bad == 0, r2, fn, "mutator under store.mu", nil, fmt.Sprintf("%d tier calls under the store mutex", n), fmt.Sprintf("%d of %d calls into the memory/disk tiers or the flusher are made without holding the tiered store's mutex in write mode: two mutators can interleave their multi-step updates", bad, n))
	}

	// R3 lock order
	r3 := r.Rule("R3", "E-LOCKORDER", "the acquired-while-held relation over the mutexes of the tiered, memory and disk stores and the flusher is acyclic", 1)
	edges := lockOrderEdges(c, []string{pkgTiered, "lib/store/memory", "lib/store/disk"})
	var es []string
	for e, w := range edges {
		es = append(es, short(e[0])+" → "+short(e[1])+" ("+w+")")
	}
	sort.Strings(es)
	r.Extra["lock_order_edges"] = es
	cyc := findCycle(edges)
	r.Check(cyc == nil && len(edges) >= 3, r3, nil, "lock order", nil, fmt.Sprintf("%d edges, acyclic", len(edges)), "lock-order cycle: "+strings.Join(cyc, " → "))

	// R4 flushData re-check
	r4 := r.Rule("R4", "E-ORDER", "in flushData a lookup of flusher.blobs under flusher.mu lies between disk.Create and the copy; its not-found branch deletes the disk entry and returns", 1)
	if fd := r.MustFunc(r4, "(*"+tFl+").flushData"); fd != nil {
		sets := locksets(fd, lockState{})
		creates := callsInNamed(fd, diskM("Create"))
		var copies []ssa.Instruction
		instrsOf(fd, func(in ssa.Instruction) {
			if ci, ok := in.(ssa.CallInstruction); ok {
				cc := ci.Common()
				if calleeName(cc) == "io.Copy" {
					copies = append(copies, in)
				} else if cc.StaticCallee() == nil && !cc.IsInvoke() {
					// call through the package-level variable ioCopy
					if mentions(cc.Value, func(v ssa.Value) bool { g, isG := v.(*ssa.Global); return isG && g.Name() == "ioCopy" }, 3) {
						copies = append(copies, in)
					}
				}
			}
		})
		ok := false
		if len(creates) == 1 && len(copies) == 1 {
			instrsOf(fd, func(in ssa.Instruction) {
				lk, isL := in.(*ssa.Lookup)
				if !isL || !lk.CommaOk || !isPureLoadOf(lk.X, tFl+".blobs") {
					return
				}
				if !(precedes(creates[0].Instr, lk) && precedes(lk, copies[0])) {
					return
				}
				if sets[lk][lkey(fd.Params[0], "mu")] < 2 {
					return
				}
				// not-found branch: disk.Delete then return, never reaching the copy
				for _, rf := range *lk.Referrers() {
					ex, isEx := rf.(*ssa.Extract)
					if !isEx || ex.Index != 1 {
						continue
					}
					for _, e := range condEdges(ex, false) {
						if reaches(e.To, copies[0].Block()) || e.To == copies[0].Block() {
							continue
						}
						for _, dl := range callsInNamed(fd, diskM("Delete")) {
							if e.To == dl.Instr.Block() || e.To.Dominates(dl.Instr.Block()) {
								ok = true
							}
						}
					}
				}
			})
		}
		if !ok && len(creates) == 1 && len(copies) == 1 {
			// the same re-check extracted into a helper of the package that reports
			// "aborted": flushData must not reach the copy on its true side
			for _, hc := range callsIn(fd) {
				h := hc.Instr.Common().StaticCallee()
				if h == nil || h.Pkg != fd.Pkg || hc.Instr.Value() == nil || !recheckHelper(h, tFl, diskM("Delete")) {
					continue
				}
				if !(precedes(creates[0].Instr, hc.Instr) && precedes(hc.Instr, copies[0])) {
					continue
				}
				left := true
				es := condEdges(hc.Instr.Value(), true)
				for _, e := range es {
					if e.To == copies[0].Block() || reaches(e.To, copies[0].Block()) {
						left = false
					}
				}
				if left && len(es) > 0 {
					ok = true
				}
			}
		}
		r.Check(ok, r4, fd, "re-check registration before copy", nil, "lookup under f.mu between Create and copy; abort path deletes the disk entry", "flushData copies into a disk entry without re-checking under the flusher mutex that the blob is still registered (a concurrent Delete/abort would leave a resurrected disk copy)")
	}

	// R5 dirty table discipline
	r5 := r.Rule("R5", "E-GUARD+E-OWN", "delete(flusher.blobs,key) in the metadata loop only where len(blob.dirtyMD)==0 was tested with flusher.mu and blob.mu held; blob.dirtyMD is only inserted into, measured, ranged over, or replaced by a fresh map after being captured — never pruned with delete()", 2)
	if fm := r.MustFunc(r5, "(*"+tFl+").flushMetadatasAndUnmarkDirty"); fm != nil {
		sets := locksets(fm, lockState{})
		n := 0
		instrsOf(fm, func(in ssa.Instruction) {
			if !isMapDeleteOn(in, tFl+".blobs") {
				return
			}
			n++
			empty := guardedBy(in, lenZeroFact(func(v ssa.Value) bool { return isPureLoadOf(v, tBl+".dirtyMD") }))
			st := sets[in]
			fHeld := st[lk(fm.Params[0], "mu")] >= 2
			bHeld := false
			for k, m := range st {
				if k.mutex == "mu" && m >= 2 && k.rtype == tBl {
					bHeld = true
				}
			}
			r.Check(empty && fHeld && bHeld, r5, fm, "unregister blob", in, "dirty set empty, both locks held",
				fmt.Sprintf("the blob is removed from the dirty table without (dirty-metadata set empty=%v, flusher.mu held=%v, blob.mu held=%v): a metadata update marked meanwhile is never flushed", empty, fHeld, bHeld))
		})
		if n == 0 {
			r.Bad(r5, fm, "unregister blob", nil, "the metadata flush loop never removes the blob from the dirty table")
		}
	}
	for _, fn := range c.FuncsIn(pkgTiered) {
		if c.isFixture(fn) {
			continue
		}
		instrsOf(fn, func(in ssa.Instruction) {
			if isMapDeleteOn(in, tBl+".dirtyMD") {
				r.Bad(r5, fn, "delete(blob.dirtyMD)", in, "entries are deleted from a blob's dirty-metadata set: a mark set by a concurrent SetMetadata between the flusher's read and this deletion is erased and the update is never written to disk")
			}
		})
		for _, st := range storesToField(fn, tBl+".dirtyMD") {
			if _, fresh := st.Addr.(*ssa.FieldAddr).X.(*ssa.Alloc); fresh {
				continue
			}
			_, isMk := st.Val.(*ssa.MakeMap)
			// previous value captured before the swap
			captured := false
			instrsOf(fn, func(in ssa.Instruction) {
				if u, ok := in.(*ssa.UnOp); ok && u.Op == token.MUL && isFieldRef(u.X, tBl+".dirtyMD") && precedes(u, st) && u.Block() == st.Block() {
					captured = true
				}
			})
			r.Check(isMk && captured, r5, fn, "swap blob.dirtyMD", st, "old set captured, fresh map installed", "blob.dirtyMD is overwritten without capturing the previous set (marks are lost)")
		}
	}

	// R6 Delete
	r6 := r.Rule("R6", "E-ORDER", "in tiered Delete, flusher.abort precedes disk.Delete on the was-in-memory path", 1)
	if dl := r.MustFunc(r6, "(*"+tSt+").Delete"); dl != nil {
		ok := false
		for _, ab := range callsInNamed(dl, "(*"+tFl+").abort") {
			for _, dd := range callsInNamed(dl, diskM("Delete")) {
				if precedes(ab.Instr, dd.Instr) {
					ok = true
				}
			}
		}
		r.Check(ok, r6, dl, "abort before disk delete", nil, "abort dominates disk.Delete", "Delete removes the disk copy without first aborting the flush: the flusher can re-create the blob on disk after it was deleted")
	}

	// R7 flushData ordering
	r7 := r.Rule("R7", "E-ORDER/ok", "disk.MarkComplete in the flusher only after the copy from the memory file returned nil; tiered MarkComplete hands the blob to the flusher only after the memory tier marked it complete and reported its size", 2)
	if fd := c.Func("(*" + tFl + ").flushData"); fd != nil {
		for _, mc := range callsInNamed(fd, diskM("MarkComplete")) {
			ok := false
			instrsOf(fd, func(in ssa.Instruction) {
				ci, isC := in.(ssa.CallInstruction)
				if !isC {
					return
				}
				cc := ci.Common()
				isCopy := calleeName(cc) == "io.Copy" || (cc.StaticCallee() == nil && !cc.IsInvoke() && mentions(cc.Value, func(v ssa.Value) bool { g, isG := v.(*ssa.Global); return isG && g.Name() == "ioCopy" }, 3))
				if isCopy && inSuccessRegion(ci, mc.Instr) {
					ok = true
				}
			})
			r.Check(ok, r7, fd, "disk.MarkComplete", mc.Instr, "after successful copy", "the disk copy is marked complete although the copy from memory did not (provably) succeed — e.g. after the memory blob was evicted mid-copy")
		}
	}
	if mc := c.Func("(*" + tSt + ").MarkComplete"); mc != nil {
		for _, md := range callsInNamed(mc, "(*"+tFl+").markDirty") {
			ok1, ok2 := false, false
			for _, x := range callsInNamed(mc, memM("MarkComplete")) {
				if inSuccessRegion(x.Instr, md.Instr) {
					ok1 = true
				}
			}
			for _, x := range callsInNamed(mc, memM("Stat")) {
				if inSuccessRegion(x.Instr, md.Instr) && mentions(md.Instr.Common().Args[2], func(v ssa.Value) bool {
					ex, isEx := v.(*ssa.Extract)
					return isEx && ex.Tuple == x.Instr.Value()
				}, 4) {
					ok2 = true
				}
			}
			r.Check(ok1 && ok2, r7, mc, "markDirty(size)", md.Instr, "after mem MarkComplete, size from mem Stat", "the blob is handed to the flusher before the memory tier completed it, or with a size that is not the memory tier's")
		}
	}
}
