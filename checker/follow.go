package main

import "golang.org/x/tools/go/ssa"

// followedOnEveryPath: every path that continues after instruction `from` meets
// an instruction satisfying pred before it reaches a return of the function or
// comes back to `from` itself (a loop iteration that repeats `from` without pred
// in between fails). Paths ending in panic/unreachable are ignored.
func followedOnEveryPath(from ssa.Instruction, pred func(ssa.Instruction) bool) bool {
	seen := map[*ssa.BasicBlock]bool{}
	var scan func(instrs []ssa.Instruction, b *ssa.BasicBlock) bool
	var walk func(b *ssa.BasicBlock) bool
	scan = func(instrs []ssa.Instruction, b *ssa.BasicBlock) bool {
		for _, in := range instrs {
			if pred(in) {
				return true
			}
			if in == from {
				return false
			}
			if _, ok := in.(*ssa.Return); ok {
				return false
			}
		}
		for _, s := range b.Succs {
			if !walk(s) {
				return false
			}
		}
		return true
	}
	walk = func(b *ssa.BasicBlock) bool {
		if seen[b] {
			return true
		}
		seen[b] = true
		return scan(b.Instrs, b)
	}
	blk := from.Block()
	for i, in := range blk.Instrs {
		if in == from {
			return scan(blk.Instrs[i+1:], blk)
		}
	}
	return false
}
