package main

import (
	"fmt"
	"go/token"
	"strings"

	"golang.org/x/tools/go/ssa"
)

func init() {
	register("C07", func(c *Ctx, r *Report) { checkLRUStore(c, r, "lib/store/disk", true) })
	register("C08", func(c *Ctx, r *Report) { checkLRUStore(c, r, "lib/store/memory", false) })
}

const tScope = "lib/store.BlobScope"

// blobFieldFact: FactFn for a boolean field of the store's blob struct being `want`.
// A dominating store of the constant (with no later store on the way) also
// establishes the fact; that case is handled by blobFlagEstablished.
func boolFieldFact(field string, want bool) FactFn {
	return func(cond ssa.Value, val bool) int {
		if isFieldLoad(cond, field) {
			if val == want {
				return 1
			}
			return -1
		}
		return 0
	}
}

// flagEstablished: at site, blob flag field==want is known, by a branch fact or
// by a store of the constant that dominates the site with no other store to the
// field between them in the same function.
func flagEstablished(fn *ssa.Function, site ssa.Instruction, field string, want bool) bool {
	if guardedBy(site, boolFieldFact(field, want)) {
		return true
	}
	for _, st := range storesToField(fn, field) {
		if !isBoolConst(st.Val, want) || !precedes(st, site) {
			continue
		}
		clobber := false
		for _, st2 := range storesToField(fn, field) {
			if st2 != st && !precedes(st2, st) && (st2.Block() == site.Block() || reaches(st2.Block(), site.Block())) {
				clobber = true
			}
		}
		if !clobber {
			return true
		}
	}
	// or the flag is given the wanted value later in the same call, on every path
	// from the site to a return (the store mutex is held throughout the method, so
	// the order of the two updates inside the critical section is immaterial)
	n, bad := 0, 0
	forEachPath(fn, 20000, func(p Path) {
		if !p.hasInstr(site) || p.ret() == nil {
			return
		}
		n++
		var last *ssa.Store
		for _, st := range storesToField(fn, field) {
			if instrAfterOnPath(p, site, st) && (last == nil || instrAfterOnPath(p, last, st)) {
				last = st
			}
		}
		if last == nil || !isBoolConst(last.Val, want) {
			bad++
		}
	})
	return n > 0 && bad == 0
}

func checkLRUStore(c *Ctx, r *Report, pkg string, disk bool) {
	tStore, tBlob := pkg+".store", pkg+".blob"
	fBlobs, fQueue, fSize, fCap := tStore+".blobs", tStore+".evictQueue", tStore+".size", tStore+".capacity"
	fComplete, fBanned, fNode, fBSize := tBlob+".complete", tBlob+".evictionBanned", tBlob+".node", tBlob+".size"
	kind := "memory"
	if disk {
		kind = "disk"
	}
	r.Explain = "Structural invariants of the capacity-bounded LRU " + kind + " blob store that its reference model relies on: (R1) scoped operations test the scope (exact truth table) before touching the blob; (R2) space accounting: reservation only after the capacity test/eviction, released on every later error exit, and every removal from the blob table releases the blob's size and unlinks its queue node; (R3) only complete, not eviction-banned blobs enter the eviction queue, and banning a complete blob removes its node; (R4) the queue is used only through LRU primitives, eviction takes the front, Open refreshes by MoveToBack; (R5) completion always removes non-movable metadata; (R9) shared state is accessed under the store mutex."
	if !disk {
		r.Explain += " For the memory store additionally: (R7) a file handle reads the shared slice only through getData and leaves with the evicted error before using a nil buffer; (R8) every removal of a blob nils its data slice under the slice lock first."
	}
	r.NotDecided = "Equivalence with the reference model over operation histories, the LRU order after arbitrary mixes, 'last value set' for metadata: value/history facts."

	storeFns := []*ssa.Function{}
	for _, fn := range c.FuncsIn(pkg) {
		if !c.isFixture(fn) {
			storeFns = append(storeFns, fn)
		}
	}

	// R1 scope
	r1 := r.Rule("R1", "E-ORDER/ok+truth-table", "every store method with a BlobScope parameter passes it to the scope test (or forwards it) and touches blob fields only in the test's success region; the scope test rejects exactly (complete ∧ Incomplete-scope) ∨ (¬complete ∧ Complete-scope)", 8)
	scopeTest := r.MustFunc(r1, pkg+".isOutOfScope")
	for _, fn := range storeFns {
		if recvTypeName(fn) != tStore || fn.Parent() != nil {
			continue
		}
		var sp *ssa.Parameter
		for _, p := range fn.Params {
			if typeName(p.Type()) == tScope {
				sp = p
			}
		}
		if sp == nil {
			continue
		}
		tests := callsInNamed(fn, pkg+".isOutOfScope")
		forwarded := false
		for _, cs := range callsIn(fn) {
			for _, a := range cs.Instr.Common().Args {
				if a == sp && cs.Callee != pkg+".isOutOfScope" {
					forwarded = true
				}
			}
		}
		if len(tests) == 0 {
			r.Check(forwarded, r1, fn, "scope", nil, "scope forwarded to a callee that tests it", "a scoped operation neither tests nor forwards its scope: out-of-scope blobs become visible")
			continue
		}
		ok := true
		why := ""
		for _, t := range tests {
			if t.Instr.Common().Args[1] != sp {
				ok, why = false, "the scope test is not applied to the method's scope parameter"
			}
		}
		instrsOf(fn, func(in ssa.Instruction) {
			fa, isFA := in.(*ssa.FieldAddr)
			if !isFA || typeName(fa.X.Type()) != tBlob {
				return
			}
			if !mentions(fa.X, func(v ssa.Value) bool { lk, isL := v.(*ssa.Lookup); return isL && mentionsField(lk.X, fBlobs) }, 5) {
				return
			}
			in0 := false
			for _, t := range tests {
				if inSuccessRegion(t.Instr, fa) {
					in0 = true
				}
			}
			if !in0 {
				ok, why = false, "blob field "+lastSegField(fa)+" is used outside the success region of the scope test"
			}
		})
		r.Check(ok, r1, fn, "scope test before use", nil, "all blob uses in scope-ok region", why)
	}
	if scopeTest != nil {
		checkScopeTruthTable(c, r, r1, scopeTest, fComplete)
	}

	// R2 accounting
	r2 := r.Rule("R2", "E-PAIR(paths)+E-GUARD", "size is increased only after the capacity test; every later error exit releases it; every path deleting from the blob table also releases space and unlinks the queue node (or knows it is nil)", 3)
	for _, fn := range storeFns {
		for _, st := range storesToField(fn, fSize) {
			b, isAdd := st.Val.(*ssa.BinOp)
			if !isAdd || b.Op != token.ADD {
				continue
			}
			var amount ssa.Value = b.Y
			if !mentionsField(b.X, fSize) {
				amount = b.X
			}
			amount = unparam(amount)
			capOK := guardedBy(st, func(cond ssa.Value, val bool) int {
				cb, ok := cond.(*ssa.BinOp)
				if !ok || !mentionsField(cond, fCap) || !mentionsField(cond, fSize) {
					return 0
				}
				if !mentions(cond, func(v ssa.Value) bool { return unparam(v) == amount }, 5) {
					return 0
				}
				over := false
				switch cb.Op {
				case token.GTR, token.GEQ:
					over = val
				case token.LEQ, token.LSS:
					over = !val
				default:
					return 0
				}
				return tern(over, -1, 1)
			})
			if !capOK {
				for _, cs := range callsIn(fn) {
					g := c.Func(cs.Callee)
					if g == nil || pkgOf(g) != pkg || len(cs.Instr.Common().Args) < 2 || unparam(cs.Instr.Common().Args[1]) != amount {
						continue
					}
					if inSuccessRegion(cs.Instr, st) && ensuresSpace(g, fSize, fCap) {
						capOK = true
					}
				}
			}
			r.Check(capOK, r2, fn, "size += x", st, "after capacity test / successful ensureFreeSpace", "space is reserved without the capacity test for the same amount: admission can exceed capacity")
			// release on error exits
			n, bad := 0, 0
			nsucc, badsucc := 0, 0
			forEachPath(fn, 20000, func(p Path) {
				ret := p.ret()
				if ret == nil || !p.hasInstr(st) || !precedes(st, ret) {
					return
				}
				if classifyReturn(ret) == RetSuccess {
					// the reservation must survive a successful return
					nsucc++
					for _, cs := range callsInNamed(fn, "(*"+tStore+").releaseSpace") {
						if _, isDefer := cs.Instr.(*ssa.Defer); !isDefer && p.hasInstr(cs.Instr) && unparam(cs.Instr.Common().Args[1]) == amount {
							badsucc++
							return
						}
					}
					for _, dc := range deferredCallsOnPath(fn, p, "(*"+tStore+").releaseSpace") {
						if len(dc.Args) >= 2 && unparam(dc.Args[1]) == amount {
							badsucc++
							return
						}
					}
					return
				}
				if classifyReturn(ret) != RetFailure {
					return
				}
				n++
				hit := false
				for _, cs := range callsInNamed(fn, "(*"+tStore+").releaseSpace") {
					if _, isDefer := cs.Instr.(*ssa.Defer); isDefer {
						continue
					}
					if p.hasInstr(cs.Instr) && unparam(cs.Instr.Common().Args[1]) == amount {
						hit = true
					}
				}
				// or by a deferred rollback whose guard flag has the releasing value on this path
				for _, dc := range deferredCallsOnPath(fn, p, "(*"+tStore+").releaseSpace") {
					if len(dc.Args) >= 2 && unparam(dc.Args[1]) == amount {
						hit = true
					}
				}
				if !hit {
					bad++
				}
			})
			if n > 0 {
				r.Check(bad == 0, r2, fn, "release on error after reservation", st, fmt.Sprintf("%d error paths release", n), fmt.Sprintf("%d of %d error exits after the reservation do not release it: reserved space leaks", bad, n))
			}
			if nsucc > 0 {
				r.Check(badsucc == 0, r2, fn, "reservation kept on success", st, fmt.Sprintf("%d success paths keep the reservation", nsucc), fmt.Sprintf("%d of %d successful exits give the reservation back although the blob was created: the store under-counts its size and admits more than its capacity", badsucc, nsucc))
			}
		}
		// deletes
		var dels []ssa.Instruction
		instrsOf(fn, func(in ssa.Instruction) {
			if isMapDeleteOn(in, fBlobs) {
				dels = append(dels, in)
			}
		})
		for _, d := range dels {
			n, bad := 0, 0
			forEachPath(fn, 20000, func(p Path) {
				if !p.hasInstr(d) || p.ret() == nil {
					return
				}
				n++
				rel := false
				for _, cs := range callsInNamed(fn, "(*"+tStore+").releaseSpace") {
					if p.hasInstr(cs.Instr) && mentionsField(cs.Instr.Common().Args[1], fBSize) {
						rel = true
					}
				}
				unl := false
				for _, cs := range callsInNamed(fn, "(*container/list.List).Remove") {
					if p.hasInstr(cs.Instr) && mentionsField(cs.Instr.Common().Args[0], fQueue) {
						unl = true
					}
				}
				// node known nil on this path
				instrsOf(fn, func(in ssa.Instruction) {
					if b, ok := in.(*ssa.BinOp); ok && (b.Op == token.NEQ || b.Op == token.EQL) && isNilConst(b.Y) && mentionsField(b.X, fNode) {
						for _, e := range condEdges(b, b.Op == token.EQL) {
							if p.hasEdge(e) {
								unl = true
							}
						}
					}
				})
				if !rel || !unl {
					bad++
				}
			})
			r.Check(n > 0 && bad == 0, r2, fn, "delete(blobs) ⇒ release + unlink", d, fmt.Sprintf("%d paths", n), fmt.Sprintf("%d of %d paths that delete a blob from the table do not also release its size and unlink (or know nil) its queue node", bad, n))
		}
	}

	// R3 queue admission
	r3 := r.Rule("R3", "E-GUARD", "evictQueue.PushBack only where complete ∧ ¬evictionBanned is established; the returned element is stored in blob.node; setting evictionBanned on a complete blob removes its node", 3)
	for _, fn := range storeFns {
		for _, cs := range callsInNamed(fn, "(*container/list.List).PushBack") {
			if !mentionsField(cs.Instr.Common().Args[0], fQueue) && !isFreshList(cs.Instr.Common().Args[0]) {
				continue
			}
			if fn.Name() == "rebootPersistedStore" {
				// list rebuilt from blobs that were filtered into the complete∧evictable slice
				okr := false
				instrsOf(fn, func(in ssa.Instruction) {
					if iff, isIf := in.(*ssa.If); isIf && mentionsField(iff.Cond, pkg+".rebootedBlob.complete") {
						okr = true
					}
				})
				okr2 := false
				instrsOf(fn, func(in ssa.Instruction) {
					if iff, isIf := in.(*ssa.If); isIf && mentionsField(iff.Cond, pkg+".rebootedBlob.evictable") {
						okr2 = true
					}
				})
				r.Check(okr && okr2, r3, fn, "PushBack (reboot)", cs.Instr, "queue rebuilt from blobs filtered by complete ∧ evictable", "the eviction queue rebuilt at reboot is not filtered by complete ∧ evictable")
				continue
			}
			okC := flagEstablished(fn, cs.Instr, fComplete, true)
			okB := flagEstablished(fn, cs.Instr, fBanned, false)
			stored := false
			for _, st := range storesToField(fn, fNode) {
				if st.Val == cs.Instr.Value() {
					stored = true
				}
			}
			r.Check(okC && okB && stored, r3, fn, "evictQueue.PushBack", cs.Instr, "complete ∧ ¬banned, node recorded",
				fmt.Sprintf("a blob enters the eviction queue without complete (%v) ∧ not banned (%v) established, or its queue node is not recorded (%v)", okC, okB, stored))
		}
		for _, st := range storesToField(fn, fBanned) {
			if !isBoolConst(st.Val, true) {
				continue
			}
			if _, fresh := st.Addr.(*ssa.FieldAddr).X.(*ssa.Alloc); fresh {
				continue
			}
			n, bad := 0, 0
			forEachPath(fn, 20000, func(p Path) {
				if !p.hasInstr(st) || p.ret() == nil {
					return
				}
				n++
				removed := false
				for _, cs := range callsInNamed(fn, "(*container/list.List).Remove") {
					// before or after the flag store: both happen inside one critical section
					if p.hasInstr(cs.Instr) && mentionsField(cs.Instr.Common().Args[0], fQueue) {
						removed = true
					}
				}
				incomplete := false
				instrsOf(fn, func(in ssa.Instruction) {
					if iff, ok := in.(*ssa.If); ok && isFieldLoad(iff.Cond, fComplete) {
						if p.hasEdge(Edge{iff.Block(), iff.Block().Succs[1]}) {
							incomplete = true
						}
					}
				})
				if !removed && !incomplete {
					bad++
				}
			})
			r.Check(n > 0 && bad == 0, r3, fn, "evictionBanned=true ⇒ unlink if complete", st, fmt.Sprintf("%d paths", n), "a complete blob is banned from eviction but stays in the eviction queue")
		}
	}

	// R4 queue primitives
	r4 := r.Rule("R4", "E-OWN", "only Front, Remove, PushBack, MoveToBack, Len, Init are invoked on the eviction queue; the evicted element is Front(); Open moves the node to the back", 4)
	allowedQ := map[string]bool{"Front": true, "Remove": true, "PushBack": true, "MoveToBack": true, "Len": true, "Init": true}
	for _, fn := range storeFns {
		for _, cs := range callsIn(fn) {
			if !strings.HasPrefix(cs.Callee, "(*container/list.List).") || len(cs.Instr.Common().Args) == 0 || !mentionsField(cs.Instr.Common().Args[0], fQueue) {
				continue
			}
			m := lastSeg(cs.Callee)
			r.Check(allowedQ[m], r4, fn, "evictQueue."+m, cs.Instr, "LRU primitive", "evictQueue."+m+" is not an LRU primitive: eviction order is no longer least-recently-used first")
		}
	}
	for _, fn := range storeFns {
		// eviction loops: functions that Remove a node obtained from Front
		for _, cs := range callsInNamed(fn, "(*container/list.List).Remove") {
			if !mentionsField(cs.Instr.Common().Args[0], fQueue) {
				continue
			}
			a := cs.Instr.Common().Args[1]
			if mentionsField(a, fNode) {
				continue // unlinking a specific blob's node
			}
			r.Check(mentionsCall(a, "(*container/list.List).Front"), r4, fn, "evicted element", cs.Instr, "Front()", "eviction removes an element other than the front of the queue (not the least recently used)")
		}
	}
	if op := r.MustFunc(r4, "(*"+tStore+").Open"); op != nil {
		ok := false
		for _, cs := range callsInNamed(op, "(*container/list.List).MoveToBack") {
			if mentionsField(cs.Instr.Common().Args[1], fNode) && guardedBy(cs.Instr, func(cond ssa.Value, val bool) int {
				if b, isB := cond.(*ssa.BinOp); isB && isNilConst(b.Y) && mentionsField(b.X, fNode) {
					nonNil := (b.Op == token.NEQ) == val
					return tern(nonNil, 1, -1)
				}
				return 0
			}) {
				ok = true
			}
		}
		r.Check(ok, r4, op, "Open refreshes recency", nil, "MoveToBack(node) when node != nil", "Open does not move the blob's node to the back of the eviction queue: a just-used blob is evicted first")
	}

	// R5 completion removes non-movable metadata
	r5 := r.Rule("R5", "E-PAIR(paths)", "every path of MarkComplete that sets complete=true also runs the removal of non-movable metadata", 1)
	if mc := r.MustFunc(r5, "(*"+tStore+").MarkComplete"); mc != nil {
		sts := storesToField(mc, fComplete)
		n, bad := 0, 0
		forEachPath(mc, 20000, func(p Path) {
			ret := p.ret()
			if ret == nil || classifyReturn(ret) == RetFailure {
				return
			}
			did := false
			for _, st := range sts {
				if p.hasInstr(st) && isBoolConst(st.Val, true) {
					did = true
				}
			}
			if !did {
				return
			}
			n++
			clean := false
			if disk {
				for _, cs := range callsInNamed(mc, "(*"+tStore+").tryDeleteImmovableMetadata") {
					if p.hasInstr(cs.Instr) {
						clean = true
					}
				}
			} else {
				for _, l := range rangeLoops(mc) {
					if l.rangesOverField(tBlob+".metadatas") && p.hasBlock(l.Header) {
						// body deletes entries whose Movable() is false
						instrsOf(mc, func(in ssa.Instruction) {
							if isMapDeleteOn(in, tBlob+".metadatas") && l.contains(in.Block()) {
								clean = true
							}
						})
					}
				}
			}
			if !clean {
				bad++
			}
		})
		r.Check(n > 0 && bad == 0, r5, mc, "completion ⇒ non-movable metadata removed", nil, fmt.Sprintf("%d completing paths", n), fmt.Sprintf("%d of %d paths that complete a blob skip the removal of non-movable metadata (it stays readable on the complete blob)", bad, n))
		// ordering: complete=true only after the directory rename succeeded (disk)
		if disk {
			r6 := r.Rule("R6", "E-ORDER/ok", "blob.complete=true and the queue insertion lie in the success region of the directory rename", 1)
			for _, st := range sts {
				ok := false
				for _, rn := range callsInNamed(mc, "os.Rename") {
					if inSuccessRegion(rn.Instr, st) {
						ok = true
					}
				}
				r.Check(ok, r6, mc, "complete=true", st, "after successful rename", "a blob is marked complete in memory although its directory was not (provably) moved to the complete area")
			}
		}
	}
	if disk {
		if td := c.Func("(*" + tStore + ").tryDeleteImmovableMetadata"); td != nil {
			ok := false
			for _, cs := range callsInNamed(td, "os.Remove") {
				if guardedBy(cs.Instr, func(cond ssa.Value, val bool) int {
					if isCallTo(cond, "(lib/store/metadata.Metadata).Movable") {
						return tern(val, -1, 1)
					}
					return 0
				}) {
					ok = true
				}
			}
			r.Check(ok, r5, td, "removes exactly the non-movable ones", nil, "os.Remove on ¬Movable()", "the non-movable metadata cleanup does not remove files on the ¬Movable() side")
		}
	}

	// R9 locks
	r9 := r.Rule("R9", "E-LOCK", "store.blobs / evictQueue / size are read under s.mu (read or write mode) and written under s.mu in write mode; helpers are called with the lock held at every call site", 10)
	rows := []LockRow{{Struct: tStore, Mutex: "mu", Fields: []string{"blobs", "evictQueue", "size"},
		Ctors: []string{pkg + ".newStore", pkg + ".rebootPersistedStore"},
		Except: map[string]string{
			"(*" + tStore + ").Clean$1": "utilisation figure for the reply, read after the lock was released (racy read used for reporting only; does not feed back into the store)",
		}}}
	checkLockRows(c, r, r9, []string{pkg}, rows)

	if !disk {
		checkMemoryFileTypestate(c, r, pkg)
	}
}

func lastSegField(fa *ssa.FieldAddr) string {
	n, _ := fieldName(fa)
	return lastSeg(n)
}

func isFreshList(v ssa.Value) bool {
	return mentionsCall(v, "container/list.New")
}

// ensuresSpace: callee summary — every nil return of g is reached only where
// size+space <= capacity held (direct test or loop exit).
func ensuresSpace(g *ssa.Function, fSize, fCap string) bool {
	n := 0
	for _, ret := range returnsOf(g) {
		if classifyReturn(ret) == RetFailure {
			continue
		}
		n++
		ok := guardedBy(ret, func(cond ssa.Value, val bool) int {
			cb, isB := cond.(*ssa.BinOp)
			if !isB || !mentionsField(cond, fCap) || !mentionsField(cond, fSize) {
				return 0
			}
			over := false
			switch cb.Op {
			case token.GTR, token.GEQ:
				over = val
			case token.LEQ, token.LSS:
				over = !val
			default:
				return 0
			}
			return tern(over, -1, 1)
		})
		if !ok {
			return false
		}
	}
	return n > 0
}

// checkScopeTruthTable enumerates the paths of the scope predicate and checks, for
// each combination (complete ∈ {T,F}) × (scope ∈ {Any, Complete, Incomplete}), that
// every consistent path returns an error exactly for the two rejecting combinations.
func checkScopeTruthTable(c *Ctx, r *Report, rule string, fn *ssa.Function, fComplete string) {
	scopes := map[string]int64{}
	for _, n := range []string{"BlobScopeAny", "BlobScopeComplete", "BlobScopeIncomplete"} {
		v, ok := pkgIntConst(c, K+"/lib/store", n)
		if !ok {
			r.Unresolved(rule, "constant lib/store."+n)
			return
		}
		scopes[n] = v
	}
	type combo struct {
		complete bool
		scope    string
	}
	wrong := []string{}
	checked := 0
	for _, cb := range []combo{{true, "BlobScopeAny"}, {true, "BlobScopeComplete"}, {true, "BlobScopeIncomplete"}, {false, "BlobScopeAny"}, {false, "BlobScopeComplete"}, {false, "BlobScopeIncomplete"}} {
		wantErr := cb.complete && cb.scope == "BlobScopeIncomplete" || !cb.complete && cb.scope == "BlobScopeComplete"
		forEachPath(fn, 5000, func(p Path) {
			ret := p.ret()
			if ret == nil {
				return
			}
			// path consistent with the combo?
			for i := 0; i+1 < len(p); i++ {
				b := p[i]
				iff, ok := b.Instrs[len(b.Instrs)-1].(*ssa.If)
				if !ok {
					continue
				}
				took := p[i+1] == b.Succs[0]
				cond, tv := stripNot(iff.Cond, took)
				var truth, known bool
				if isFieldLoad(cond, fComplete) {
					truth, known = cb.complete, true
				} else if bo, isB := cond.(*ssa.BinOp); isB && (bo.Op == token.EQL || bo.Op == token.NEQ) {
					if k, isK := intConst(bo.Y); isK {
						eq := k == scopes[cb.scope]
						truth, known = eq == (bo.Op == token.EQL), true
					}
				}
				if !known {
					wrong = append(wrong, "unrecognised condition in scope test")
					return
				}
				if truth != tv {
					return // infeasible for this combination
				}
			}
			checked++
			isErr := classifyReturn(ret) == RetFailure
			if isErr != wantErr {
				wrong = append(wrong, fmt.Sprintf("complete=%v scope=%s returns error=%v", cb.complete, cb.scope, isErr))
			}
		})
	}
	r.Check(len(wrong) == 0 && checked >= 6, rule, fn, "scope truth table", nil, fmt.Sprintf("%d (combination,path) pairs agree with the table", checked), "scope test disagrees with its truth table: "+strings.Join(wrong, "; "))
}

// checkMemoryFileTypestate: C08 R7/R8.
func checkMemoryFileTypestate(c *Ctx, r *Report, pkg string) {
	tFile, tBlob, tStore := pkg+".File", pkg+".blob", pkg+".store"
	r7 := r.Rule("R7", "E-ORDER(typestate)", "File loads *data only inside getData; every caller of getData tests its 'evicted' result and leaves before using the buffer; the shared slice header is written only under sliceMu in write mode", 6)
	// getData is optional: a File method may also load the slice itself, if it then
	// uses the loaded value only on its non-nil side
	gd := c.Func("(*" + tFile + ").getData")
	nLoads := 0
	defer func() {
		if gd == nil && nLoads == 0 {
			r.Unresolved(r7, "no load of File.data found")
		}
	}()
	for _, fn := range c.FuncsIn(pkg) {
		if c.isFixture(fn) {
			continue
		}
		instrsOf(fn, func(in ssa.Instruction) {
			u, ok := in.(*ssa.UnOp)
			if !ok || u.Op != token.MUL {
				return
			}
			// load through File.data: **[]byte → load of (*f.data)
			inner, ok := u.X.(*ssa.UnOp)
			if !ok || inner.Op != token.MUL || !isFieldRef(inner.X, tFile+".data") {
				return
			}
			nLoads++
			if gd != nil && fn == gd {
				r.OK(r7, fn, "load *File.data", u, true, "in getData")
				return
			}
			// loaded in place: every use other than the nil test itself is on the non-nil side
			local := true
			for _, rf := range *u.Referrers() {
				if _, isDbg := rf.(*ssa.DebugRef); isDbg {
					continue
				}
				if b, isB := rf.(*ssa.BinOp); isB && (b.Op == token.EQL || b.Op == token.NEQ) && (isNilConst(b.X) || isNilConst(b.Y)) {
					continue
				}
				if !guardedBy(rf, func(cond ssa.Value, val bool) int {
					b, isB := cond.(*ssa.BinOp)
					if !isB || (b.Op != token.EQL && b.Op != token.NEQ) {
						return 0
					}
					if !((b.X == ssa.Value(u) && isNilConst(b.Y)) || (b.Y == ssa.Value(u) && isNilConst(b.X))) {
						return 0
					}
					nonNil := (b.Op == token.NEQ) == val
					return tern(nonNil, 1, -1)
				}) {
					local = false
				}
			}
			r.Check(local, r7, fn, "load *File.data", u, "in getData, or used only on its non-nil side", "the shared slice is read outside getData without leaving on the nil (evicted) side: a stale handle returns stale/empty data instead of the evicted error")
		})
	}
	if gd != nil {
		// getData's evicted result is true exactly on the nil side
		okgd := true
		for _, ret := range returnsOf(gd) {
			ev := ret.Results[1]
			nilSide := guardedBy(ret, func(cond ssa.Value, val bool) int {
				if b, isB := cond.(*ssa.BinOp); isB && isNilConst(b.Y) && (b.Op == token.EQL || b.Op == token.NEQ) {
					isNil := (b.Op == token.EQL) == val
					return tern(isNil, 1, -1)
				}
				return 0
			})
			// the evicted indicator is a bool (true) or an error (non-nil)
			reported := isBoolConst(ev, true)
			if isErrorType(ev.Type()) {
				k := classifyErrValue(ev, ret.Block(), 0)
				if k != RetFailure && k != RetSuccess {
					okgd = false
				}
				reported = k == RetFailure
			}
			if reported != nilSide {
				okgd = false
			}
		}
		r.Check(okgd, r7, gd, "evicted ⇔ nil", nil, "evicted reported exactly when the slice is nil", "getData does not report 'evicted' exactly when the slice is nil")
		for _, cs := range c.CallsTo(funcName(gd)) {
			fn := cs.Caller
			if c.isFixture(fn) {
				continue
			}
			buf := resultN(cs.Instr, 0)
			ev := resultN(cs.Instr, 1)
			ok := len(ev) == 1
			if ok {
				// every use of buf is guarded by evicted==false
				for _, bv := range buf {
					for _, rf := range *bv.Referrers() {
						if _, isDbg := rf.(*ssa.DebugRef); isDbg {
							continue
						}
						if !guardedBy(rf, func(cond ssa.Value, val bool) int {
							if cond == ev[0] {
								return tern(val, -1, 1)
							}
							if b, isB := cond.(*ssa.BinOp); isB && (b.Op == token.EQL || b.Op == token.NEQ) && isErrorType(ev[0].Type()) {
								// a named error result is a local cell: the tested value is the reload of what was just stored
								if (unspill(b.X) == ev[0] && isNilConst(b.Y)) || (unspill(b.Y) == ev[0] && isNilConst(b.X)) {
									evicted := (b.Op == token.NEQ) == val
									return tern(evicted, -1, 1)
								}
							}
							return 0
						}) {
							ok = false
						}
					}
				}
			}
			r.Check(ok, r7, fn, "use of buffer after getData", cs.Instr, "only on the not-evicted side", "a file operation uses the buffer without having left on the evicted side: a stale handle returns stale/empty data instead of the evicted error")
		}
	}
	// stores to *f.data under write lock
	for _, fn := range c.FuncsIn(pkg) {
		if c.isFixture(fn) {
			continue
		}
		var sets map[ssa.Instruction]lockState
		instrsOf(fn, func(in ssa.Instruction) {
			st, ok := in.(*ssa.Store)
			if !ok {
				return
			}
			ld, ok := st.Addr.(*ssa.UnOp)
			if !ok || ld.Op != token.MUL {
				return
			}
			var root ssa.Value
			mutex := ""
			switch {
			case isFieldRef(ld.X, tFile+".data"):
				root, mutex = rootOf(ld.X.(*ssa.FieldAddr).X), "sliceMu"
			case isFieldRef(ld.X, tBlob+".data"):
				root, mutex = rootOf(ld.X.(*ssa.FieldAddr).X), "sliceMu"
			default:
				return
			}
			if sets == nil {
				sets = locksets(fn, lockState{})
			}
			held := sets[in][lk(root, mutex)] >= 2
			if !held && isFieldRef(ld.X, tFile+".data") {
				// File.sliceMu is a pointer field: lock calls go through a load of f.sliceMu
				for k, m := range sets[in] {
					if k.mutex == "sliceMu" && m >= 2 {
						held = true
					}
				}
			}
			if !held {
				// a helper that is only ever called with the slice lock held in write mode
				callers := c.CallsTo(funcName(fn))
				all := len(callers) > 0
				for _, cs := range callers {
					if c.isFixture(cs.Caller) {
						continue
					}
					cset := locksets(cs.Caller, lockState{})
					okc := false
					for k, m := range cset[cs.Instr.(ssa.Instruction)] {
						if k.mutex == "sliceMu" && m >= 2 {
							okc = true
						}
					}
					if !okc {
						all = false
					}
				}
				held = all
			}
			r.Check(held, r7, fn, "store *data", st, "under sliceMu write lock", "the shared slice header is replaced without holding sliceMu in write mode")
		})
	}
	r8 := r.Rule("R8", "E-ORDER", "every delete from the memory store's blob table is preceded on every path, or followed on every path before the function returns, by '*b.data = nil' executed under b.sliceMu.Lock", 2)
	for _, fn := range c.FuncsIn(pkg) {
		if c.isFixture(fn) {
			continue
		}
		instrsOf(fn, func(in ssa.Instruction) {
			if !isMapDeleteOn(in, tStore+".blobs") {
				return
			}
			ok := false
			instrsOf(fn, func(in2 ssa.Instruction) {
				st, isSt := in2.(*ssa.Store)
				if !isSt || !isNilConst(st.Val) {
					return
				}
				ld, isLd := st.Addr.(*ssa.UnOp)
				if !isLd || !isFieldRef(ld.X, tBlob+".data") {
					return
				}
				if precedes(st, in) {
					ok = true
				}
			})
			// or through a helper of the package that performs the store on every path
			for _, cs := range callsIn(fn) {
				sf := cs.Instr.Common().StaticCallee()
				if sf == nil || sf.Pkg != fn.Pkg || !precedes(cs.Instr, in) {
					continue
				}
				instrsOf(sf, func(in2 ssa.Instruction) {
					st, isSt := in2.(*ssa.Store)
					if !isSt || !isNilConst(st.Val) {
						return
					}
					ld, isLd := st.Addr.(*ssa.UnOp)
					if !isLd || !isFieldRef(ld.X, tBlob+".data") {
						return
					}
					always := true
					for _, ret := range returnsOf(sf) {
						if !(st.Block() == ret.Block() || st.Block().Dominates(ret.Block())) {
							always = false
						}
					}
					if always {
						ok = true
					}
				})
			}
			// or the clearing follows the delete on every path to the function's exit
			// (and before the next delete): both happen in the caller-visible step.
			if !ok {
				ok = followedOnEveryPath(in, func(in2 ssa.Instruction) bool {
					st, isSt := in2.(*ssa.Store)
					if !isSt || !isNilConst(st.Val) {
						return false
					}
					ld, isLd := st.Addr.(*ssa.UnOp)
					return isLd && isFieldRef(ld.X, tBlob+".data")
				})
			}
			r.Check(ok, r8, fn, "delete(blobs) after nil-ing data", in, "data slice cleared in the same step","a blob is removed from the memory store without clearing its data slice: handles opened earlier keep serving stale bytes instead of the evicted error")
		})
	}
	// R10: R8's "*b.data = nil" reaches the handles only because they hold the same
	// pointer as the blob: blob.data (and File.data) must be set once, when the
	// object is built, and never redirected afterwards.
	r10 := r.Rule("R10", "E-OWN", "the pointer fields blob.data and File.data are stored only into an object allocated in the same function (construction); a later store would detach open handles from eviction", 2)
	for _, fn := range c.FuncsIn(pkg) {
		if c.isFixture(fn) {
			continue
		}
		for _, f := range []string{tBlob + ".data", pkg + ".File.data"} {
			for _, st := range storesToField(fn, f) {
				fa, _ := st.Addr.(*ssa.FieldAddr)
				_, fresh := fa.X.(*ssa.Alloc)
				r.Check(fa != nil && fresh, r10, fn, "store "+short(f), st, "at construction", "the data pointer of an existing "+short(f)+" is redirected: handles opened earlier keep the old slice, which eviction and deletion no longer clear, so they serve stale bytes instead of the evicted error")
			}
		}
	}
}
