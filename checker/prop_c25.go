package main

import (
	"fmt"
	"go/constant"
	"go/token"

	"golang.org/x/tools/go/ssa"
)

func init() { register("C25", checkC25) }

// writeOnlyMethods: methods whose only effect is to write their receiver container.
var writeOnlyMethods = map[string]bool{
	"(utils/stringset.Set).Add":    true,
	"(utils/stringset.Set).Remove": true,
}

// deadContainers finds local maps/slices that are populated but never read,
// returned, stored or passed on.
func deadContainers(fn *ssa.Function) []ssa.Instruction {
	var out []ssa.Instruction
	instrsOf(fn, func(in ssa.Instruction) {
		var root ssa.Value
		switch x := in.(type) {
		case *ssa.MakeMap:
			root = x
		default:
			return
		}
		// alias closure through conversions
		vals := []ssa.Value{root}
		seen := map[ssa.Value]bool{root: true}
		written, read := false, false
		for i := 0; i < len(vals); i++ {
			refs := vals[i].Referrers()
			if refs == nil {
				continue
			}
			for _, rf := range *refs {
				switch y := rf.(type) {
				case *ssa.ChangeType:
					if !seen[y] {
						seen[y] = true
						vals = append(vals, y)
					}
				case *ssa.MapUpdate:
					if y.Map == vals[i] && y.Key != vals[i] && y.Value != vals[i] {
						written = true
					} else {
						read = true
					}
				case *ssa.DebugRef:
				case ssa.CallInstruction:
					cc := y.Common()
					n := calleeName(cc)
					if writeOnlyMethods[n] && len(cc.Args) > 0 && cc.Args[0] == vals[i] {
						onlyRecv := true
						for _, a := range cc.Args[1:] {
							if a == vals[i] {
								onlyRecv = false
							}
						}
						if onlyRecv {
							written = true
							continue
						}
					}
					if b, ok := cc.Value.(*ssa.Builtin); ok && b.Name() == "delete" && cc.Args[0] == vals[i] {
						written = true
						continue
					}
					read = true
				default:
					read = true
				}
			}
		}
		if written && !read {
			out = append(out, in)
		}
	})
	return out
}

func checkC25(c *Ctx, r *Report) {
	r.Explain = "Bounded sampling of current hosts: (R1) no local container in the set utilities or the cluster clients is populated and then dropped (a sampled subset that is built but not returned means every host is contacted); (R2) every Sample call takes a constant k<=3 on a set that comes from the host list's Resolve(); (R3) host-contact calls that use the sampled element are inside the loop over the sample with no inner retry loop (k<=3), or outside it only when k==1; (R4) the sampler returns the container it fills and stops filling on its count parameter."
	r.NotDecided = "That map iteration order is random enough; the distinctness of sampled members follows from set semantics and is not re-proved."
	pkgs := []string{"utils/stringset", "origin/blobclient", "build-index/tagclient"}
	r1 := r.Rule("R1", "E-DEAD", "no local map in utils/stringset, origin/blobclient, build-index/tagclient is written (MapUpdate / Set.Add / delete) but never read, returned, stored or passed on", 5)
	for _, p := range pkgs {
		for _, fn := range c.FuncsIn(p) {
			if c.isFixture(fn) {
				continue
			}
			nmk := 0
			instrsOf(fn, func(in ssa.Instruction) {
				if _, ok := in.(*ssa.MakeMap); ok {
					nmk++
				}
			})
			if nmk == 0 {
				continue
			}
			dead := deadContainers(fn)
			if len(dead) == 0 {
				r.OK(r1, fn, "local maps", nil, true, fmt.Sprintf("%d local map(s), all read or returned", nmk))
			}
			for _, d := range dead {
				r.Bad(r1, fn, "write-only local map", d, "a local set is filled and then dropped: the function returns something else than what it built (e.g. the whole host set instead of the sample)")
			}
		}
	}

	// R4: Sample returns its fresh container, filling controlled by n
	r4 := r.Rule("R4", "flow", "Set.Sample returns the map it makes, and each insertion into it is dominated by a test of the count parameter", 1)
	if sf := r.MustFunc(r4, "(utils/stringset.Set).Sample"); sf != nil {
		for _, ret := range returnsOf(sf) {
			ok := len(ret.Results) == 1 && mentions(ret.Results[0], func(v ssa.Value) bool { _, ok := v.(*ssa.MakeMap); return ok }, 4) &&
				!mentions(ret.Results[0], func(v ssa.Value) bool { p, ok := v.(*ssa.Parameter); return ok && p == sf.Params[0] }, 4)
			r.Check(ok, r4, sf, "return", ret, "returns the freshly made sample", "Sample does not return the subset it built")
		}
		nparam := sf.Params[1]
		instrsOf(sf, func(in ssa.Instruction) {
			ci, ok := in.(ssa.CallInstruction)
			if !ok || !writeOnlyMethods[calleeName(ci.Common())] {
				return
			}
			okg := false
			for _, iff := range controlConds(in.Block()) {
				if mentions(iff.Cond, func(v ssa.Value) bool { return v == nparam }, 6) {
					okg = true
				}
			}
			// dominating form
			for _, cf := range dominatingConds(in.Block()) {
				if mentions(cf.Cond, func(v ssa.Value) bool { return v == nparam }, 6) {
					okg = true
				}
			}
			r.Check(okg, r4, sf, "insertion", in, "insertion guarded by the count", "insertion into the sample is not bounded by the count parameter")
			// cardinality: the insertion is on the 'remaining != 0' side of the test of a
			// counter that starts at n and is decremented once on the way back to the
			// loop head (one insertion consumes one unit of the budget)
			var cnt *ssa.Phi
			instrsOf(sf, func(in2 ssa.Instruction) {
				phi, isPhi := in2.(*ssa.Phi)
				if !isPhi {
					return
				}
				fromN, dec := false, false
				for _, e := range phi.Edges {
					if e == ssa.Value(nparam) {
						fromN = true
					}
					if b, isB := e.(*ssa.BinOp); isB && b.Op == token.SUB && b.X == ssa.Value(phi) {
						if k, isK := intConst(b.Y); isK && k == 1 {
							dec = true
						}
					}
				}
				if fromN && dec {
					cnt = phi
				}
			})
			okc := false
			if cnt != nil {
				budget := guardedBy(in, eqFact(func(b *ssa.BinOp) bool { return b.X == ssa.Value(cnt) && isConstZero(b.Y) }, false))
				consumed := false
				instrsOf(sf, func(in2 ssa.Instruction) {
					if b, isB := in2.(*ssa.BinOp); isB && b.Op == token.SUB && b.X == ssa.Value(cnt) && (b.Block() == in.Block() || in.Block().Dominates(b.Block())) {
						consumed = true
					}
				})
				okc = budget && consumed
				if !okc && consumed {
					// do-while form: the count is tested non-zero before the loop is
					// entered, and after each insertion the decremented counter is tested:
					// the back edge is taken only on its non-zero side
					entry := guardedBy(in, eqFact(func(b *ssa.BinOp) bool { return b.X == ssa.Value(nparam) && isConstZero(b.Y) }, false))
					var dec ssa.Value
					for _, e := range cnt.Edges {
						if b, isB := e.(*ssa.BinOp); isB && b.Op == token.SUB && b.X == ssa.Value(cnt) {
							dec = b
						}
					}
					back := false
					if dec != nil {
						instrsOf(sf, func(in2 ssa.Instruction) {
							b, isB := in2.(*ssa.BinOp)
							if !isB || (b.Op != token.EQL && b.Op != token.NEQ) || b.X != dec || !isConstZero(b.Y) {
								return
							}
							// zero side must leave the loop (not reach the insertion again)
							for _, e := range condEdges(b, b.Op == token.EQL) {
								if e.To != in.Block() && !reaches(e.To, in.Block()) {
									back = true
								}
							}
						})
					}
					okc = entry && back
				}
			}
			if !okc {
				// counter-free form: the size of the sample itself is the counter — the
				// insertion is on the len(sample) != n (or < n) side of a test of the
				// map that is made here, inserted into and returned
				var made ssa.Value
				instrsOf(sf, func(in2 ssa.Instruction) {
					if mk, isMk := in2.(*ssa.MakeMap); isMk && len(ci.Common().Args) > 0 && mentions(ci.Common().Args[0], func(v ssa.Value) bool { return v == ssa.Value(mk) }, 3) {
						made = mk
					}
				})
				if made != nil {
					okc = guardedBy(in, func(cond ssa.Value, val bool) int {
						b, isB := cond.(*ssa.BinOp)
						if !isB {
							return 0
						}
						x, y, op := b.X, b.Y, b.Op
						if y != ssa.Value(nparam) && x == ssa.Value(nparam) {
							x, y = y, x
							switch op {
							case token.LSS:
								op = token.GTR
							case token.GTR:
								op = token.LSS
							case token.LEQ:
								op = token.GEQ
							case token.GEQ:
								op = token.LEQ
							}
						}
						lc, isL := x.(*ssa.Call)
						if !isL || y != ssa.Value(nparam) || calleeName(lc.Common()) != "builtin.len" || !mentions(lc.Call.Args[0], func(v ssa.Value) bool { return v == made }, 3) {
							return 0
						}
						switch op {
						case token.EQL, token.GEQ: // len == n, len >= n: full on the true side
							return tern(val, -1, 1)
						case token.NEQ, token.LSS: // len != n, len < n: room on the true side
							return tern(val, 1, -1)
						}
						return 0
					})
				}
			}
			r.Check(okc, r4, sf, "insertion consumes the budget", in, "on the remaining!=0 side, counter decremented", "an element is inserted into the sample without consuming one unit of the n-element budget (the sample can grow beyond n)")
		})
	}

	// R2/R3: Sample call sites
	r2 := r.Rule("R2", "flow", "each call of Set.Sample outside utils/stringset has a constant argument k with 1<=k<=3 and a receiver produced by a Resolve() call of the host list", 3)
	r3 := r.Rule("R3", "E-ORDER/loop", "calls using the sampled host are inside the range loop over the sample without an inner loop, or after it only when k==1", 3)
	// sample sources: a Sample call with a constant count, or — when the count is a
	// parameter of a small wrapper that returns the sample — each call of that
	// wrapper with a constant in the count position
	type sampleSrc struct {
		fn    *ssa.Function
		instr ssa.CallInstruction
		sv    ssa.Value
		k     int64
		ok    bool
	}
	constK := func(v ssa.Value) int64 {
		if kc, ok := v.(*ssa.Const); ok && kc.Value != nil && kc.Value.Kind() == constant.Int {
			k, _ := constant.Int64Val(kc.Value)
			return k
		}
		return -1
	}
	var srcs []sampleSrc
	for _, cs := range c.CallsTo("(utils/stringset.Set).Sample") {
		fn := cs.Caller
		if c.isFixture(fn) || pkgOf(fn) == "utils/stringset" {
			continue
		}
		args := cs.Instr.Common().Args
		fromResolve := mentions(args[0], func(v ssa.Value) bool {
			return isCallTo(v, "(lib/hostlist.List).Resolve", "(lib/healthcheck.List).Resolve")
		}, 4)
		// the count may be a parameter, or a parameter plus/minus a constant (retries+1)
		cnt, off := args[1], int64(0)
		if b, isB := cnt.(*ssa.BinOp); isB && (b.Op == token.ADD || b.Op == token.SUB) {
			if k := constK(b.Y); k >= 0 {
				cnt, off = b.X, tern64(b.Op == token.ADD, k, -k)
			} else if k := constK(b.X); k >= 0 && b.Op == token.ADD {
				cnt, off = b.Y, k
			}
		}
		if prm, isP := cnt.(*ssa.Parameter); isP && fromResolve {
			// wrapper: the sample is what it returns
			idx, ridx := -1, -1
			for i, q := range fn.Params {
				if q == prm {
					idx = i
				}
			}
			for _, ret := range returnsOf(fn) {
				for i, rv := range ret.Results {
					if mentions(unspill(rv), func(v ssa.Value) bool { return v == cs.Instr.Value() }, 4) {
						ridx = i
					}
				}
			}
			callers := c.CallsTo(funcName(fn))
			if idx >= 0 && ridx >= 0 && len(callers) > 0 {
				for _, wc := range callers {
					if c.isFixture(wc.Caller) {
						continue
					}
					k := constK(wc.Instr.Common().Args[idx])
					if k >= 0 {
						k += off
					}
					var sv ssa.Value
					if fn.Signature.Results().Len() == 1 {
						sv = wc.Instr.Value()
					} else if rs := resultN(wc.Instr, ridx); len(rs) > 0 {
						sv = rs[0]
					}
					srcs = append(srcs, sampleSrc{wc.Caller, wc.Instr, sv, k, k >= 1 && k <= 3 && sv != nil})
				}
				continue
			}
			if idx >= 0 && ridx < 0 && len(callers) > 0 && fn.Parent() == nil && (fn.Object() == nil || !fn.Object().Exported()) {
				// a shared helper that samples and contacts the hosts itself: every
				// caller passes a constant count; the helper is judged for the largest
				kmax, all := int64(-1), true
				for _, wc := range callers {
					if c.isFixture(wc.Caller) {
						continue
					}
					k := constK(wc.Instr.Common().Args[idx])
					if k >= 0 {
						k += off
					}
					srcs = append(srcs, sampleSrc{wc.Caller, wc.Instr, nil, k, k >= 1 && k <= 3})
					if k < 1 || k > 3 {
						all = false
					}
					if k > kmax {
						kmax = k
					}
				}
				srcs = append(srcs, sampleSrc{fn, cs.Instr, cs.Instr.Value(), kmax, all && kmax >= 1})
				continue
			}
		}
		k := constK(args[1])
		srcs = append(srcs, sampleSrc{fn, cs.Instr, cs.Instr.Value(), k, k >= 1 && k <= 3 && fromResolve})
	}
	for _, src := range srcs {
		fn, k := src.fn, src.k
		cs := struct{ Instr ssa.CallInstruction }{src.instr}
		r.Check(src.ok, r2, fn, "Sample", cs.Instr, fmt.Sprintf("k=%d from Resolve()", k),
			fmt.Sprintf("Sample argument must be a constant in 1..3 (got %d) applied to the current host list", k))
		sv := src.sv
		if sv == nil {
			continue
		}
		var loops []*RangeLoop
		for _, l := range rangeLoops(fn) {
			if mentions(l.Ranged, func(v ssa.Value) bool { return v == sv }, 4) {
				loops = append(loops, l)
			}
		}
		if len(loops) == 0 {
			// a single-host sample may be taken without a loop (ToSlice()[0]): every
			// host contact then uses the one sampled element, outside any loop
			if k == 1 {
				okSingle, n1 := true, 0
				instrsOf(fn, func(in ssa.Instruction) {
					ci, ok := in.(ssa.CallInstruction)
					if !ok || ci == cs.Instr {
						return
					}
					cn := calleeName(ci.Common())
					if cn == "(lib/healthcheck.List).Failed" || cn == "builtin.len" || cn == "(utils/stringset.Set).ToSlice" {
						return
					}
					uses := false
					for _, a := range ci.Common().Args {
						if mentions(a, func(v ssa.Value) bool { return v == sv }, 8) {
							uses = true
						}
					}
					if !uses {
						return
					}
					n1++
					if reaches(in.Block(), in.Block()) {
						okSingle = false
					}
				})
				r.Check(okSingle && n1 > 0, r3, fn, "host contact after loop", cs.Instr, "single attempt with k==1", "the host taken from a one-element sample is contacted inside a loop")
				continue
			}
			r.Bad(r3, fn, "sample loop", cs.Instr, "the sampled hosts are not iterated by a range loop: cannot bound the hosts contacted")
			continue
		}
		for _, l := range loops {
			n := 0
			instrsOf(fn, func(in ssa.Instruction) {
				ci, ok := in.(ssa.CallInstruction)
				if !ok || ci == cs.Instr {
					return
				}
				cn := calleeName(ci.Common())
				if cn == "(lib/healthcheck.List).Failed" || cn == "builtin.len" {
					return
				}
				uses := false
				for _, a := range ci.Common().Args {
					if l.derivesFromElem(a) {
						uses = true
					}
				}
				if ci.Common().IsInvoke() && l.derivesFromElem(ci.Common().Value) {
					uses = true
				}
				if !uses {
					return
				}
				n++
				inLoop := l.contains(in.Block()) && in.Block() != l.Header
				if inLoop {
					// no inner cycle: the block must not reach itself without passing the header
					inner := reachesAvoiding(in.Block(), in.Block(), l.Header)
					r.Check(!inner && k <= 3, r3, fn, "host contact in loop", in, "one contact per sampled host",
						"a host contact is retried in an inner loop, so more than k requests are made")
				} else {
					r.Check(k == 1, r3, fn, "host contact after loop", in, "single attempt with k==1",
						fmt.Sprintf("a host chosen from the sample is contacted outside the loop although k=%d (only k==1 makes that a defined single host)", k))
				}
			})
			if n == 0 {
				r.Undecided(r3, fn, "sample loop", l.Header.Instrs[0], "no call uses the sampled host")
			}
		}
	}
	_ = token.ADD
}

// reachesAvoiding: path from a's successors to b that does not pass through avoid.
func reachesAvoiding(a, b, avoid *ssa.BasicBlock) bool {
	seen := map[*ssa.BasicBlock]bool{}
	st := append([]*ssa.BasicBlock{}, a.Succs...)
	for len(st) > 0 {
		x := st[len(st)-1]
		st = st[:len(st)-1]
		if x == avoid || seen[x] {
			continue
		}
		if x == b {
			return true
		}
		seen[x] = true
		st = append(st, x.Succs...)
	}
	return false
}

func tern64(c bool, a, b int64) int64 {
	if c {
		return a
	}
	return b
}
