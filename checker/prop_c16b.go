package main

import (
	"fmt"

	"golang.org/x/tools/go/ssa"
)

// rulesBlacklistWrites (C16.R6): "blacklisted peers are not dialled until their
// blacklist expires" needs the entry to exist: every return of State.Blacklist
// that reports success with blacklisting enabled has stored an entry for the key
// whose expiry is built from the clock reading plus BlacklistDuration, and
// Blacklisted answers from that same map with the clock.
func rulesBlacklistWrites(c *Ctx, r *Report) {
	const tState = "lib/torrent/scheduler/connstate.State"
	const fBL = tState + ".blacklist"
	r6 := r.Rule("R6", "E-ORDER(paths)", "every path of State.Blacklist that returns nil on the blacklisting-enabled side stores blacklist[key] = entry{Now()+BlacklistDuration}; Blacklisted looks the key up in the same map and asks the entry with Now()", 2)
	if bl := r.MustFunc(r6, "(*"+tState+").Blacklist"); bl != nil {
		var upd []ssa.Instruction
		instrsOf(bl, func(in ssa.Instruction) {
			mu, ok := in.(*ssa.MapUpdate)
			if !ok || !isPureLoadOf(mu.Map, fBL) {
				return
			}
			// value: &blacklistEntry{expiry} with expiry = Now().Add(config.BlacklistDuration)
			good := false
			if al, isAl := mu.Value.(*ssa.Alloc); isAl {
				for _, rf := range *al.Referrers() {
					fa, isFA := rf.(*ssa.FieldAddr)
					if !isFA {
						continue
					}
					for _, rf2 := range *fa.Referrers() {
						st, isSt := rf2.(*ssa.Store)
						if !isSt {
							continue
						}
						add, isC := st.Val.(*ssa.Call)
						if isC && calleeName(add.Common()) == "(time.Time).Add" && isClockNow(add.Call.Args[0]) &&
							mentionsField(add.Call.Args[1], "lib/torrent/scheduler/connstate.Config.BlacklistDuration") {
							good = true
						}
					}
				}
			}
			if good {
				upd = append(upd, in)
			}
		})
		disabled := func(p Path) bool {
			took := false
			instrsOf(bl, func(in ssa.Instruction) {
				iff, ok := in.(*ssa.If)
				if !ok || !isPureLoadOf(iff.Cond, "lib/torrent/scheduler/connstate.Config.DisableBlacklist") {
					return
				}
				for _, e := range condEdges(iff.Cond, true) {
					if p.hasEdge(e) {
						took = true
					}
				}
			})
			return took
		}
		n, bad := 0, 0
		var where ssa.Instruction
		forEachPath(bl, 5000, func(p Path) {
			ret := p.ret()
			if ret == nil || classifyReturn(ret) != RetSuccess || disabled(p) {
				return
			}
			n++
			ok := false
			for _, u := range upd {
				if p.hasInstr(u) {
					ok = true
				}
			}
			if !ok {
				bad++
				where = ret
			}
		})
		r.Check(n > 0 && bad == 0, r6, bl, "success ⇒ entry stored", where, fmt.Sprintf("%d success path(s), each stores a fresh entry", n),
			fmt.Sprintf("%d of %d paths report the peer as blacklisted without storing an entry that expires BlacklistDuration from now (e.g. an expired entry is left in place): the peer keeps being dialled", bad, n))
	}
	if bd := r.MustFunc(r6, "(*"+tState+").Blacklisted"); bd != nil {
		ok := false
		instrsOf(bd, func(in ssa.Instruction) {
			lk, isL := in.(*ssa.Lookup)
			if isL && isPureLoadOf(lk.X, fBL) {
				for _, cs := range callsInNamed(bd, "(*lib/torrent/scheduler/connstate.blacklistEntry).Blacklisted") {
					if isClockNow(cs.Instr.Common().Args[1]) {
						ok = true
					}
				}
			}
		})
		r.Check(ok, r6, bd, "lookup + expiry test", nil, "entry looked up and asked with Now()", "Blacklisted does not consult the stored entry with the current time")
	}
}
