package main

import (
	"fmt"
	"os"
	"time"

	"golang.org/x/tools/go/packages"
	"golang.org/x/tools/go/ssa"
	"golang.org/x/tools/go/ssa/ssautil"
)

func main() {
	t0 := time.Now()
	cfg := &packages.Config{
		Mode: packages.NeedName | packages.NeedFiles | packages.NeedCompiledGoFiles | packages.NeedImports | packages.NeedDeps | packages.NeedTypes | packages.NeedTypesSizes | packages.NeedSyntax | packages.NeedTypesInfo,
		Dir:  "/repo",
		Env:  append(os.Environ(), "GOFLAGS=-mod=mod", "GOPROXY=off", "GOSUMDB=off", "GOTOOLCHAIN=local", "GOWORK=off"),
	}
	pkgs, err := packages.Load(cfg, "./...")
	if err != nil {
		panic(err)
	}
	n := packages.PrintErrors(pkgs)
	fmt.Println("pkgs", len(pkgs), "errors", n, time.Since(t0))
	t1 := time.Now()
	prog, spkgs := ssautil.AllPackages(pkgs, ssa.InstantiateGenerics)
	prog.Build()
	cnt := 0
	for _, p := range spkgs {
		if p != nil {
			cnt++
		}
	}
	fmt.Println("ssa pkgs", cnt, time.Since(t1))
}
