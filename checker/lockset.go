package main

import (
	"fmt"
	"go/token"
	"go/types"
	"sort"
	"strings"

	"golang.org/x/tools/go/ssa"
)

// LockRow: fields of Struct guarded by its mutex.
type LockRow struct {
	Struct string   // "lib/store/memory.store"
	Mutex  string   // field name of the mutex ("mu"); for an embedded mutex its type name ("Mutex", "RWMutex")
	Fields []string // guarded field names
	// ReadNeedsLock: reads need at least the read lock (default true)
	NoReadLock bool
	// Ctors: functions (canonical names) in which the object is still under
	// single-threaded construction: accesses there, and helpers called from
	// there, need no lock.
	Ctors []string
	// Except: function name -> reason, for accesses deliberately outside the lock.
	Except map[string]string
}

// acquireWrappers: functions whose every return path holds (in write mode) the
// named mutex of the object they return; verified by verifyAcquireWrapper before use.
var acquireWrappers = map[string]string{}

// verifyAcquireWrapper checks the summary: at every return of fn, the lockset
// contains the mutex of the returned value in write mode.
func verifyAcquireWrapper(fn *ssa.Function, mutex string) bool {
	sets := locksets(fn, lockState{})
	n := 0
	for _, ret := range returnsOf(fn) {
		n++
		if len(ret.Results) == 0 {
			return false
		}
		if sets[ret][lk(ret.Results[0], mutex)] < 2 {
			return false
		}
	}
	return n > 0
}

// lockKey identifies a held mutex by the ACCESS PATH of the object that owns it
// (go/ssa performs no CSE, so two loads of s.limiter are different values; the
// path "param:gc.limiter" is the same), the mutex field name and the object type.
type lockKey struct {
	root  string
	mutex string
	rtype string
}

func lkey(v ssa.Value, mutex string) lockKey { return lk(v, mutex) }

func lk(v ssa.Value, mutex string) lockKey {
	return lockKey{accessPath(v), mutex, typeName(v.Type())}
}

// accessPath renders a value as parameter/free-variable/field path where
// possible; other values are identified by SSA identity.
func accessPath(v ssa.Value) string {
	v = rootOf(v)
	switch x := v.(type) {
	case *ssa.Parameter:
		return "param:" + x.Name()
	case *ssa.FreeVar:
		return "free:" + x.Name()
	case *ssa.Global:
		return "global:" + x.String()
	case *ssa.UnOp:
		if x.Op == token.MUL {
			if fa, ok := x.X.(*ssa.FieldAddr); ok {
				if st := structOf(fa.X.Type()); st != nil {
					return accessPath(fa.X) + "." + st.Field(fa.Field).Name()
				}
			}
			if g, ok := x.X.(*ssa.Global); ok {
				return "global:" + g.String()
			}
		}
	case *ssa.FieldAddr:
		if st := structOf(x.X.Type()); st != nil {
			return accessPath(x.X) + ".&" + st.Field(x.Field).Name()
		}
	case *ssa.Field:
		if st := structOf(x.X.Type()); st != nil {
			return accessPath(x.X) + "." + st.Field(x.Field).Name()
		}
	}
	return fmt.Sprintf("%T@%p", v, v)
}

type lockState map[lockKey]int // 1 = read, 2 = write

func (s lockState) clone() lockState {
	o := lockState{}
	for k, v := range s {
		o[k] = v
	}
	return o
}

func meet(a, b lockState) lockState {
	o := lockState{}
	for k, v := range a {
		if w, ok := b[k]; ok {
			if w < v {
				v = w
			}
			o[k] = v
		}
	}
	return o
}

func sameState(a, b lockState) bool {
	if len(a) != len(b) {
		return false
	}
	for k, v := range a {
		if b[k] != v {
			return false
		}
	}
	return true
}

// rootOf strips loads/conversions so that two expressions for the same object
// (receiver, parameter, local pointer) give the same SSA value.
func rootOf(v ssa.Value) ssa.Value {
	for i := 0; i < 8; i++ {
		switch x := v.(type) {
		case *ssa.ChangeType:
			v = x.X
		case *ssa.UnOp:
			if x.Op == token.MUL {
				// load of a local variable holding the pointer: single store
				if al, ok := x.X.(*ssa.Alloc); ok {
					var st *ssa.Store
					n := 0
					for _, r := range *al.Referrers() {
						if s, ok := r.(*ssa.Store); ok && s.Addr == al {
							st, n = s, n+1
						}
					}
					if n == 1 {
						v = st.Val
						continue
					}
				}
				// captured variable in closure: *freevar
				if fv, ok := x.X.(*ssa.FreeVar); ok {
					return fv
				}
			}
			return v
		default:
			return v
		}
	}
	return v
}

// mutexEvent decodes a call as lock/unlock on (root, mutexField).
// mode: +1 RLock, +2 Lock, -1 RUnlock, -2 Unlock, 0 none.
func mutexEvent(in ssa.Instruction) (lockKey, int, bool) {
	ci, ok := in.(ssa.CallInstruction)
	if !ok {
		return lockKey{}, 0, false
	}
	cc := ci.Common()
	n := calleeName(cc)
	mode := 0
	switch n {
	case "(*sync.Mutex).Lock", "(*sync.RWMutex).Lock", "(sync.Locker).Lock":
		mode = 2
	case "(*sync.RWMutex).RLock":
		mode = 1
	case "(*sync.Mutex).Unlock", "(*sync.RWMutex).Unlock", "(sync.Locker).Unlock":
		mode = -2
	case "(*sync.RWMutex).RUnlock":
		mode = -1
	default:
		return lockKey{}, 0, false
	}
	var recv ssa.Value
	if cc.IsInvoke() {
		recv = cc.Value
	} else if len(cc.Args) > 0 {
		recv = cc.Args[0]
	}
	// recv = &root.mu  or &root.Mutex (embedded)
	if fa, ok := recv.(*ssa.FieldAddr); ok {
		st := structOf(fa.X.Type())
		if st != nil {
			return lk(fa.X, st.Field(fa.Field).Name()), mode, true
		}
	}
	// cond.L style: load of an interface field
	if u, ok := recv.(*ssa.UnOp); ok && u.Op == token.MUL {
		if fa, ok := u.X.(*ssa.FieldAddr); ok {
			st := structOf(fa.X.Type())
			if st != nil {
				return lk(fa.X, st.Field(fa.Field).Name()), mode, true
			}
		}
	}
	return lk(recv, "?"), mode, true
}

// locksets computes the must-hold lock state before every instruction of fn.
// Deferred unlocks do not release. entry is the state assumed at function entry.
func locksets(fn *ssa.Function, entry lockState) map[ssa.Instruction]lockState {
	in := map[*ssa.BasicBlock]lockState{}
	out := map[*ssa.BasicBlock]lockState{}
	res := map[ssa.Instruction]lockState{}
	if len(fn.Blocks) == 0 {
		return res
	}
	transfer := func(b *ssa.BasicBlock, st lockState, record bool) lockState {
		cur := st.clone()
		for _, ins := range b.Instrs {
			if record {
				res[ins] = cur.clone()
			}
			if _, isDefer := ins.(*ssa.Defer); isDefer {
				continue
			}
			if _, isGo := ins.(*ssa.Go); isGo {
				continue
			}
			if k, mode, ok := mutexEvent(ins); ok {
				if mode > 0 {
					cur[k] = mode
				} else {
					delete(cur, k)
				}
			}
			// acquire wrappers: the returned object comes back with its mutex held
			if cl, isCall := ins.(*ssa.Call); isCall {
				if mu, isW := acquireWrappers[calleeName(cl.Common())]; isW {
					cur[lk(cl, mu)] = 2
				}
			}
		}
		return cur
	}
	in[fn.Blocks[0]] = entry.clone()
	for changed, iter := true, 0; changed && iter < 50; iter++ {
		changed = false
		for _, b := range fn.Blocks {
			var st lockState
			if b == fn.Blocks[0] {
				st = entry.clone()
			} else {
				first := true
				for _, p := range b.Preds {
					o, ok := out[p]
					if !ok {
						continue
					}
					if first {
						st, first = o.clone(), false
					} else {
						st = meet(st, o)
					}
				}
				if first {
					continue
				}
			}
			in[b] = st
			o := transfer(b, st, false)
			if prev, ok := out[b]; !ok || !sameState(prev, o) {
				out[b] = o
				changed = true
			}
		}
	}
	for _, b := range fn.Blocks {
		if st, ok := in[b]; ok {
			transfer(b, st, true)
		}
	}
	return res
}

// fieldAccess: a read or write of a guarded field.
type fieldAccess struct {
	fn    *ssa.Function
	in    ssa.Instruction
	root  ssa.Value
	field string
	write bool
}

// guardedAccesses lists accesses to row.Fields in fn.
func guardedAccesses(fn *ssa.Function, row LockRow) []fieldAccess {
	var out []fieldAccess
	want := map[string]bool{}
	for _, f := range row.Fields {
		want[f] = true
	}
	instrsOf(fn, func(in ssa.Instruction) {
		fa, ok := in.(*ssa.FieldAddr)
		if !ok {
			return
		}
		if typeName(fa.X.Type()) != row.Struct {
			return
		}
		st := structOf(fa.X.Type())
		name := st.Field(fa.Field).Name()
		if !want[name] {
			return
		}
		root := rootOf(fa.X)
		// classify uses of the address
		for _, rf := range *fa.Referrers() {
			switch x := rf.(type) {
			case *ssa.Store:
				if x.Addr == fa {
					out = append(out, fieldAccess{fn, x, root, name, true})
				}
			case *ssa.UnOp:
				if x.Op != token.MUL {
					continue
				}
				// load: a read; but map updates / deletes / element stores through the loaded value are writes
				w := false
				for _, r2 := range *x.Referrers() {
					switch y := r2.(type) {
					case *ssa.MapUpdate:
						if y.Map == x {
							out = append(out, fieldAccess{fn, y, root, name, true})
							w = true
						}
					case *ssa.Call:
						if b, isB := y.Call.Value.(*ssa.Builtin); isB && b.Name() == "delete" && y.Call.Args[0] == x {
							out = append(out, fieldAccess{fn, y, root, name, true})
							w = true
						}
					case *ssa.IndexAddr:
						for _, r3 := range *y.Referrers() {
							if st, isSt := r3.(*ssa.Store); isSt && st.Addr == y {
								out = append(out, fieldAccess{fn, st, root, name, true})
								w = true
							}
						}
					}
				}
				_ = w
				out = append(out, fieldAccess{fn, x, root, name, false})
			default:
				// address escapes (passed to a call, e.g. atomic or method with pointer receiver on the field)
				if ci, isCall := rf.(ssa.CallInstruction); isCall {
					out = append(out, fieldAccess{fn, ci, root, name, true})
				}
			}
		}
	})
	return out
}

// isFreshObject: root is allocated in this function (composite literal / new) —
// not yet visible to other goroutines while being initialised.
func isFreshObject(root ssa.Value) bool {
	switch x := root.(type) {
	case *ssa.Alloc:
		return true
	case *ssa.MakeInterface:
		return isFreshObject(x.X)
	}
	return false
}

// LockReport is one undischarged access.
type lockFinding struct {
	acc fieldAccess
	why string
}

// checkLockRows runs the guarded-by analysis for the rows over the functions of
// pkgs. held(fn) may pre-seed the entry state (e.g. methods documented as
// called-with-lock are instead verified through their callers).
func checkLockRows(c *Ctx, r *Report, rule string, pkgs []string, rows []LockRow) {
	rows = normLockRows(c, pkgs, rows)
	ctor := map[string]bool{}
	for _, row := range rows {
		for _, n := range row.Ctors {
			ctor[n] = true
		}
	}
	// memo of "all callers hold lock for receiver/param i"
	type hk struct {
		fn    *ssa.Function
		param int
		mutex string
		mode  int
	}
	memo := map[hk]int{}
	var callersHold func(fn *ssa.Function, param int, mutex string, mode int, depth int) (bool, string)
	lsCache := map[*ssa.Function]map[ssa.Instruction]lockState{}
	ls := func(fn *ssa.Function) map[ssa.Instruction]lockState {
		if m, ok := lsCache[fn]; ok {
			return m
		}
		m := locksets(fn, lockState{})
		lsCache[fn] = m
		return m
	}
	callersHold = func(fn *ssa.Function, param int, mutex string, mode int, depth int) (bool, string) {
		k := hk{fn, param, mutex, mode}
		if v, ok := memo[k]; ok {
			return v == 1, "memo"
		}
		memo[k] = 1 // optimistic for recursion
		if depth > 4 {
			memo[k] = 2
			return false, "call chain too deep"
		}
		if fn.Object() != nil && fn.Object().Exported() && fn.Parent() == nil {
			// exported API can be called from anywhere; only accept if all repo callers hold and it is documented... be strict
		}
		var sites []*CallSite
		if fn.Parent() != nil {
			memo[k] = 2
			return false, "closure"
		}
		sites = c.CallsTo(funcName(fn))
		// interface dispatch: methods invoked through an interface are not resolved statically
		n := 0
		for _, cs := range sites {
			if c.isFixture(cs.Caller) {
				continue
			}
			n++
			if ctor[funcName(topFunc(cs.Caller))] && !cs.IsGo {
				continue // object still under construction
			}
			if cs.IsGo {
				memo[k] = 2
				return false, "started as goroutine in " + funcName(cs.Caller)
			}
			args := cs.Instr.Common().Args
			if param >= len(args) {
				memo[k] = 2
				return false, "arity"
			}
			root := rootOf(args[param])
			st := ls(cs.Caller)[cs.Instr.(ssa.Instruction)]
			if st[lk(root, mutex)] >= mode {
				continue
			}
			if isFreshObject(root) {
				continue
			}
			// the caller is a closure created (and only called synchronously) while
			// its creator holds the lock on the captured object
			if fv, isFV := root.(*ssa.FreeVar); isFV && cs.Caller.Parent() != nil {
				if closureRunsUnderLock(cs.Caller, fv, mutex, mode, ls) {
					continue
				}
			}
			// caller itself may be called-with-lock
			pi := -1
			for i, p := range cs.Caller.Params {
				if ssa.Value(p) == root {
					pi = i
				}
			}
			if pi >= 0 {
				if ok, _ := callersHold(cs.Caller, pi, mutex, mode, depth+1); ok {
					continue
				}
			}
			memo[k] = 2
			return false, "call site in " + funcName(cs.Caller) + " does not hold the lock"
		}
		if n == 0 {
			memo[k] = 2
			return false, "no static caller"
		}
		memo[k] = 1
		return true, "all callers hold the lock"
	}

	total := 0
	for _, pkg := range pkgs {
		fns := c.FuncsIn(pkg)
		sort.Slice(fns, func(i, j int) bool { return funcName(fns[i]) < funcName(fns[j]) })
		for _, fn := range fns {
			if c.isFixture(fn) {
				continue
			}
			var sets map[ssa.Instruction]lockState
			for _, row := range rows {
				accs := guardedAccesses(fn, row)
				if len(accs) == 0 {
					continue
				}
				if ctor[funcName(topFunc(fn))] {
					r.OK(rule, fn, "constructs "+lastSeg(row.Struct), nil, false, "object under single-threaded construction")
					continue
				}
				if why, ok := row.Except[funcName(fn)]; ok {
					r.OK(rule, fn, "tabled exception "+lastSeg(row.Struct), nil, false, why)
					continue
				}
				if sets == nil {
					sets = ls(fn)
				}
				bad := map[string]lockFinding{}
				nOK := 0
				for _, a := range accs {
					total++
					need := 1
					if a.write {
						need = 2
					}
					if !a.write && row.NoReadLock {
						nOK++
						continue
					}
					if sets[a.in][lk(a.root, row.Mutex)] >= need {
						nOK++
						continue
					}
					if isFreshObject(a.root) {
						nOK++
						continue
					}
					// receiver/param of a helper called with the lock held
					pi := -1
					for i, p := range fn.Params {
						if ssa.Value(p) == a.root {
							pi = i
						}
					}
					why := "lock not held on this path"
					if pi >= 0 {
						ok, w := callersHold(fn, pi, row.Mutex, need, 0)
						if ok {
							nOK++
							continue
						}
						why = w
					} else if fv, isFV := a.root.(*ssa.FreeVar); isFV && fn.Parent() != nil {
						// closure: accept if the closure is created at a point where the parent holds the lock
						// and it is only called synchronously (not go/defer-stored)
						if closureRunsUnderLock(fn, fv, row.Mutex, need, ls) {
							nOK++
							continue
						}
						why = "closure is not provably run while its creator holds the lock"
					}
					key := fmt.Sprintf("%s.%s %s", lastSeg(row.Struct), a.field, tern2(a.write, "write", "read"))
					if _, dup := bad[key]; !dup {
						bad[key] = lockFinding{a, why}
					}
				}
				if len(bad) == 0 {
					r.OK(rule, fn, "accesses "+lastSeg(row.Struct)+"{"+strings.Join(row.Fields, ",")+"}", nil, true, fmt.Sprintf("%d access(es) under %s", nOK, row.Mutex))
				}
				var keys []string
				for k := range bad {
					keys = append(keys, k)
				}
				sort.Strings(keys)
				for _, k := range keys {
					f := bad[k]
					r.Bad(rule, fn, k, f.acc.in, fmt.Sprintf("%s of %s.%s without holding %s in %s mode: %s", tern2(f.acc.write, "write", "read"), lastSeg(row.Struct), f.acc.field, row.Mutex, tern2(f.acc.write, "write", "read"), f.why))
				}
			}
		}
	}
	// atomicity across critical sections for the same rows
	checkStaleReads(c, r, rule, pkgs, rows)
	r.Extra["lock_accesses_"+rule] = total
}

func tern2(c bool, a, b string) string {
	if c {
		return a
	}
	return b
}

// closureRunsUnderLock: the closure fn (child of parent) is created where the
// parent holds the lock on the captured object and is invoked only by a direct
// call or passed to a callee that runs it synchronously (conservatively: not
// started with go and not stored).
func closureRunsUnderLock(fn *ssa.Function, fv *ssa.FreeVar, mutex string, need int, ls func(*ssa.Function) map[ssa.Instruction]lockState) bool {
	parent := fn.Parent()
	idx := -1
	for i, v := range fn.FreeVars {
		if v == fv {
			idx = i
		}
	}
	if idx < 0 {
		return false
	}
	ok := false
	sets := ls(parent)
	instrsOf(parent, func(in ssa.Instruction) {
		mc, isMC := in.(*ssa.MakeClosure)
		if !isMC || mc.Fn != fn {
			return
		}
		bound := mc.Bindings[idx]
		root := rootOf(bound)
		// bound is the address of the variable holding the pointer: look through
		if al, isAl := bound.(*ssa.Alloc); isAl {
			for _, rf := range *al.Referrers() {
				if st, isSt := rf.(*ssa.Store); isSt && st.Addr == al {
					root = rootOf(st.Val)
				}
			}
		}
		held := sets[in][lk(root, mutex)] >= need
		if !held {
			return
		}
		// uses of the closure value
		good := true
		for _, rf := range *mc.Referrers() {
			switch x := rf.(type) {
			case *ssa.Go:
				good = false
			case *ssa.Defer:
				// runs at function exit; deferred unlock registered earlier runs AFTER it (LIFO) only if
				// registered before — accept
			case *ssa.Store:
				good = false
			case ssa.CallInstruction:
				_ = x
			}
		}
		if good {
			ok = true
		}
	})
	return ok
}

var _ = types.Typ
