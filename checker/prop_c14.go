package main

import (
	"fmt"
	"go/token"
	"go/types"
	"strings"

	"golang.org/x/tools/go/ssa"
)

func init() { register("C14", checkC14) }

const (
	pkgConn = "lib/torrent/scheduler/conn"
	pkgP2P  = "gen/go/proto/p2p"
)

var p2pBodies = map[string]bool{
	pkgP2P + ".AnnouncePieceMessage": true, pkgP2P + ".PieceRequestMessage": true, pkgP2P + ".PiecePayloadMessage": true,
	pkgP2P + ".ErrorMessage": true, pkgP2P + ".CancelPieceMessage": true, pkgP2P + ".BitfieldMessage": true,
	pkgP2P + ".CompleteMessage": true,
}

// nonNilFact: value x (by root) is known non-nil.
func nonNilFact(x ssa.Value) FactFn {
	rx := rootOf(x)
	return func(cond ssa.Value, val bool) int {
		b, ok := cond.(*ssa.BinOp)
		if !ok || (b.Op != token.EQL && b.Op != token.NEQ) {
			return 0
		}
		var other ssa.Value
		switch {
		case isNilConst(b.Y):
			other = b.X
		case isNilConst(b.X):
			other = b.Y
		default:
			return 0
		}
		if rootOf(other) != rx && !sameIndexValue(other, x) {
			return 0
		}
		nonNil := (b.Op == token.NEQ) == val
		return tern(nonNil, 1, -1)
	}
}

func checkC14(c *Ctx, r *Report) {
	r.Explain = "Validation of everything a remote peer controls before it reaches an operation that can panic, allocate or index: (R1) the optional body of a wire message is dereferenced only where it was tested non-nil (or was built locally); (R2) a length taken from the wire reaches make() only with an upper bound (and a lower bound if signed); (R3) an index taken from the wire reaches the per-piece counters, a bitset mutator or a piece table only with both bounds, or comes from iterating a bitfield whose length was compared with the torrent's piece count; (R4) a bitfield received from a peer is decoded only after its declared length was checked against the bytes received; (R7) and leaves its decoder only where no bit at or beyond the declared length is set (the library keeps the whole last word, so R3's 'length equals piece count' bounds the set bits only with this); (R5) unknown message types are rejected; (R6) both torrent implementations bound the piece index before using it."
	r.NotDecided = "Resource exhaustion by many individually valid messages; panics inside third-party code outside the effect table (bitset.UnmarshalBinary allocates the declared length before reading; protobuf decoding is bounded by the frame cap)."
	pkgs := []string{pkgConn, pkgDispatch}

	// R1 nil bodies
	r1 := r.Rule("R1", "E-TAINT(nil)", "every field access through a pointer to a p2p message body in the conn and dispatch packages is guarded by a nil test of that pointer, goes through a locally constructed message, or uses the generated nil-safe getters", 6)
	n1 := 0
	for _, pkg := range pkgs {
		for _, fn := range c.FuncsIn(pkg) {
			if c.isFixture(fn) {
				continue
			}
			done := map[ssa.Value]bool{}
			instrsOf(fn, func(in ssa.Instruction) {
				fa, ok := in.(*ssa.FieldAddr)
				if !ok {
					return
				}
				pt, isPtr := fa.X.Type().Underlying().(*types.Pointer)
				if !isPtr || !p2pBodies[typeName(pt)] {
					return
				}
				root := rootOf(fa.X)
				if _, fresh := root.(*ssa.Alloc); fresh {
					return
				}
				if done[root] && false {
					return
				}
				n1++
				ok2 := guardedBy(fa, nonNilFact(fa.X))
				r.Check(ok2, r1, fn, "deref "+lastSeg(typeName(pt))+"."+lastSegField(fa), fa, "pointer tested non-nil", "a message body received from a remote peer is dereferenced without a nil test: a message whose type announces a body that is absent crashes the process")
			})
		}
	}
	if n1 == 0 {
		r.Unresolved(r1, "no dereference of a p2p message body found")
	}

	// R2 make with remote length
	r2 := r.Rule("R2", "E-TAINT(int)", "every non-constant length given to make([]byte, n) in the conn package has an established upper bound, and a lower bound when its type is signed", 2)
	for _, fn := range c.FuncsIn(pkgConn) {
		if c.isFixture(fn) {
			continue
		}
		instrsOf(fn, func(in ssa.Instruction) {
			mk, ok := in.(*ssa.MakeSlice)
			if !ok {
				return
			}
			if _, isK := intConst(mk.Len); isK {
				return
			}
			var base ssa.Value = mk.Len
			for i := 0; i < 4; i++ {
				if cv, isCv := base.(*ssa.Convert); isCv {
					base = cv.X
				}
			}
			// lengths of local data (len(x)) are not remote
			if cl, isC := base.(*ssa.Call); isC {
				if bi, isB := cl.Call.Value.(*ssa.Builtin); isB && bi.Name() == "len" {
					return
				}
			}
			lo, up := boundFacts(mk, base)
			signed := true
			if bt, isB := base.Type().Underlying().(*types.Basic); isB && bt.Info()&types.IsUnsigned != 0 {
				signed = false
			}
			okb := up && (lo || !signed)
			if !okb {
				if okL, _ := indexBounded(c, fn, mk, base, 0); okL {
					okb = true
				}
			}
			if !okb {
				// the length is the result of a helper of the package that returns it
				// only where it established the bounds, and the helper's error was checked
				if ex, isEx := base.(*ssa.Extract); isEx {
					if cl, isC := ex.Tuple.(*ssa.Call); isC {
						if sf := cl.Common().StaticCallee(); sf != nil && sf.Pkg == fn.Pkg && inSuccessRegion(cl, mk) {
							all, n := true, 0
							for _, ret := range returnsOf(sf) {
								if classifyReturn(ret) == RetFailure || ex.Index >= len(ret.Results) {
									continue
								}
								n++
								rv := unspill(ret.Results[ex.Index])
								for i := 0; i < 3; i++ {
									if cv, isCv := rv.(*ssa.Convert); isCv {
										rv = cv.X
									}
								}
								l2, u2 := boundFacts(ret, rv)
								s2 := true
								if bt, isB := rv.Type().Underlying().(*types.Basic); isB && bt.Info()&types.IsUnsigned != 0 {
									s2 = false
								}
								if !(u2 && (l2 || !s2)) {
									all = false
								}
							}
							if all && n > 0 {
								okb = true
							}
						}
					}
				}
			}
			r.Check(okb, r2, fn, "make([]byte, n)", mk, "n bounded", fmt.Sprintf("a buffer is allocated with a length taken from the wire without bounds (upper=%v lower=%v signed=%v): a negative length panics, a huge one exhausts memory", up, lo, signed))
		})
	}

	// R3 indices
	r3 := r.Rule("R3", "E-TAINT(int)", "indices passed to syncutil.Counters methods and to bitfield mutators in the dispatcher are bounded on both sides, or come from iterating a bitfield whose length equals the piece count", 5)
	counters := map[string]bool{"Increment": true, "Decrement": true, "Get": true, "Set": true}
	for _, fn := range c.FuncsIn(pkgDispatch) {
		if c.isFixture(fn) {
			continue
		}
		for _, cs := range callsIn(fn) {
			var idx ssa.Value
			what := ""
			switch {
			case strings.HasPrefix(cs.Callee, "(utils/syncutil.Counters).") && counters[lastSeg(cs.Callee)]:
				idx, what = cs.Instr.Common().Args[1], "Counters."+lastSeg(cs.Callee)
			case cs.Callee == "(*"+pkgDispatch+".syncBitfield).Set":
				idx, what = cs.Instr.Common().Args[1], "bitfield.Set"
			default:
				continue
			}
			// from iteration over GetAllSet()/range of a validated bitfield, or a range over pieces
			iter := false
			for _, l := range rangeLoops(fn) {
				if !l.derivesFromElem(idx) {
					continue
				}
				if mentionsCall(l.Ranged, "(*"+pkgDispatch+".syncBitfield).GetAllSet", "(*github.com/willf/bitset.BitSet).GetAllSet") ||
					mentionsCall(l.Ranged, "(lib/torrent/storage.Torrent).MissingPieces") {
					iter = true
				}
			}
			if iter {
				// the iterated bitfield must be length-checked here or be a peer's stored bitfield
				okLen := guardedBy(cs.Instr, eqFact(func(b *ssa.BinOp) bool {
					l := func(v ssa.Value) bool { return mentionsCall(v, "(*github.com/willf/bitset.BitSet).Len") }
					n := func(v ssa.Value) bool { return mentionsCall(v, "(lib/torrent/storage.Torrent).NumPieces", "(*"+pkgDispatch+".torrentAccessWatcher).NumPieces") }
					return l(b.X) && n(b.Y) || l(b.Y) && n(b.X)
				}, true))
				stored := mentionsField(idx, pkgDispatch+".peer.bitfield") || mentions(idx, func(v ssa.Value) bool { return mentionsField(v, pkgDispatch+".peer.bitfield") }, 8)
				if !stored {
					for _, l := range rangeLoops(fn) {
						if l.derivesFromElem(idx) && mentionsField(l.Ranged, pkgDispatch+".peer.bitfield") {
							stored = true
						}
					}
				}
				// a peer's stored bitfield was validated when the peer was added in this same function?
				r.Check(okLen || stored && peerBitfieldValidatedAtAdd(c), r3, fn, what+" (iterating bitfield)", cs.Instr, "bitfield length == piece count", "per-piece counters are indexed by the set bits of a peer-supplied bitfield whose length was not compared with the torrent's piece count")
				continue
			}
			okB, why := indexBounded(c, fn, cs.Instr, idx, 0)
			r.Check(okB, r3, fn, what, cs.Instr, why, "an index taken from a peer message reaches "+what+" without both bounds: "+why)
		}
	}

	// R4 bitfield decoding
	r4 := r.Rule("R4", "E-TAINT(bytes)", "BitSet.UnmarshalBinary is applied to bytes received from a peer only where the declared bit count was compared with the number of bytes that follow", 1)
	r7 := r.Rule("R7", "E-GUARD", "a function that decodes a bitset from received bytes returns it only on the not-found side of NextSet(Len()) on that bitset (no set bit at or beyond the declared length)", 1)
	for _, pkg := range pkgs {
		for _, fn := range c.FuncsIn(pkg) {
			if c.isFixture(fn) {
				continue
			}
			for _, cs := range callsInNamed(fn, "(*github.com/willf/bitset.BitSet).UnmarshalBinary", "(*github.com/willf/bitset.BitSet).ReadFrom") {
				data := cs.Instr.Common().Args[1]
				ok := guardedBy(cs.Instr, func(cond ssa.Value, val bool) int {
					b, isB := cond.(*ssa.BinOp)
					if !isB {
						return 0
					}
					decl := func(v ssa.Value) bool {
						return mentions(v, func(w ssa.Value) bool {
							cl, isC := w.(*ssa.Call)
							return isC && strings.HasSuffix(calleeName(cl.Common()), "Endian).Uint64") || isC && strings.HasSuffix(calleeName(cl.Common()), "ByteOrder).Uint64")
						}, 5)
					}
					avail := func(v ssa.Value) bool {
						return mentions(v, func(w ssa.Value) bool {
							cl, isC := w.(*ssa.Call)
							if !isC {
								return false
							}
							bi, isBi := cl.Call.Value.(*ssa.Builtin)
							return isBi && bi.Name() == "len" && cl.Call.Args[0] == data
						}, 6)
					}
					over := false
					switch {
					case decl(b.X) && avail(b.Y):
						switch b.Op {
						case token.GTR, token.GEQ, token.NEQ:
							over = val
						case token.LEQ, token.LSS, token.EQL:
							over = !val
						default:
							return 0
						}
					case decl(b.Y) && avail(b.X):
						switch b.Op {
						case token.LSS, token.LEQ, token.NEQ:
							over = val
						case token.GEQ, token.GTR, token.EQL:
							over = !val
						default:
							return 0
						}
					default:
						return 0
					}
					return tern(over, -1, 1)
				})
				r.Check(ok, r4, fn, "UnmarshalBinary", cs.Instr, "declared length checked against received bytes", "a bitfield received from a peer is decoded without checking its declared bit count: the decoder allocates that many bits before reading (memory exhaustion from a 16-byte message)")
				// R7: the decoder keeps whatever is in the last word, so "Len() == piece
				// count" (R3's iteration clause) bounds the set bits only if the decoded
				// set leaves the function where NextSet(Len()) found nothing.
				recv := cs.Instr.Common().Args[0]
				nret := 0
				for _, ret := range returnsOf(fn) {
					if classifyReturn(ret) == RetFailure {
						continue
					}
					nret++
					clean := guardedBy(ret, func(cond ssa.Value, val bool) int {
						ex, isE := cond.(*ssa.Extract)
						if !isE || ex.Index != 1 {
							return 0
						}
						ns, isC := ex.Tuple.(*ssa.Call)
						if !isC || calleeName(ns.Common()) != "(*github.com/willf/bitset.BitSet).NextSet" || ns.Call.Args[0] != recv {
							return 0
						}
						ln, isL := ns.Call.Args[1].(*ssa.Call)
						if !isL || calleeName(ln.Common()) != "(*github.com/willf/bitset.BitSet).Len" || ln.Call.Args[0] != recv {
							return 0
						}
						return tern(val, -1, 1)
					})
					r.Check(clean, r7, fn, "no bit beyond the declared length", ret, "returned only where NextSet(Len()) found no bit", "a bitfield decoded from a peer's bytes is accepted although bits beyond its declared length may be set (the decoder keeps the whole last word): consumers index per-piece tables with every set bit after comparing only Len() with the piece count")
				}
				if nret == 0 {
					r.Undecided(r7, fn, "decoder returns", cs.Instr, "no success return found in the decoding function")
				}
			}
		}
	}

	// R5 unknown types
	r5 := r.Rule("R5", "E-EXHAUST", "Dispatcher.dispatch returns an error for message types it does not handle; the handshake decoder rejects non-bitfield messages", 2)
	if dp := r.MustFunc(r5, "(*"+pkgDispatch+".Dispatcher).dispatch"); dp != nil {
		fails := 0
		for _, ret := range returnsOf(dp) {
			if classifyReturn(ret) == RetFailure {
				fails++
			}
		}
		r.Check(fails >= 1, r5, dp, "default rejects", nil, "unknown type ⇒ error", "unknown message types are not rejected")
	}
	if hs := r.MustFunc(r5, pkgConn+".handshakeFromP2PMessage"); hs != nil {
		ok := false
		for _, ret := range returnsOf(hs) {
			if classifyReturn(ret) != RetFailure {
				if guardedBy(ret, eqFact(func(b *ssa.BinOp) bool {
					return mentionsField(b.X, pkgP2P+".Message.Type") || mentionsField(b.Y, pkgP2P+".Message.Type")
				}, true)) {
					ok = true
				}
			}
		}
		r.Check(ok, r5, hs, "type checked", nil, "success only for BITFIELD messages", "the handshake decoder accepts messages of another type")
	}

	// R8: the two handshake fields that name the torrent are cross-checked. The
	// pending slot is keyed by the info hash the peer sent; the conn is keyed by the
	// info hash of the torrent its digest names. Unless they are equal the slot is
	// never released (MovePendingToActive misses it).
	r8 := r.Rule("R8", "E-GUARD", "Handshaker.Establish(pc, info, …) is called only on the equal side of a comparison of info.InfoHash() with pc.InfoHash()", 1)
	for _, cs := range c.CallsTo("(*" + pkgConn + ".Handshaker).Establish") {
		fn := cs.Caller
		if c.isFixture(fn) {
			continue
		}
		a := cs.Instr.Common().Args
		pcv, infov := a[1], a[2]
		ok := guardedBy(cs.Instr, eqFact(func(b *ssa.BinOp) bool {
			ih := func(v ssa.Value) bool {
				cl, isC := v.(*ssa.Call)
				return isC && calleeName(cl.Common()) == "(*lib/torrent/storage.TorrentInfo).InfoHash" && cl.Call.Args[0] == infov
			}
			ph := func(v ssa.Value) bool {
				cl, isC := v.(*ssa.Call)
				return isC && calleeName(cl.Common()) == "(*"+pkgConn+".PendingConn).InfoHash" && cl.Call.Args[0] == pcv
			}
			return ih(b.X) && ph(b.Y) || ih(b.Y) && ph(b.X)
		}, true))
		r.Check(ok, r8, fn, "handshake info hash matches its digest", cs.Instr, "info.InfoHash() == pc.InfoHash()", "an incoming handshake is established although the info hash the peer sent was not compared with the info hash of the torrent its digest names: the pending slot reserved under the peer's value is never released, so a remote peer can use up another torrent's connection capacity")
	}

	// R6 torrents bound the index
	r6 := r.Rule("R6", "E-TAINT(int)", "agent and origin torrents use a piece index (table index, file offset, reader construction) only with both bounds established", 2)
	importRulesInto(c, r, r6)
	const og = "lib/torrent/storage/originstorage"
	if gp := r.MustFunc(r6, "(*"+og+".Torrent).GetPieceReader"); gp != nil {
		for _, cs := range callsInNamed(gp, "lib/torrent/storage/piecereader.NewFileReader") {
			okB, why := indexBounded(c, gp, cs.Instr, gp.Params[1], 0)
			r.Check(okB, r6, gp, "origin piece reader", cs.Instr, why, "the origin builds a piece reader for an index without both bounds: a peer can make it read outside the blob")
		}
	}
}

// peerBitfieldValidatedAtAdd: the only constructor call of dispatch.peer with a
// caller-supplied bitfield (addPeer) checks its length (decided by R3 at that site).
func peerBitfieldValidatedAtAdd(c *Ctx) bool {
	ap := c.Func("(*" + pkgDispatch + ".Dispatcher).addPeer")
	if ap == nil {
		return false
	}
	ok := true
	for _, cs := range c.CallsTo(pkgDispatch + ".newPeer") {
		if c.isFixture(cs.Caller) {
			continue
		}
		if cs.Caller != ap {
			ok = false
			continue
		}
		if !guardedBy(cs.Instr, eqFact(func(b *ssa.BinOp) bool {
			l := func(v ssa.Value) bool { return mentionsCall(v, "(*github.com/willf/bitset.BitSet).Len") }
			n := func(v ssa.Value) bool { return mentionsCall(v, "(lib/torrent/storage.Torrent).NumPieces", "(*"+pkgDispatch+".torrentAccessWatcher).NumPieces") }
			return l(b.X) && n(b.Y) || l(b.Y) && n(b.X)
		}, true)) {
			ok = false
		}
	}
	return ok
}

// importRulesInto copies the index-bounds obligations on the agent torrent (C03.R4).
func importRulesInto(c *Ctx, r *Report, rule string) {
	sub := NewReport(c, "C03", r.Tier)
	checkC03(c, sub)
	for _, o := range sub.Obls {
		if o.Rule != "C03.R4" || !strings.Contains(o.Key, "index Torrent.pieces") && !strings.Contains(o.Key, "index and length") {
			continue
		}
		n := *o
		n.Property = r.Prop
		n.Rule = rule
		n.Key = strings.Replace(o.Key, o.Rule, rule, 1)
		r.Obls = append(r.Obls, &n)
		r.Rules[rule].Instances++
	}
}
