package main

import (
	"fmt"
	"go/constant"
	"go/token"
	"go/types"
	"path/filepath"
	"sort"
	"strings"

	"golang.org/x/tools/go/ssa"
)

func init() { register("C11", checkC11) }

// ---- E-ABSTR: evaluation of a name guard over representative name classes ----

type absEval struct {
	name    *ssa.Parameter
	rep     string
	unknown string
	depth   int
	phis    map[*ssa.Phi]bool
}

func (e *absEval) str(v ssa.Value) (string, bool) {
	switch x := v.(type) {
	case *ssa.Parameter:
		if x == e.name {
			return e.rep, true
		}
	case *ssa.Const:
		if x.Value != nil && x.Value.Kind() == constant.String {
			return constant.StringVal(x.Value), true
		}
	case *ssa.Call:
		n := calleeName(x.Common())
		if (n == "path/filepath.Clean" || n == "path.Clean") && len(x.Call.Args) == 1 {
			if s, ok := e.str(x.Call.Args[0]); ok {
				return filepath.Clean(s), true
			}
		}
		if n == "path/filepath.ToSlash" || n == "path/filepath.FromSlash" {
			return e.str(x.Call.Args[0])
		}
		if n == "strings.TrimSpace" {
			if s, ok := e.str(x.Call.Args[0]); ok {
				return strings.TrimSpace(s), true
			}
		}
	}
	e.unknown = "string expression " + v.String()
	return "", false
}

func (e *absEval) boolean(v ssa.Value) (bool, bool) {
	switch x := v.(type) {
	case *ssa.Const:
		if x.Value != nil && x.Value.Kind() == constant.Bool {
			return constant.BoolVal(x.Value), true
		}
	case *ssa.UnOp:
		if x.Op == token.NOT {
			b, ok := e.boolean(x.X)
			return !b, ok
		}
	case *ssa.Phi:
		// a boolean assembled with && / || (or assigned on branches): its value was
		// fixed by the edge on which the walk entered the phi's block
		if b, ok := e.phis[x]; ok {
			return b, true
		}
	case *ssa.BinOp:
		// err (==|!=) nil where err is the result of a helper that checks the name:
		// the helper is evaluated for the same representative
		if (x.Op == token.EQL || x.Op == token.NEQ) && (isNilConst(x.Y) || isNilConst(x.X)) {
			side := x.X
			if isNilConst(x.X) {
				side = x.Y
			}
			if cl, ok := side.(*ssa.Call); ok {
				if h := cl.Common().StaticCallee(); h != nil && len(h.Blocks) > 0 && e.depth < 3 {
					for i, a := range cl.Common().Args {
						if a == ssa.Value(e.name) && i < len(h.Params) {
							sub := &absEval{name: h.Params[i], rep: e.rep, depth: e.depth + 1}
							switch sub.run(h) {
							case "accept":
								return x.Op == token.EQL, true
							case "reject":
								return x.Op == token.NEQ, true
							}
							e.unknown = sub.unknown
							return false, false
						}
					}
				}
			}
		}
		if b, ok := x.X.Type().Underlying().(*types.Basic); ok && b.Info()&types.IsString != 0 {
			l, ok1 := e.str(x.X)
			r, ok2 := e.str(x.Y)
			if ok1 && ok2 {
				switch x.Op {
				case token.EQL:
					return l == r, true
				case token.NEQ:
					return l != r, true
				}
			}
			return false, false
		}
		// len(name) compared with a constant
		if c, ok := x.X.(*ssa.Call); ok {
			if bi, ok := c.Call.Value.(*ssa.Builtin); ok && bi.Name() == "len" {
				if s, ok := e.str(c.Call.Args[0]); ok {
					if k, ok := intConst(x.Y); ok {
						n := int64(len(s))
						switch x.Op {
						case token.EQL:
							return n == k, true
						case token.NEQ:
							return n != k, true
						case token.LSS:
							return n < k, true
						case token.GTR:
							return n > k, true
						case token.LEQ:
							return n <= k, true
						case token.GEQ:
							return n >= k, true
						}
					}
				}
			}
		}
	case *ssa.Call:
		n := calleeName(x.Common())
		a := x.Call.Args
		two := func(f func(string, string) bool) (bool, bool) {
			l, ok1 := e.str(a[0])
			r, ok2 := e.str(a[1])
			if !ok1 || !ok2 {
				return false, false
			}
			return f(l, r), true
		}
		switch n {
		case "strings.HasPrefix":
			return two(strings.HasPrefix)
		case "strings.HasSuffix":
			return two(strings.HasSuffix)
		case "strings.Contains":
			return two(strings.Contains)
		case "path/filepath.IsAbs":
			if s, ok := e.str(a[0]); ok {
				return filepath.IsAbs(s), true
			}
		case "path/filepath.IsLocal":
			if s, ok := e.str(a[0]); ok {
				return filepath.IsLocal(s), true
			}
		}
	}
	if e.unknown == "" {
		e.unknown = "condition " + v.String() + " (" + fmt.Sprintf("%T", v) + ")"
	}
	return false, false
}

// run walks fn for the representative; returns "accept", "reject" or "unknown".
func (e *absEval) run(fn *ssa.Function) string {
	b := fn.Blocks[0]
	var prev *ssa.BasicBlock
	if e.phis == nil {
		e.phis = map[*ssa.Phi]bool{}
	}
	for steps := 0; steps < 200; steps++ {
		if prev != nil {
			// fix the boolean phis of the block just entered (all read their
			// operands as of the edge, so evaluate first, then assign)
			vals := map[*ssa.Phi]bool{}
			for _, in := range b.Instrs {
				phi, isPhi := in.(*ssa.Phi)
				if !isPhi {
					break
				}
				for i, p := range b.Preds {
					if p == prev {
						saved := e.unknown
						if v, ok := e.boolean(phi.Edges[i]); ok {
							vals[phi] = v
						}
						e.unknown = saved
					}
				}
			}
			for phi, v := range vals {
				e.phis[phi] = v
			}
		}
		prev = b
		last := b.Instrs[len(b.Instrs)-1]
		switch x := last.(type) {
		case *ssa.If:
			v, ok := e.boolean(x.Cond)
			if !ok {
				return "unknown"
			}
			if v {
				b = b.Succs[0]
			} else {
				b = b.Succs[1]
			}
		case *ssa.Jump:
			b = b.Succs[0]
		case *ssa.Return:
			switch classifyReturn(x) {
			case RetSuccess:
				return "accept"
			case RetFailure:
				return "reject"
			}
			e.unknown = "return value cannot be classified"
			return "unknown"
		default:
			e.unknown = "unexpected terminator"
			return "unknown"
		}
	}
	e.unknown = "loop"
	return "unknown"
}

// escapes: does dir/<name>/data leave dir?
func escapes(name string) bool {
	const dir = "/srv/store/cache"
	p := filepath.Join(dir, name, "data")
	rel, err := filepath.Rel(dir, p)
	if err != nil {
		return true
	}
	return rel == ".." || strings.HasPrefix(rel, "../")
}

var nameReps = []string{
	"..", "../x", "../../x", "../cache.old/private", "../cachex", "a/../../x", "a/../..", "a/b/../../../x",
	"..//x", "./../x", "x/../../y", "../", "a/..", "a/../b",
	".", "", "x", "x/y", "...", "..x", "x/..y", "x/", "/x", "/", "x//y", "./x", "x/./y", "sha256:abc", "x y",
}

func checkC11(c *Ctx, r *Report) {
	r.Explain = "Path confinement of store names: (R2) the local file-entry factory's name guard is evaluated abstractly over representative name classes (parent references, traversal after cleaning, sibling-prefix names, absolute, trailing slash, unclean, plain); every class whose join with the state directory leaves it must reach a rejecting return, and a guard atom outside the evaluator's table makes the check undecided (fails); (R1) names reaching the content-addressed stores (whose factory performs no check) from request handlers pass through a validated core.Digest; (R3) every os.* path used by a file entry is built from the state directory joined with the factory's relative path."
	r.NotDecided = "Symlinks inside store directories; names that stay inside the directory but collide with sidecar file names."
	r2 := r.Rule("R2", "E-ABSTR", "localFileEntryFactory.Create rejects every representative name whose join with the state directory escapes it", 1)
	if fn := r.MustFunc(r2, "(*lib/store/base.localFileEntryFactory).Create"); fn != nil {
		var bad, unk []string
		nEsc := 0
		for _, rep := range nameReps {
			e := &absEval{name: fn.Params[1], rep: rep}
			out := e.run(fn)
			esc := escapes(rep)
			if esc {
				nEsc++
			}
			switch {
			case out == "unknown":
				unk = append(unk, fmt.Sprintf("%q: %s", rep, e.unknown))
			case esc && out == "accept":
				bad = append(bad, fmt.Sprintf("%q", rep))
			}
		}
		r.Extra["R2_representatives"] = len(nameReps)
		r.Extra["R2_escaping_representatives"] = nEsc
		if len(unk) > 0 {
			sort.Strings(unk)
			r.Undecided(r2, fn, "name guard", nil, "the guard uses a test the abstract evaluator has no table entry for, so containment cannot be decided: "+strings.Join(unk[:min(3, len(unk))], "; "))
		} else {
			r.Check(len(bad) == 0, r2, fn, "name guard", nil, fmt.Sprintf("%d representatives (%d escaping) all classified; every escaping one rejected", len(nameReps), nEsc),
				"names that resolve outside the state directory are accepted: "+strings.Join(bad, ", "))
		}
		// the accepted name is used unchanged for the entry and its relative path
		ok := false
		for _, cs := range callsInNamed(fn, "lib/store/base.newLocalFileEntry") {
			a := cs.Instr.Common().Args
			if a[1] == fn.Params[1] && mentions(a[2], func(v ssa.Value) bool { return v == fn.Params[1] }, 4) {
				ok = true
			}
		}
		r.Check(ok, r2, fn, "entry built from the checked name", nil, "same value checked and used", "the entry is built from a different value than the one the guard checked")
	}
	if fn := r.MustFunc(r2, "(*lib/store/base.localFileEntryFactory).GetRelativePath"); fn != nil {
		ok := false
		for _, ret := range returnsOf(fn) {
			if cl, isC := ret.Results[0].(*ssa.Call); isC && calleeName(cl.Common()) == "path/filepath.Join" {
				ok = true
			}
		}
		r.Check(ok, r2, fn, "relative path", nil, "filepath.Join(name, data file)", "relative path is no longer name joined with the data file name (the abstract model of the guard assumes it)")
	}

	// R3: paths in file entry
	r3 := r.Rule("R3", "E-OWN(flow)", "every path given to an os.* call by a localFileEntry method derives from GetPath()/getMetadataPath() (state directory + relative path) or is the explicit external path of MoveFrom/LinkTo", 8)
	osPathFuncs := map[string]bool{"os.Stat": true, "os.MkdirAll": true, "os.Create": true, "os.RemoveAll": true, "os.Remove": true, "os.Rename": true, "os.ReadFile": true, "os.WriteFile": true, "os.OpenFile": true, "os.Open": true, "os.ReadDir": true, "os.Link": true, "os.Symlink": true, "os.Lstat": true, "os.Truncate": true}
	for _, fn := range c.FuncsIn(pkgBase) {
		if c.isFixture(fn) || recvTypeName(topFunc(fn)) != pkgBase+".localFileEntry" {
			continue
		}
		for _, cs := range callsIn(fn) {
			if !osPathFuncs[cs.Callee] {
				continue
			}
			args := cs.Instr.Common().Args
			npath := 1
			if cs.Callee == "os.Rename" || cs.Callee == "os.Link" || cs.Callee == "os.Symlink" {
				npath = 2
			}
			for i := 0; i < npath; i++ {
				a := args[i]
				okp := mentions(a, func(v ssa.Value) bool {
					if isCallTo(v, "(*"+pkgBase+".localFileEntry).GetPath", "(*"+pkgBase+".localFileEntry).getMetadataPath", "("+pkgBase+".FileState).GetDirectory") {
						return true
					}
					if isFieldRef(v, pkgBase+".localFileEntry.relativeDataPath") {
						return true
					}
					if p, isP := v.(*ssa.Parameter); isP {
						tf := topFunc(fn)
						n := tf.Name()
						// external path parameters of MoveFrom / LinkTo
						return (n == "MoveFrom" || n == "LinkTo") && p.Parent() == tf && p.Type().String() == "string"
					}
					// closure free variables bound to such values
					if fv, isFV := v.(*ssa.FreeVar); isFV {
						return strings.Contains(strings.ToLower(fv.Name()), "path")
					}
					return false
				}, 10)
				r.Check(okp, r3, fn, cs.Callee+" path", cs.Instr, "path derived from the entry's state directory", "an os call in a file entry method uses a path that is not derived from the entry's state directory and relative path")
			}
		}
	}

	// R1: names reaching CAS-backed stores from handlers are digests
	r1 := r.Rule("R1", "E-TAINT(lite)", "outside lib/store, every name argument of a method of the content-addressed stores (CAStore, CADownloadStore and its scopes — their factory does not validate names) is produced by core.Digest.Hex(), by the store's own listing, or is a task/entry name that was itself built from a digest", 20)
	casTypes := map[string]bool{"lib/store.CAStore": true, "lib/store.CADownloadStore": true, "lib/store.CADownloadStoreScope": true, "lib/store.cacheStore": true}
	okSources := []string{"(core.Digest).Hex", "(*lib/store.CAStore).ListCacheFiles", "(*lib/store.cacheStore).ListCacheFiles", "(*lib/store.CADownloadStoreScope).ListFiles"}
	n1 := 0
	for _, fn := range c.Funcs {
		if c.isFixture(fn) || strings.HasPrefix(pkgOf(fn), "lib/store") {
			continue
		}
		for _, cs := range callsIn(fn) {
			cc := cs.Instr.Common()
			var recvT string
			var params *types.Tuple
			var args []ssa.Value
			if cc.IsInvoke() {
				continue
			}
			sc := cc.StaticCallee()
			if sc == nil || sc.Signature.Recv() == nil {
				continue
			}
			recvT = typeName(sc.Signature.Recv().Type())
			if !casTypes[recvT] {
				continue
			}
			params = sc.Signature.Params()
			args = cc.Args[1:]
			for i := 0; i < params.Len() && i < len(args); i++ {
				pn := params.At(i).Name()
				if !(pn == "name" || pn == "cacheName" || pn == "uploadName") || params.At(i).Type().String() != "string" {
					continue
				}
				if pn == "uploadName" {
					continue // upload names live in the upload store (local factory, guarded by R2)
				}
				n1++
				a := args[i]
				ok := mentions(a, func(v ssa.Value) bool {
					if isCallTo(v, okSources...) {
						return true
					}
					// fields that hold digest hex by construction: writeback task name, memory entry name, metainfo name
					if fnm, isF := fieldName(v); isF {
						switch fnm {
						case "lib/persistedretry/writeback.Task.Name", "utils/cache.MemoryEntry.Name":
							return true
						}
					}
					return false
				}, 8)
				if !ok {
					// parameter of the enclosing function: lift one level
					if p, isP := nameRoot(a).(*ssa.Parameter); isP {
						ok = callersPassDigest(c, topFunc(fn), p, okSources)
					}
				}
				r.Check(ok, r1, fn, sc.Name()+"("+pn+")", cs.Instr, "name is a digest hex", "a name that is not provably the hex of a validated digest reaches a content-addressed store method, whose file-entry factory performs no path check")
			}
		}
	}
	r.Extra["R1_sites"] = n1
}

// callersPassDigest: every static caller passes a digest-derived value for parameter p.
func callersPassDigest(c *Ctx, fn *ssa.Function, p *ssa.Parameter, okSources []string, depth ...int) bool {
	idx := -1
	for i, q := range fn.Params {
		if q == p {
			idx = i
		}
	}
	if idx < 0 {
		return false
	}
	calls := c.CallsTo(funcName(fn))
	if len(calls) == 0 {
		return false
	}
	for _, cs := range calls {
		if c.isFixture(cs.Caller) {
			continue
		}
		a := cs.Instr.Common().Args
		if idx >= len(a) {
			return false
		}
		if !mentions(a[idx], func(v ssa.Value) bool { return isCallTo(v, okSources...) }, 8) {
			// the caller may itself only pass its own parameter on (a helper extracted
			// from a handler's callee): lift again, a bounded number of levels
			if q, isP := nameRoot(a[idx]).(*ssa.Parameter); isP && len(depth) < 3 {
				if callersPassDigest(c, topFunc(cs.Caller), q, okSources, append(depth, 1)...) {
					continue
				}
			}
			return false
		}
	}
	return true
}
