package main

import (
	"fmt"
	"go/token"

	"golang.org/x/tools/go/ssa"
)

func init() { register("C16", checkC16) }

const pkgConnstate = "lib/torrent/scheduler/connstate"

// connsWriters: functions of connstate that write the conns table (map update or
// delete on State.conns or on an inner map loaded from it).
func connsWriters(c *Ctx) (writers []*ssa.Function, deleters map[*ssa.Function]bool) {
	deleters = map[*ssa.Function]bool{}
	const f = pkgConnstate + ".State.conns"
	for _, fn := range c.FuncsIn(pkgConnstate) {
		if c.isFixture(fn) {
			continue
		}
		w := false
		instrsOf(fn, func(in ssa.Instruction) {
			switch x := in.(type) {
			case *ssa.MapUpdate:
				if mentionsField(x.Map, f) {
					w = true
				}
			case *ssa.Call:
				if b, ok := x.Call.Value.(*ssa.Builtin); ok && b.Name() == "delete" && mentionsField(x.Call.Args[0], f) {
					w = true
					deleters[fn] = true
				}
			}
		})
		if w {
			writers = append(writers, fn)
		}
	}
	return
}

func checkC16(c *Ctx, r *Report) {
	r.Explain = "Connection-state typestate: the conns table is written only by its two primitive mutators; an entry becomes pending only from 'uninit' and after the capacity and mutual-connection tests, becomes active only from 'pending' for an open conn, and is removed only under the matching status — for removals made on behalf of a connection only when the stored conn IS that connection; handshakes are started only after a successful reservation; blacklisted peers are skipped before dialling; all of it runs on the event loop."
	r.NotDecided = "The numeric bound over histories (pending+active <= max) is implied by the guards but not proved as an inductive invariant; blacklist expiry arithmetic."
	const fStatus = pkgConnstate + ".entry.status"
	const fConn = pkgConnstate + ".entry.conn"
	// status constants by declaration order: _uninit=0,_pending=1,_active=2 (read from the type-checked package)
	lookupConst := func(name string) (int64, bool) { return pkgIntConst(c, K+"/"+pkgConnstate, name) }
	uninit, ok0 := lookupConst("_uninit")
	pending, ok1 := lookupConst("_pending")
	active, ok2 := lookupConst("_active")
	r2 := r.Rule("R2", "E-OWN", "State.conns (outer and inner maps) is written only by the primitive mutators, which contain no policy; every other function goes through them", 2)
	if !(ok0 && ok1 && ok2) {
		r.Unresolved(r2, "status constants _uninit/_pending/_active")
		return
	}
	writers, deleters := connsWriters(c)
	W := map[*ssa.Function]bool{}
	for _, w := range writers {
		W[w] = true
		// a primitive mutator takes the key and does nothing else with policy: it must not be exported
		r.Check(!w.Object().Exported(), r2, w, "writes conns", nil, "unexported primitive", "an exported method writes the connection table directly, bypassing the guarded transitions")
	}
	if len(writers) == 0 {
		r.Unresolved(r2, "no function writes State.conns")
		return
	}

	statusIs := func(k int64, want bool) FactFn {
		return eqFact(func(b *ssa.BinOp) bool {
			if !mentionsField(b.X, fStatus) && !mentionsField(b.Y, fStatus) {
				return false
			}
			if n, ok := intConst(b.Y); ok && n == k {
				return true
			}
			if n, ok := intConst(b.X); ok && n == k {
				return true
			}
			return false
		}, want)
	}
	// R1: each call of a writer
	r1 := r.Rule("R1", "E-GUARD", "put(pending) only under status==uninit after the capacity and mutual-connection tests; put(active) only under status==pending for a non-closed conn; delete only under status==pending, or status==active with the stored conn identical to the argument", 4)
	for _, w := range writers {
		for _, cs := range c.CallsTo(funcName(w)) {
			fn := cs.Caller
			if c.isFixture(fn) || W[fn] {
				continue
			}
			if deleters[w] {
				okP := guardedBy(cs.Instr, statusIs(pending, true))
				okA := guardedBy(cs.Instr, statusIs(active, true)) && guardedBy(cs.Instr, connIdentity(fn, fConn))
				r.Check(okP || okA, r1, fn, "remove entry", cs.Instr, fmt.Sprintf("pending=%v activeSameConn=%v", okP, okA),
					"a connection entry is removed without the status guard (pending) or, for an active entry, without checking that the stored conn is the one being removed: a replacement connection can be evicted on behalf of an older one")
				continue
			}
			// put: find the status stored in the entry argument
			var st int64 = -1
			for _, a := range cs.Instr.Common().Args {
				if typeName(a.Type()) == pkgConnstate+".entry" {
					st = entryStatusOf(a, fStatus)
				}
			}
			switch st {
			case pending:
				g1 := guardedBy(cs.Instr, statusIs(uninit, true))
				g2 := guardedBy(cs.Instr, func(cond ssa.Value, val bool) int {
					// capacity: len(conns[h]) == Max  (negation wanted)
					b, ok := cond.(*ssa.BinOp)
					if !ok || !mentionsField(cond, pkgConnstate+".Config.MaxOpenConnectionsPerTorrent") {
						return 0
					}
					full := false
					switch b.Op {
					case token.EQL, token.GEQ:
						full = val
					case token.NEQ, token.LSS:
						full = !val
					default:
						return 0
					}
					if full {
						return -1
					}
					return 1
				})
				g3 := guardedBy(cs.Instr, func(cond ssa.Value, val bool) int {
					b, ok := cond.(*ssa.BinOp)
					if !ok || !mentionsField(cond, pkgConnstate+".Config.MaxMutualConnections") {
						return 0
					}
					tooMany := false
					switch b.Op {
					case token.GTR, token.GEQ:
						tooMany = val
					case token.LEQ, token.LSS:
						tooMany = !val
					default:
						return 0
					}
					if tooMany {
						return -1
					}
					return 1
				})
				r.Check(g1 && g2 && g3, r1, fn, "put(pending)", cs.Instr, "uninit ∧ capacity ∧ mutual-limit established",
					fmt.Sprintf("a pending entry is created without all of: status==uninit (%v), capacity test (%v), mutual-connection test (%v)", g1, g2, g3))
			case active:
				g1 := guardedBy(cs.Instr, statusIs(pending, true))
				g2 := guardedBy(cs.Instr, func(cond ssa.Value, val bool) int {
					if isCallTo(cond, "(*lib/torrent/scheduler/conn.Conn).IsClosed") {
						if val {
							return -1
						}
						return 1
					}
					return 0
				})
				g3 := entryConnIsParam(cs.Instr, fn, fConn)
				r.Check(g1 && g2 && g3, r1, fn, "put(active)", cs.Instr, "pending ∧ open conn ∧ stores the conn",
					fmt.Sprintf("an active entry is created without: status==pending (%v), conn not closed (%v), entry holding the conn argument (%v)", g1, g2, g3))
			default:
				r.Undecided(r1, fn, "put(?)", cs.Instr, "cannot determine the status constant stored in the entry")
			}
		}
	}

	// R5: removals on behalf of a connection need the identity guard, through any callee
	r5 := r.Rule("R5", "E-GUARD(interproc)", "in a connstate method that takes a *conn.Conn, every call from which an entry removal is reachable is guarded by 'stored conn == argument'", 1)
	D := map[*ssa.Function]bool{}
	for w := range deleters {
		D[w] = true
	}
	for changed := true; changed; {
		changed = false
		for _, fn := range c.FuncsIn(pkgConnstate) {
			if D[fn] || c.isFixture(fn) {
				continue
			}
			for _, cs := range callsIn(fn) {
				if g := c.Func(cs.Callee); g != nil && D[g] {
					D[fn] = true
					changed = true
				}
			}
		}
	}
	for _, fn := range c.FuncsIn(pkgConnstate) {
		if c.isFixture(fn) || !D[fn] {
			continue
		}
		hasConn := false
		for _, p := range fn.Params {
			if typeName(p.Type()) == "lib/torrent/scheduler/conn.Conn" {
				hasConn = true
			}
		}
		if !hasConn {
			continue
		}
		for _, cs := range callsIn(fn) {
			g := c.Func(cs.Callee)
			if g == nil || !D[g] {
				continue
			}
			r.Check(guardedBy(cs.Instr, connIdentity(fn, fConn)), r5, fn, "removal on behalf of a conn via "+g.Name(), cs.Instr, "identity guard holds",
				"an entry removal is reachable from a call made on behalf of a connection without checking that the stored conn is that connection")
		}
	}

	// R3: blacklist before dialling; R6: handshake goroutines only after a successful reservation
	defer rulesBlacklistWrites(c, r)
	r3 := r.Rule("R3", "E-GUARD", "in the announce-result event AddPending is reached only on the not-blacklisted side; handshake goroutines are started only in the success region of AddPending; failed handshakes release the reservation", 4)
	for _, cs := range c.CallsTo("(*" + pkgConnstate + ".State).AddPending") {
		fn := cs.Caller
		if c.isFixture(fn) || pkgOf(fn) != pkgSched {
			continue
		}
		if funcName(fn) == "(lib/torrent/scheduler.announceResultEvent).apply" {
			ok := guardedBy(cs.Instr, func(cond ssa.Value, val bool) int {
				if isCallTo(cond, "(*"+pkgConnstate+".State).Blacklisted") {
					if val {
						return -1
					}
					return 1
				}
				return 0
			})
			r.Check(ok, r3, fn, "AddPending (dial)", cs.Instr, "not blacklisted", "a peer from the tracker is dialled without the blacklist test")
		}
		// handshake goroutines in this function
		n := 0
		instrsOf(fn, func(in ssa.Instruction) {
			g, ok := in.(*ssa.Go)
			if !ok {
				return
			}
			cn := calleeName(g.Common())
			if cn != "(*lib/torrent/scheduler.scheduler).establishIncomingHandshake" && cn != "(*lib/torrent/scheduler.scheduler).initializeOutgoingHandshake" {
				return
			}
			n++
			r.Check(inSuccessRegion(cs.Instr, g), r3, fn, "handshake goroutine", g, "after successful reservation", "a handshake is started although the connection slot was not reserved (AddPending failed or was skipped)")
		})
		if n == 0 {
			r.Bad(r3, fn, "handshake goroutine", cs.Instr, "a slot is reserved but no handshake is started in this event: the reservation leaks")
		}
	}
	for _, ev := range []string{"failedIncomingHandshakeEvent", "failedOutgoingHandshakeEvent"} {
		fn := r.MustFunc(r3, "(lib/torrent/scheduler."+ev+").apply")
		if fn == nil {
			continue
		}
		cs := callsInNamed(fn, "(*"+pkgConnstate+".State).DeletePending")
		ok := len(cs) == 1 && cs[0].Instr.Block() == fn.Blocks[0]
		r.Check(ok, r3, fn, "release reservation", nil, "DeletePending unconditionally", "a failed handshake does not release its pending reservation: capacity leaks")
	}
	// conn closed → DeleteActive
	if fn := r.MustFunc(r3, "(lib/torrent/scheduler.connClosedEvent).apply"); fn != nil {
		cs := callsInNamed(fn, "(*"+pkgConnstate+".State).DeleteActive")
		r.Check(len(cs) == 1 && cs[0].Instr.Block() == fn.Blocks[0], r3, fn, "release active", nil, "DeleteActive unconditionally", "a closed connection is not removed from the active set")
	}

	checkEventLoopConfinement(c, r, "R4")
}

// connIdentity: fact "stored entry conn == the *conn.Conn parameter of fn".
func connIdentity(fn *ssa.Function, fConn string) FactFn {
	return eqFact(func(b *ssa.BinOp) bool {
		isParam := func(v ssa.Value) bool {
			return mentions(v, func(w ssa.Value) bool {
				p, ok := w.(*ssa.Parameter)
				return ok && typeName(p.Type()) == "lib/torrent/scheduler/conn.Conn"
			}, 3)
		}
		return mentionsField(b.X, fConn) && isParam(b.Y) || mentionsField(b.Y, fConn) && isParam(b.X)
	}, true)
}

// entryStatusOf: the constant stored into the status field of the entry value a.
func entryStatusOf(a ssa.Value, fStatus string) int64 {
	res := int64(-1)
	mentions(a, func(v ssa.Value) bool {
		al, ok := v.(*ssa.Alloc)
		if !ok {
			return false
		}
		for _, rf := range *al.Referrers() {
			if fa, ok := rf.(*ssa.FieldAddr); ok {
				if n, _ := fieldName(fa); n == fStatus {
					for _, rf2 := range *fa.Referrers() {
						if st, ok := rf2.(*ssa.Store); ok {
							if k, ok := intConst(st.Val); ok {
								res = k
							}
						}
					}
				}
			}
		}
		return false
	}, 4)
	return res
}

// entryConnIsParam: the entry argument's conn field is the caller's conn parameter.
func entryConnIsParam(call ssa.CallInstruction, fn *ssa.Function, fConn string) bool {
	ok := false
	for _, a := range call.Common().Args {
		mentions(a, func(v ssa.Value) bool {
			al, isAl := v.(*ssa.Alloc)
			if !isAl {
				return false
			}
			for _, rf := range *al.Referrers() {
				if fa, isFA := rf.(*ssa.FieldAddr); isFA {
					if n, _ := fieldName(fa); n == fConn {
						for _, rf2 := range *fa.Referrers() {
							if st, isSt := rf2.(*ssa.Store); isSt {
								if p, isP := st.Val.(*ssa.Parameter); isP && p.Parent() == fn {
									ok = true
								}
							}
						}
					}
				}
			}
			return false
		}, 4)
	}
	return ok
}
