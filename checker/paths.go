package main

import (
	"golang.org/x/tools/go/ssa"
)

// Path is a walk through the CFG from the entry block to a block ending in a
// Return (or a block with no successors) that visits each block at most twice
// (loops are traversed zero or one full iteration plus the exit test).
type Path []*ssa.BasicBlock

// forEachPath enumerates entry→exit paths of fn, each block at most twice per path. It stops after max paths
// and reports whether the enumeration was complete.
func forEachPath(fn *ssa.Function, max int, f func(p Path)) (complete bool) {
	n := 0
	complete = true
	on := map[*ssa.BasicBlock]int{}
	facts := map[ssa.Value]bool{}
	var cur Path
	var walk func(b *ssa.BasicBlock)
	walk = func(b *ssa.BasicBlock) {
		if n >= max {
			complete = false
			return
		}
		on[b]++
		if on[b] == 2 {
			// second visit = a loop iteration: condition values are recomputed, so
			// the branch facts collected so far no longer constrain them.
			saved := facts
			facts = map[ssa.Value]bool{}
			defer func() { facts = saved }()
		}
		cur = append(cur, b)
		if len(b.Succs) == 0 {
			n++
			cp := make(Path, len(cur))
			copy(cp, cur)
			f(cp)
		} else {
			seen := map[*ssa.BasicBlock]bool{}
			// An SSA value is immutable and, on an acyclic path, every instruction runs
			// at most once: two branches on the same condition value must agree, so
			// paths taking contradictory edges are infeasible and pruned.
			var cond ssa.Value
			if iff, ok := b.Instrs[len(b.Instrs)-1].(*ssa.If); ok && b.Succs[0] != b.Succs[1] {
				cond = iff.Cond
			}
			for i, s := range b.Succs {
				if on[s] >= 2 || seen[s] {
					continue
				}
				if cond != nil {
					cv, val := stripNot(cond, i == 0)
					if prev, known := facts[cv]; known {
						if prev != val {
							continue
						}
						seen[s] = true
						walk(s)
						continue
					}
					facts[cv] = val
					seen[s] = true
					walk(s)
					delete(facts, cv)
					continue
				}
				seen[s] = true
				walk(s)
			}
		}
		cur = cur[:len(cur)-1]
		on[b]--
	}
	if len(fn.Blocks) > 0 {
		walk(fn.Blocks[0])
	}
	return
}

// hasEdge: the path takes the CFG edge e.
func (p Path) hasEdge(e Edge) bool {
	for i := 0; i+1 < len(p); i++ {
		if p[i] == e.From && p[i+1] == e.To {
			return true
		}
	}
	return false
}

func (p Path) hasBlock(b *ssa.BasicBlock) bool {
	for _, x := range p {
		if x == b {
			return true
		}
	}
	return false
}

// hasInstr: the path executes instruction in (its block is on the path).
func (p Path) hasInstr(in ssa.Instruction) bool { return p.hasBlock(in.Block()) }

// ret returns the Return terminating the path, or nil (panic/no-return exit).
func (p Path) ret() *ssa.Return {
	last := p[len(p)-1]
	if len(last.Instrs) == 0 {
		return nil
	}
	r, _ := last.Instrs[len(last.Instrs)-1].(*ssa.Return)
	return r
}

// succeeded: the path executes call and then takes an edge on which its error
// result is nil (or the call has no error result).
func (p Path) succeeded(call ssa.CallInstruction) bool {
	if !p.hasInstr(call) {
		return false
	}
	errs := errResults(call)
	if len(errs) == 0 {
		return true
	}
	for _, e0 := range errs {
		for _, e := range errAliases(e0) {
			for _, ed := range nilEdges(e, true) {
				if p.hasEdge(ed) {
					return true
				}
			}
		}
	}
	return false
}

// failedOn: the path takes an edge on which the call's error is known non-nil.
func (p Path) failedOn(call ssa.CallInstruction) bool {
	if !p.hasInstr(call) {
		return false
	}
	for _, e0 := range errResults(call) {
		for _, e := range errAliases(e0) {
			for _, ed := range nilEdges(e, false) {
				if p.hasEdge(ed) {
					return true
				}
			}
		}
	}
	return false
}

// selectSent: the path takes the edge on which the (non-blocking or blocking)
// select chose a send case. Returns false if sel has no send states.
func (p Path) selectSent(sel *ssa.Select) bool {
	// index result: extract #0; compared with the case number
	for _, r := range *sel.Referrers() {
		ex, ok := r.(*ssa.Extract)
		if !ok || ex.Index != 0 {
			continue
		}
		for _, r2 := range *ex.Referrers() {
			b, ok := r2.(*ssa.BinOp)
			if !ok {
				continue
			}
			k, ok := intConst(b.Y)
			if !ok || int(k) >= len(sel.States) || int(k) < 0 {
				continue
			}
			if sel.States[k].Dir != 1 { // types.SendOnly == 1
				continue
			}
			for _, ed := range condEdges(b, true) {
				if p.hasEdge(ed) {
					return true
				}
			}
		}
	}
	return false
}
