package main

import (
	"encoding/json"
	"flag"
	"fmt"
	"os"
	"path/filepath"
	"sort"
	"strconv"
	"strings"
	"time"
)

// PropFunc runs all rules of one property.
type PropFunc func(c *Ctx, r *Report)

var props = map[string]PropFunc{}

func register(id string, f PropFunc) { props[id] = f }

func propIDs() []string {
	var ids []string
	for k := range props {
		ids = append(ids, k)
	}
	sort.Strings(ids)
	return ids
}

func main() {
	if len(os.Args) < 2 {
		usage()
	}
	cmd := os.Args[1]
	fs := flag.NewFlagSet(cmd, flag.ExitOnError)
	tier := fs.String("tier", envOr("VERIF_TIER", "quick"), "quick|thorough")
	repo := fs.String("repo", envOr("KVET_REPO", "/repo"), "repository root")
	verif := fs.String("verif", envOr("KVET_VERIF", "/verif"), "verif root (evidence, known findings)")
	quiet := fs.Bool("q", false, "quiet")
	noVariants := fs.Bool("no-variants", false, "skip the variant self-test in the thorough tier")
	var pos []string
	args := os.Args[2:]
	// allow flags after positionals
	for len(args) > 0 {
		fs.Parse(args)
		if fs.NArg() == 0 {
			break
		}
		pos = append(pos, fs.Arg(0))
		args = fs.Args()[1:]
	}
	seed, _ := strconv.Atoi(envOr("VERIF_SEED", "0"))
	switch cmd {
	case "list":
		for _, id := range propIDs() {
			fmt.Println(id)
		}
	case "check":
		if len(pos) != 1 {
			usage()
		}
		id := pos[0]
		f, ok := props[id]
		if !ok {
			fmt.Printf("INFRA-ERROR: no check for %s\n", id)
			os.Exit(2)
		}
		if *tier != "quick" && *tier != "thorough" {
			*tier = "quick"
		}
		t0 := time.Now()
		c, err := Load(*repo, nil)
		if err != nil {
			fmt.Printf("VIOLATION property=%s replay=evidence/replay/%s-load.json\n  INFRA: %v\n", id, id, err)
			writeLoadFailure(*verif, id, *tier, seed, err, t0)
			os.Exit(1)
		}
		r := NewReport(c, id, *tier)
		runProp(f, c, r)
		if *tier == "thorough" && !*noVariants {
			runVariants(c, r, id, *repo)
		}
		os.Exit(r.Finish(*verif, seed, t0, *quiet))
	case "all":
		t0 := time.Now()
		c, err := Load(*repo, nil)
		if err != nil {
			fmt.Println("INFRA-ERROR:", err)
			os.Exit(2)
		}
		fmt.Printf("loaded %d packages, %d functions in %v\n", len(c.Pkgs), len(c.Funcs), c.LoadTime)
		ids := pos
		if len(ids) == 0 {
			ids = propIDs()
		}
		rc := 0
		for _, id := range ids {
			f := props[id]
			if f == nil {
				fmt.Println("no check for", id)
				continue
			}
			t1 := time.Now()
			r := NewReport(c, id, *tier)
			runProp(f, c, r)
			if x := r.Finish(*verif, seed, t1, *quiet); x != 0 {
				rc = 1
			}
		}
		fmt.Printf("total %.1fs\n", time.Since(t0).Seconds())
		os.Exit(rc)
	case "selftest":
		// runs every stored variant of the given (or all) properties; exit 1 if one is missed
		c, err := Load(*repo, nil)
		if err != nil {
			fmt.Println("INFRA-ERROR:", err)
			os.Exit(2)
		}
		ids := pos
		if len(ids) == 0 {
			ids = propIDs()
		}
		missed := 0
		for _, id := range ids {
			f := props[id]
			if f == nil {
				continue
			}
			r := NewReport(c, id, "thorough")
			runProp(f, c, r)
			runVariants(c, r, id, *repo)
			fmt.Printf("%s variants: total=%v detected=%v benign-silent=%v stale=%v missed-or-false-alarm=%v\n", id, r.Extra["variants_total"], r.Extra["variants_detected"], r.Extra["variants_silent"], r.Extra["variants_stale"], r.Extra["variants_missed"])
			if m, ok := r.Extra["variants_missed"].(int); ok {
				missed += m
			}
		}
		if missed > 0 {
			os.Exit(1)
		}
	case "variant":
		// internal: check one property on the tree with an overlay; prints obligation keys that fail
		if len(pos) != 2 {
			usage()
		}
		os.Exit(runOneVariant(*repo, pos[0], pos[1]))
	case "dump":
		c, err := Load(*repo, nil)
		if err != nil {
			fmt.Println("INFRA-ERROR:", err)
			os.Exit(2)
		}
		for _, n := range pos {
			found := false
			for _, fn := range c.Funcs {
				if funcName(fn) == n || strings.HasSuffix(funcName(fn), n) {
					fn.WriteTo(os.Stdout)
					found = true
				}
			}
			if !found {
				fmt.Println("not found:", n)
			}
		}
	case "funcs":
		c, err := Load(*repo, nil)
		if err != nil {
			fmt.Println("INFRA-ERROR:", err)
			os.Exit(2)
		}
		for _, fn := range c.Funcs {
			n := funcName(fn)
			if len(pos) == 0 || strings.Contains(n, pos[0]) {
				fmt.Println(n)
			}
		}
	case "explain":
		if len(pos) != 1 {
			usage()
		}
		b, err := os.ReadFile(pos[0])
		if err != nil {
			b, err = os.ReadFile(filepath.Join(*verif, pos[0]))
		}
		if err != nil {
			fmt.Println(err)
			os.Exit(2)
		}
		var rec struct {
			Property   string
			Obligation Obligation
			Rule       RuleInfo
		}
		json.Unmarshal(b, &rec)
		fmt.Printf("property   %s\nrule       %s (%s)\n           %s\nobligation %s\nposition   %s\nstatus     %s\ndetail     %s\n",
			rec.Property, rec.Rule.ID, rec.Rule.Engine, rec.Rule.Text, rec.Obligation.Key, rec.Obligation.Pos, rec.Obligation.Status, rec.Obligation.Detail)
		fmt.Printf("re-run: ./run check %s\n", rec.Property)
	default:
		usage()
	}
}

func runProp(f PropFunc, c *Ctx, r *Report) {
	defer func() {
		if e := recover(); e != nil {
			r.add(r.Prop+".INFRA", Undecided, nil, "panic", "?", false, fmt.Sprintf("checker panic: %v", e))
			if os.Getenv("KVET_DEBUG") != "" {
				panic(e)
			}
		}
	}()
	f(c, r)
}

func writeLoadFailure(verif, id, tier string, seed int, err error, t0 time.Time) {
	ev := evidence{PropertyID: id, Tier: tier, Seed: seed, Level: "other",
		Coverage: map[string]any{"explanation": "the tree could not be loaded/type-checked; nothing was analysed: " + err.Error(),
			"obligations": 0, "discharged": 0},
		Assumptions: []string{}, WallS: time.Since(t0).Seconds(), Violations: 1}
	b, _ := json.MarshalIndent(ev, "", " ")
	os.MkdirAll(filepath.Join(verif, "evidence", "replay"), 0o755)
	os.WriteFile(filepath.Join(verif, "evidence", id+".json"), b, 0o644)
	os.WriteFile(filepath.Join(verif, "evidence", "replay", id+"-load.json"), b, 0o644)
}

func envOr(k, d string) string {
	if v := os.Getenv(k); v != "" {
		return v
	}
	return d
}

func usage() {
	fmt.Fprintln(os.Stderr, "usage: kvet check <ID> [--tier quick|thorough] | all [IDs] | list | dump <func> | funcs [substr] | explain <replay>")
	os.Exit(2)
}
