package main

import (
	"fmt"
	"go/token"
	"sort"
	"strings"

	"golang.org/x/tools/go/ssa"
)

func init() {
	register("C10", checkC10)
	register("C31", checkC31)
}

const (
	pkgBase  = "lib/store/base"
	pkgStore = "lib/store"
	pkgBlob  = "origin/blobserver"
	tPersist = "lib/store/metadata.Persist"
)

var removeCalls = []string{"os.Remove", "os.RemoveAll"}

// rulesPersistGuard (shared by C10 and C31): deletion funnel and persist-flag discipline.
func rulesPersistGuard(c *Ctx, r *Report) {
	// R1: who may remove files
	r1 := r.Rule("R1", "E-OWN", "os.Remove/os.RemoveAll appear in lib/store/base and lib/store only in the tabled functions: entry Delete (guarded, R2), Move (source dir, after the rename succeeded), Create (its own file after a failed truncate), DeleteMetadata (one sidecar); upload-dir wipe at start-up and symlink refresh", 5)
	table := map[string]string{
		"(*lib/store/base.localFileEntry).Delete":         "guarded deletion (R2)",
		"(*lib/store/base.localFileEntry).Move":           "source directory after successful rename",
		"(*lib/store/base.localFileEntry).Create":         "cleanup of a file it has just created",
		"(*lib/store/base.localFileEntry).DeleteMetadata": "single metadata sidecar",
		"lib/store/base.writeFileAtomic":                  "its own temporary file after a failed write/rename",
		"lib/store.newUploadStore":                        "upload directory wiped at start-up (nothing in it is committed)",
		"lib/store.createOrUpdateSymlink":                 "symlink refresh",
	}
	seen := map[string]bool{}
	for _, cs := range c.CallsTo(removeCalls...) {
		fn := cs.Caller
		p := pkgOf(fn)
		if (p != pkgBase && p != pkgStore) || c.isFixture(fn) {
			continue
		}
		top := funcName(topFunc(fn))
		why, ok := table[top]
		seen[top] = true
		r.Check(ok, r1, fn, lastSeg(cs.Callee), cs.Instr, why, "a file-removal call appears in "+funcName(fn)+", which is not one of the functions confirmed to respect the write-back protection")
		if !ok {
			continue
		}
		switch {
		case strings.HasSuffix(top, ".Move"):
			okm := false
			for _, rn := range callsInNamed(fn, "os.Rename") {
				if inSuccessRegion(rn.Instr, cs.Instr) {
					okm = true
				}
			}
			r.Check(okm, r1, fn, "Move: remove source", cs.Instr, "after successful rename", "Move removes the source directory although the data rename did not (provably) succeed")
		case strings.HasSuffix(top, ".writeFileAtomic"):
			r.Check(mentionsCall(cs.Instr.Common().Args[0], "os.CreateTemp"), r1, fn, "temp cleanup", cs.Instr, "removes only the temporary file it created",
				"the atomic writer removes a path that is not the temporary file it created")
		case strings.HasSuffix(top, "localFileEntry).Create"):
			okc := false
			for _, cr := range callsInNamed(fn, "os.Create") {
				if inSuccessRegion(cr.Instr, cs.Instr) {
					okc = true
				}
			}
			r.Check(okc, r1, fn, "Create: cleanup", cs.Instr, "only after it created the file itself", "Create removes a directory on a path where it did not create the file itself (it could delete an existing, persisted file)")
		}
	}
	var missing []string
	for k := range table {
		if !seen[k] {
			missing = append(missing, k)
		}
	}
	sort.Strings(missing)
	r.Extra["R1_table_entries_without_site"] = missing

	// R2: Delete guard, path-wise
	r2 := r.Rule("R2", "E-GUARD(paths)", "every path of localFileEntry.Delete that reaches the directory removal has read the persist flag from disk and either the read failed with NotExist or the flag is false; GetMetadata always reads the sidecar file", 2)
	if del := r.MustFunc(r2, "(*lib/store/base.localFileEntry).Delete"); del != nil {
		rms := callsInNamed(del, removeCalls...)
		gms := []*CallSite{}
		for _, cs := range callsIn(del) {
			if strings.HasSuffix(cs.Callee, ".GetMetadata") {
				for _, a := range cs.Instr.Common().Args {
					if typeName(a.Type()) == tPersist || mentions(a, func(v ssa.Value) bool { return typeName(v.Type()) == tPersist }, 3) {
						gms = append(gms, cs)
					}
				}
			}
		}
		if len(rms) == 0 || len(gms) == 0 {
			r.Bad(r2, del, "Delete", nil, fmt.Sprintf("Delete has %d removal call(s) and %d read(s) of the persist flag: removal is unguarded", len(rms), len(gms)))
		} else {
			n, bad := 0, 0
			complete := forEachPath(del, 5000, func(p Path) {
				for _, rm := range rms {
					if !p.hasInstr(rm.Instr) {
						continue
					}
					n++
					ok := false
					for _, gm := range gms {
						if !p.hasInstr(gm.Instr) || !precedes(gm.Instr, rm.Instr) {
							continue
						}
						if p.succeeded(gm.Instr) {
							// Value must be false on the path
							instrsOf(del, func(in ssa.Instruction) {
								if iff, isIf := in.(*ssa.If); isIf && mentionsField(iff.Cond, tPersist+".Value") {
									cond, _ := stripNot(iff.Cond, true)
									for _, e := range condEdges(cond, false) {
										if p.hasEdge(e) {
											ok = true
										}
									}
								}
							})
						} else if p.failedOn(gm.Instr) {
							for _, e0 := range errResults(gm.Instr) {
								for _, cl := range classifierCalls(e0, []string{"os.IsNotExist"}) {
									for _, e := range condEdges(cl, true) {
										if p.hasEdge(e) {
											ok = true
										}
									}
								}
							}
						}
					}
					if !ok {
						bad++
					}
				}
			})
			r.Check(complete && n > 0 && bad == 0, r2, del, "paths to RemoveAll", rms[0].Instr, fmt.Sprintf("%d paths, all guarded", n),
				fmt.Sprintf("%d of %d paths reach the directory removal without having established from disk that the persist flag is absent or false: a file awaiting write-back can be deleted", bad, n))
		}
	}
	if gm := r.MustFunc(r2, "(*lib/store/base.localFileEntry).GetMetadata"); gm != nil {
		for _, ret := range returnsOf(gm) {
			if classifyReturn(ret) == RetFailure {
				continue
			}
			ok := false
			for _, rf := range callsInNamed(gm, "os.ReadFile", "os.Open", "os.OpenFile") {
				if inSuccessRegion(rf.Instr, ret) && mentionsCall(rf.Instr.Common().Args[0], "(*lib/store/base.localFileEntry).getMetadataPath") {
					ok = true
				}
			}
			r.Check(ok, r2, gm, "GetMetadata success return", ret, "after reading the sidecar file", "GetMetadata can succeed without reading the metadata file from disk (a cached/absent value would hide a persist flag)")
		}
	}

	// R3: funnel
	r3 := r.Rule("R3", "E-OWN", "FileEntry.Delete is invoked only by the file-op delete path and the LRU eviction of the file map; both under the entry lock", 2)
	funnel := map[string]bool{"(*lib/store/base.localFileOp).DeleteFile": true, "(*lib/store/base.lruFileMap).syncRemoveOldestIfNeeded": true}
	for _, cs := range c.CallsTo("(lib/store/base.FileEntry).Delete", "(*lib/store/base.localFileEntry).Delete") {
		if c.isFixture(cs.Caller) {
			continue
		}
		r.Check(funnel[funcName(topFunc(cs.Caller))], r3, cs.Caller, "FileEntry.Delete", cs.Instr, "tabled caller", "FileEntry.Delete is called from an unconfirmed place")
	}

	// R4: who clears the persist flag
	r4 := r.Rule("R4", "E-OWN+E-ORDER", "the persist flag is cleared only by the write-back executor, in the success region of its upload, and by the forced cleanup, after every found write-back task was executed synchronously without error; it is never overwritten with false", 2)
	clearers := map[string]bool{"(*lib/persistedretry/writeback.Executor).Exec": true, "(*origin/blobserver.Server).maybeDelete": true}
	for _, fn := range c.Funcs {
		if c.isFixture(fn) {
			continue
		}
		for _, cs := range callsIn(fn) {
			n := lastSeg(cs.Callee)
			if n != "DeleteCacheFileMetadata" && n != "DeleteFileMetadata" && n != "DeleteMetadata" {
				continue
			}
			isPersist := false
			for _, a := range cs.Instr.Common().Args {
				if mentions(a, func(v ssa.Value) bool { return typeName(v.Type()) == tPersist }, 3) {
					isPersist = true
				}
			}
			if !isPersist {
				continue
			}
			top := funcName(topFunc(fn))
			// discipline A (executor): in the success region of the upload
			okA := false
			for _, up := range callsInNamed(fn, "(*lib/persistedretry/writeback.Executor).upload") {
				if inSuccessRegion(up.Instr, cs.Instr) {
					okA = true
				}
			}
			// discipline B (forced cleanup): after a completed loop that synchronously
			// executed every found write-back task, none of whose errors reaches the site
			okB := false
			for _, l := range rangeLoops(fn) {
				if !mentionsCall(l.Ranged, "(lib/persistedretry.Manager).Find") || !l.completedBefore(cs.Instr) {
					continue
				}
				for _, se := range callsInNamed(fn, "(lib/persistedretry.Manager).SyncExec") {
					if !l.contains(se.Instr.Block()) || !l.derivesFromElem(se.Instr.Common().Args[0]) {
						continue
					}
					leaks := false
					for _, e0 := range errResults(se.Instr) {
						for _, e := range errAliases(e0) {
							for _, ed := range nilEdges(e, false) {
								if ed.To == cs.Instr.Block() || reaches(ed.To, cs.Instr.Block()) {
									leaks = true
								}
							}
						}
					}
					if !leaks && l.everyIteration(se.Instr) {
						okB = true
					}
				}
			}
			fnd := callsInNamed(fn, "(lib/persistedretry.Manager).Find")
			if len(fnd) != 1 || !inSuccessRegion(fnd[0].Instr, cs.Instr) {
				okB = false
			}
			_ = clearers
			if !okA && !okB && fn.Parent() == nil {
				// the clearing extracted into a private helper: discipline A must hold at
				// every place the helper is called from
				callers := c.CallsTo(funcName(fn))
				all, n := true, 0
				for _, hc := range callers {
					if c.isFixture(hc.Caller) {
						continue
					}
					n++
					oka := false
					for _, up := range callsInNamed(hc.Caller, "(*lib/persistedretry/writeback.Executor).upload") {
						if inSuccessRegion(up.Instr, hc.Instr) {
							oka = true
						}
					}
					if !oka {
						all = false
					}
				}
				if all && n > 0 {
					okA = true
				}
			}
			r.Check(okA || okB, r4, fn, "clear persist flag", cs.Instr, tern3(okA, "in the success region of the executor's upload", "after every found write-back task was executed synchronously without error"),
				"the persist flag is cleared in "+top+" neither in the success region of a write-back upload nor after a completed, error-free synchronous execution of every pending write-back task: the local copy becomes deletable before it is written back")
		}
		// Set with NewPersist(false)
		for _, cs := range callsInNamed(fn, "lib/store/metadata.NewPersist") {
			if isBoolConst(cs.Instr.Common().Args[0], true) {
				continue
			}
			r.Bad(r4, fn, "NewPersist(non-true)", cs.Instr, "a persist flag value other than the constant true is constructed: the flag could be overwritten with false outside the clearing discipline")
		}
	}
}

func checkC10(c *Ctx, r *Report) {
	r.Explain = "Files awaiting write-back are never deleted: all file removal in the store packages is confined to tabled functions; the entry deletion — the only one that removes a cached file on request, reached from delete requests, LRU eviction and both cleanup policies — reads the persist flag from disk on every path and removes nothing when it is true or unreadable; the flag is cleared only after a successful upload / synchronous write-back. One clause of the cleanup sentence is structural and decided (R6): the on-disk last access time that cleanup reads is rewritten whenever the in-memory copy that throttles it advances."
	r.NotDecided = "'Removes exactly the idle files' and the usage-driven ordering (TTL/TTI arithmetic, comparator values) — second sentence of the property."
	rulesPersistGuard(c, r)
	defer rulesAccessTimeCoupdate(c, r)
	// cleanup policies use only the funnel
	r5 := r.Rule("R5", "E-OWN", "the cleanup manager deletes only through FileOp.DeleteFile, and treats ErrFilePersisted as 'skip'", 1)
	n := 0
	// the cleanup manager's methods and the private helpers of the package that
	// only they call
	cmFuncs := map[*ssa.Function]bool{}
	cmNames := map[string]bool{}
	for _, fn := range c.FuncsIn(pkgStore) {
		if !c.isFixture(fn) && recvTypeName(topFunc(fn)) == "lib/store.cleanupManager" {
			cmFuncs[fn] = true
			cmNames[funcName(topFunc(fn))] = true
		}
	}
	for _, fn := range c.FuncsIn(pkgStore) {
		if c.isFixture(fn) || cmFuncs[fn] || fn.Signature.Recv() != nil {
			continue
		}
		if callerAllowed(c, topFunc(fn), cmNames, 0) {
			cmFuncs[fn] = true
		}
	}
	for _, fn := range c.FuncsIn(pkgStore) {
		if c.isFixture(fn) || !cmFuncs[fn] {
			continue
		}
		for _, cs := range callsIn(fn) {
			if strings.Contains(cs.Callee, "Delete") || strings.Contains(cs.Callee, "Remove") {
				n++
				r.Check(cs.Callee == "(lib/store/base.FileOp).DeleteFile", r5, fn, cs.Callee, cs.Instr, "goes through DeleteFile", "cleanup deletes through "+cs.Callee+" instead of the guarded FileOp.DeleteFile")
			}
		}
	}
	if n == 0 {
		r.Unresolved(r5, "cleanup manager has no deletion call")
	}
}

func checkC31(c *Ctx, r *Report) {
	r.Explain = "An acknowledged upload is written back before it can be deleted locally: every success return of a commit handler (and the 409 'conflict' answer clients treat as success) lies in the success region of writeBack; writeBack sets the persist flag, then adds the persisted retry task, both error-checked; the executor clears the flag only after upload succeeded, and upload returns nil only for the enumerated reasons; deletion respects the flag (rules shared with C10); the retry manager keeps the task until success (C30)."
	r.NotDecided = "That the backend eventually becomes reachable; the two documented drops (namespace without backend, local file missing) are assumptions."
	r.Assump = append(r.Assump, "writeback.Executor.upload returns nil without uploading when the namespace has no backend configured or the local file is missing (documented drops)")
	const srv = "(*origin/blobserver.Server)."
	a1 := r.Rule("A1", "E-ORDER/ok", "every success return of a handler that commits an upload is in the success region of Server.writeBack (tabled exception: commitTransferHandler, internal replica transfer whose write-back is owned by the sender); the conflict helper calls writeBack on every path taken for a 409", 3)
	for _, cs := range c.CallsTo("(*origin/blobserver.uploader).commit") {
		fn := cs.Caller
		if c.isFixture(fn) {
			continue
		}
		if funcName(fn) == srv+"commitTransferHandler" {
			r.OK(a1, fn, "commit (internal transfer)", cs.Instr, false, "tabled exception")
			continue
		}
		wbs := callsInNamed(fn, srv+"writeBack")
		for _, ret := range returnsOf(fn) {
			v := errOperand(ret)
			if v != nil && isCallTo(v, srv+"handleUploadConflict") {
				continue // decided in the helper
			}
			if classifyReturn(ret) == RetFailure {
				continue
			}
			if !precedes(cs.Instr, ret) {
				continue
			}
			ok := false
			for _, wb := range wbs {
				if inSuccessRegion(wb.Instr, ret) {
					ok = true
				}
			}
			r.Check(ok, a1, fn, "success return after commit", ret, "write-back scheduled", "an upload commit is acknowledged on a path where the write-back was not (successfully) scheduled")
		}
	}
	if hc := r.MustFunc(a1, srv+"handleUploadConflict"); hc != nil {
		wbs := callsInNamed(hc, srv+"writeBack")
		n, bad := 0, 0
		forEachPath(hc, 2000, func(p Path) {
			// paths taking the "status == 409" true edge
			conflict := false
			instrsOf(hc, func(in ssa.Instruction) {
				if b, ok := in.(*ssa.BinOp); ok && (b.Op == token.EQL || b.Op == token.NEQ) && mentionsCall(b.X, "(*utils/handler.Error).GetStatus") {
					if k, ok := intConst(b.Y); ok && k == 409 {
						// the edge on which status == 409 holds, in either spelling
						for _, e := range condEdges(b, b.Op == token.EQL) {
							if p.hasEdge(e) {
								conflict = true
							}
						}
					}
				}
			})
			if !conflict || p.ret() == nil {
				return
			}
			n++
			hit := false
			for _, wb := range wbs {
				if p.hasInstr(wb.Instr) {
					hit = true
				}
			}
			if !hit {
				bad++
			}
		})
		r.Check(n > 0 && bad == 0, a1, hc, "409 paths", nil, fmt.Sprintf("%d conflict paths call writeBack", n), fmt.Sprintf("%d of %d paths answering 409 (blob already committed; clients treat it as success) do not schedule the write-back", bad, n))
	}
	a2 := r.Rule("A2", "E-ORDER/ok", "in writeBack the persisted-retry Add is in the success region of SetCacheFileMetadata(NewPersist(true)), and success returns are in the success region of Add", 2)
	if wb := r.MustFunc(a2, srv+"writeBack"); wb != nil {
		var sets []*CallSite
		for _, cs := range callsIn(wb) {
			if lastSeg(cs.Callee) == "SetCacheFileMetadata" && mentionsCall(cs.Instr.Common().Args[len(cs.Instr.Common().Args)-1], "lib/store/metadata.NewPersist") {
				sets = append(sets, cs)
			}
		}
		adds := callsInNamed(wb, "(lib/persistedretry.Manager).Add")
		ok := len(sets) == 1 && len(adds) == 1 && inSuccessRegion(sets[0].Instr, adds[0].Instr)
		r.Check(ok, a2, wb, "persist flag before task", nil, "flag set (checked) before Add", "the write-back task is added before/without the persist flag being set: the blob can be evicted before it is uploaded")
		for _, ret := range returnsOf(wb) {
			if classifyReturn(ret) == RetFailure {
				continue
			}
			r.Check(len(adds) == 1 && inSuccessRegion(adds[0].Instr, ret), a2, wb, "success return", ret, "task persisted", "writeBack reports success although the retry task was not (provably) added")
		}
	}
	a3 := r.Rule("A3", "E-PAIR(paths)", "every path of the executor's upload that returns nil succeeded in client.Upload, found the blob already in the backend (Stat ok), or took one of the two documented drops (ErrNamespaceNotFound, local file NotExist)", 1)
	if up := r.MustFunc(a3, "(*lib/persistedretry/writeback.Executor).upload"); up != nil {
		n, bad := 0, 0
		complete := forEachPath(up, 20000, func(p Path) {
			ret := p.ret()
			if ret == nil || classifyReturn(ret) != RetSuccess {
				return
			}
			n++
			ok := false
			for _, cs := range callsIn(up) {
				switch cs.Callee {
				case "(lib/backend.Client).Upload", "(lib/backend.Client).Stat":
					if p.succeeded(cs.Instr) {
						ok = true
					}
				case "(lib/backend.Manager).GetClient", "(*lib/backend.Manager).GetClient":
					for _, e0 := range errResults(cs.Instr) {
						for _, rf := range *e0.Referrers() {
							if b, isB := rf.(*ssa.BinOp); isB && b.Op == token.EQL && mentions(b.Y, func(v ssa.Value) bool {
								g, isG := v.(*ssa.Global)
								return isG && g.Name() == "ErrNamespaceNotFound"
							}, 3) {
								for _, e := range condEdges(b, true) {
									if p.hasEdge(e) {
										ok = true
									}
								}
							}
						}
					}
				default:
					if lastSeg(cs.Callee) == "GetCacheFileReader" {
						for _, e0 := range errResults(cs.Instr) {
							for _, cl := range classifierCalls(e0, []string{"os.IsNotExist"}) {
								for _, e := range condEdges(cl, true) {
									if p.hasEdge(e) {
										ok = true
									}
								}
							}
						}
					}
				}
			}
			if !ok {
				bad++
			}
		})
		r.Check(complete && n > 0 && bad == 0, a3, up, "nil-return paths", nil, fmt.Sprintf("%d paths", n), fmt.Sprintf("%d of %d nil-returning paths of upload have none of the enumerated reasons: the task would be removed and the flag cleared without the blob being in the backend", bad, n))
	}
	rulesPersistGuard(c, r)
}

func tern3(c bool, a, b string) string {
	if c {
		return a
	}
	return b
}
