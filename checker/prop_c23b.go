package main

import (
	"golang.org/x/tools/go/ssa"
)

// departurePathsSkipping enumerates the acyclic paths from the not-listed side of
// the membership test in the departure loop of state.sync to the next iteration
// (or out of the loop) and returns a description of the first removal that some
// path skips, or "" if every path removes the host from all three containers.
// A set removal counts as performed on a path that took the false side of a
// Has(host) test on that same set (the set does not hold the host there).
func departurePathsSkipping(fn *ssa.Function, l *RangeLoop, fAll, fHealthy, fTrend string) string {
	var starts []Edge
	instrsOf(fn, func(in ssa.Instruction) {
		cl, ok := in.(*ssa.Call)
		if !ok || !l.contains(cl.Block()) || calleeName(cl.Common()) != "(utils/stringset.Set).Has" || cl.Call.Args[0] != fn.Params[1] {
			return
		}
		starts = append(starts, condEdges(cl, false)...)
	})
	if len(starts) == 0 {
		return "no not-listed edge was found"
	}
	removesFrom := func(in ssa.Instruction, field string) bool {
		ci, ok := in.(ssa.CallInstruction)
		if !ok || calleeName(ci.Common()) != "(utils/stringset.Set).Remove" {
			return false
		}
		a := ci.Common().Args
		return mentionsField(a[0], field) && l.derivesFromElem(a[1])
	}
	absentEdges := func(field string) []Edge {
		var out []Edge
		instrsOf(fn, func(in ssa.Instruction) {
			cl, ok := in.(*ssa.Call)
			if !ok || calleeName(cl.Common()) != "(utils/stringset.Set).Has" {
				return
			}
			if mentionsField(cl.Call.Args[0], field) && l.derivesFromElem(cl.Call.Args[1]) {
				out = append(out, condEdges(cl, false)...)
			}
		})
		return out
	}
	absAll, absHealthy := absentEdges(fAll), absentEdges(fHealthy)
	result := ""
	checkPath := func(p Path) {
		if result != "" {
			return
		}
		var all, healthy, trend bool
		for _, b := range p[1:] {
			if !l.contains(b) || b == l.Header {
				continue
			}
			for _, in := range b.Instrs {
				all = all || removesFrom(in, fAll)
				healthy = healthy || removesFrom(in, fHealthy)
				trend = trend || isMapDeleteOn(in, fTrend)
				if ci, isC := in.(ssa.CallInstruction); isC {
					a, h, t := stateHelperEffects(ci, l, fAll, fHealthy, fTrend, "Remove")
					all, healthy, trend = all || a, healthy || h, trend || t
				}
			}
		}
		for _, e := range absAll {
			all = all || p.hasEdge(e)
		}
		for _, e := range absHealthy {
			healthy = healthy || p.hasEdge(e)
		}
		switch {
		case !all:
			result = "the host is not removed from 'all'"
		case !healthy:
			result = "the host is not removed from 'healthy'"
		case !trend:
			result = "the host's trend counter is not deleted (a rejoining host would inherit its old failure/pass streak)"
		}
	}
	n := 0
	var walk func(b *ssa.BasicBlock, path []*ssa.BasicBlock, on map[*ssa.BasicBlock]bool)
	walk = func(b *ssa.BasicBlock, path []*ssa.BasicBlock, on map[*ssa.BasicBlock]bool) {
		if n > 20000 {
			result = "too many paths to enumerate"
			return
		}
		if b == l.Header || !l.contains(b) || len(b.Succs) == 0 {
			n++
			checkPath(Path(path))
			return
		}
		for _, s := range b.Succs {
			if on[s] {
				continue
			}
			on[s] = true
			walk(s, append(path, s), on)
			delete(on, s)
		}
	}
	for _, e := range starts {
		walk(e.To, []*ssa.BasicBlock{e.From, e.To}, map[*ssa.BasicBlock]bool{e.From: true, e.To: true})
	}
	if n == 0 && result == "" {
		return "no path from the not-listed side was found"
	}
	return result
}
