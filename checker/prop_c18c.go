package main

import (
	"fmt"
	"go/token"

	"golang.org/x/tools/go/ssa"
)

// c18Atomizer recognises, by what they compute:
//   complete   Dispatcher.Complete()
//   readIdle   clock.Now().Sub(Dispatcher.LastReadTime())  >= / >  Config.SeederTTI   (or mirrored)
//   writeIdle  clock.Now().Sub(Dispatcher.LastWriteTime()) >= / >  Config.LeecherTTI
func c18Atomizer() Atomizer {
	const disp = "(*lib/torrent/scheduler/dispatch.Dispatcher)."
	elapsed := func(v ssa.Value, getter string) bool {
		cl, ok := v.(*ssa.Call)
		if !ok || calleeName(cl.Common()) != "(time.Time).Sub" {
			return false
		}
		return isClockNow(cl.Call.Args[0]) && isCallTo(cl.Call.Args[1], disp+getter)
	}
	return func(v ssa.Value, resolve func(ssa.Value) ssa.Value) (string, bool, bool) {
		switch x := v.(type) {
		case *ssa.Call:
			if calleeName(x.Common()) == disp+"Complete" {
				return "complete", true, true
			}
		case *ssa.BinOp:
			l, rr := resolve(x.X), resolve(x.Y)
			for _, k := range []struct{ atom, getter, limit string }{
				{"readIdle", "LastReadTime", "lib/torrent/scheduler.Config.SeederTTI"},
				{"writeIdle", "LastWriteTime", "lib/torrent/scheduler.Config.LeecherTTI"},
			} {
				switch {
				case elapsed(l, k.getter) && isPureLoadOf(rr, k.limit):
					switch x.Op {
					case token.GEQ, token.GTR:
						return k.atom, true, true
					case token.LSS, token.LEQ:
						return k.atom, false, true
					}
				case elapsed(rr, k.getter) && isPureLoadOf(l, k.limit):
					switch x.Op {
					case token.LEQ, token.LSS:
						return k.atom, true, true
					case token.GTR, token.GEQ:
						return k.atom, false, true
					}
				}
			}
		}
		return "", false, false
	}
}

// c18IdleRule (C18.R3): in the preemption tick, a torrent is removed for idleness
// on exactly the paths where (complete ∧ readIdle) ∨ (¬complete ∧ writeIdle).
func c18IdleRule(c *Ctx, r *Report, r3 string, pt *ssa.Function) {
	env := &predEnv{atomize: c18Atomizer(), maxExp: 3}
	idle := fOr(fAnd(fAtom("complete"), fAtom("readIdle")), fAnd(fNot(fAtom("complete")), fAtom("writeIdle")))
	rms := callsInNamed(pt, "(*lib/torrent/scheduler.state).removeTorrent")
	var loop *RangeLoop
	for _, l := range rangeLoops(pt) {
		if !l.rangesOverField(fTorrentControls) {
			continue
		}
		for _, rm := range rms {
			if rm.Instr.Block() == l.Body || l.Body.Dominates(rm.Instr.Block()) {
				loop = l
			}
		}
	}
	if loop == nil || len(rms) == 0 {
		r.Bad(r3, pt, "idle removal", nil, "the preemption tick has no removal inside a loop over the torrent controls")
		return
	}
	nRm, nKeep := 0, 0
	ok, why := true, ""
	var where ssa.Instruction = rms[0].Instr
	for _, pr := range iterationPaths(env, pt, loop) {
		removed := false
		for _, rm := range rms {
			if pr.Path.hasInstr(rm.Instr) {
				removed = true
			}
		}
		for _, a := range pr.Alts {
			v := idle(a)
			if removed {
				nRm++
				if v != TriTrue {
					ok, why = false, fmt.Sprintf("a torrent is removed on a path where it is not known to be an idle seeder or an idle leecher %s", a)
				}
			} else {
				nKeep++
				if v != TriFalse {
					ok, why = false, fmt.Sprintf("a torrent that may be idle by its own clock is kept %s", a)
				}
			}
		}
	}
	if nRm == 0 || nKeep == 0 {
		ok, why = false, fmt.Sprintf("%d removing and %d keeping path(s)", nRm, nKeep)
	}
	r.Check(ok, r3, pt, "idle seeder condition", where, fmt.Sprintf("%d removing path(s) all idle, %d keeping path(s) all active", nRm, nKeep),
		"the timeout removal is not conditioned on (Complete ∧ now−LastReadTime ≥ SeederTTI) ∨ (¬Complete ∧ now−LastWriteTime ≥ LeecherTTI): "+why)
	r.Check(ok, r3, pt, "idle leecher condition", where, "same table", "see the idle seeder condition")
}
