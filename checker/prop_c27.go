package main

import (
	"fmt"
	"go/token"
	"sort"
	"strings"

	"golang.org/x/tools/go/ssa"
)

func init() {
	register("C27", checkC27)
	register("C29", checkC29)
}

const pkgPeerstore = "tracker/peerstore"

func checkC27(c *Ctx, r *Report) {
	const tLS, tPG, tPE = pkgPeerstore + ".LocalStore", pkgPeerstore + ".peerGroup", pkgPeerstore + ".peerEntry"
	r.Explain = "Locking and re-validation discipline of the in-memory peer store: the group table is accessed under the store mutex, each group's list/map/expiry/deleted flag under the group's mutex (write mode for mutation), peer entries are mutated only while some group mutex is held in write mode; the list and the map of a group are updated together; both cleanup passes re-test expiry after taking the write lock and before removing anything, and the get-or-create path re-tests the deleted flag after locking the group it found; locks are only taken in the order store → group; an update stamps the entry and the group with now+TTL."
	r.NotDecided = "Distinctness and the at-most-n count of the returned sample (index arithmetic over rand.Perm), TTL arithmetic."
	wr := "(*" + tLS + ").getOrInitLockedPeerGroup"
	r0 := r.Rule("R0", "E-LOCK(summary)", "getOrInitLockedPeerGroup returns, on every path, a group whose mutex it holds in write mode, and only after re-testing the group's deleted flag under that lock", 1)
	if w := r.MustFunc(r0, wr); w != nil {
		okW := verifyAcquireWrapper(w, "mu")
		okD := false
		for _, ret := range returnsOf(w) {
			if guardedBy(ret, boolFieldFact(tPG+".deleted", false)) {
				okD = true
			}
		}
		r.Check(okW && okD, r0, w, "returns locked, not-deleted group", nil, "summary holds", fmt.Sprintf("the acquire wrapper does not return with the group's mutex held (%v) after re-testing 'deleted' (%v): an update can be written into a group that cleanup has just removed", okW, okD))
		if okW {
			acquireWrappers[wr] = "mu"
			defer delete(acquireWrappers, wr)
		}
	}
	r1 := r.Rule("R1", "E-LOCK", "LocalStore.peerGroups under LocalStore.mu; peerGroup.{peerList,peerMap,lastExpiresAt,deleted} under peerGroup.mu; peerEntry fields written only while a peerGroup.mu is held in write mode", 10)
	checkLockRows(c, r, r1, []string{pkgPeerstore}, []LockRow{
		{Struct: tLS, Mutex: "mu", Fields: []string{"peerGroups"}, Ctors: []string{pkgPeerstore + ".NewLocalStore"}},
		{Struct: tPG, Mutex: "mu", Fields: []string{"peerList", "peerMap", "lastExpiresAt", "deleted"}},
	})
	r6 := r.Rule("R6", "E-ATOMICITY", "no value read from a group's guarded fields in one critical section is used to update them after the group mutex was released and re-taken", 2)
	checkStaleReads(c, r, r6, []string{pkgPeerstore}, []LockRow{
		{Struct: tPG, Mutex: "mu", Fields: []string{"peerList", "peerMap", "lastExpiresAt", "deleted"}},
	})
	for _, fn := range c.FuncsIn(pkgPeerstore) {
		if c.isFixture(fn) {
			continue
		}
		var sets map[ssa.Instruction]lockState
		bad := 0
		n := 0
		instrsOf(fn, func(in ssa.Instruction) {
			st, ok := in.(*ssa.Store)
			if !ok {
				return
			}
			fa, ok := st.Addr.(*ssa.FieldAddr)
			if !ok || typeName(fa.X.Type()) != tPE {
				return
			}
			if _, fresh := rootOf(fa.X).(*ssa.Alloc); fresh {
				return
			}
			if sets == nil {
				sets = locksets(fn, lockState{})
			}
			n++
			held := false
			for k, m := range sets[in] {
				if k.mutex == "mu" && m >= 2 && k.rtype == tPG {
					held = true
				}
			}
			if !held {
				bad++
			}
		})
		if n > 0 {
			r.Check(bad == 0, r1, fn, "peerEntry writes under a group lock", nil, fmt.Sprintf("%d writes", n), fmt.Sprintf("%d of %d writes to a peer entry are made without holding a group mutex in write mode: GetPeers can read a half-updated announcement", bad, n))
		}
	}

	r2 := r.Rule("R2", "E-COUPDATE", "a function that grows peerList also inserts into peerMap; a function that shrinks peerList also deletes from peerMap", 2)
	for _, fn := range c.FuncsIn(pkgPeerstore) {
		if c.isFixture(fn) {
			continue
		}
		grows, shrinks, ins, del := false, false, false, false
		for _, st := range storesToField(fn, tPG+".peerList") {
			if _, fresh := st.Addr.(*ssa.FieldAddr).X.(*ssa.Alloc); fresh {
				continue
			}
			if mentions(st.Val, func(v ssa.Value) bool { cl, ok := v.(*ssa.Call); return ok && calleeName(cl.Common()) == "builtin.append" }, 3) {
				grows = true
			}
			if _, isSl := st.Val.(*ssa.Slice); isSl {
				shrinks = true
			}
		}
		instrsOf(fn, func(in ssa.Instruction) {
			if mu, ok := in.(*ssa.MapUpdate); ok && isPureLoadOf(mu.Map, tPG+".peerMap") {
				ins = true
			}
			if isMapDeleteOn(in, tPG+".peerMap") {
				del = true
			}
		})
		if grows || ins {
			r.Check(grows && ins, r2, fn, "insert into list and map", nil, "both", "an announcement is added to only one of a group's list and map: it is returned twice or never refreshed")
		}
		if shrinks || del {
			r.Check(shrinks && del, r2, fn, "remove from list and map", nil, "both", "an announcement is removed from only one of a group's list and map")
		}
	}

	r3 := r.Rule("R3", "E-GUARD", "removal of an entry / of a group happens only where, with the group's write lock held, the expiry was re-tested (entry: not Before(expiresAt); group: After(lastExpiresAt)); marking a group deleted goes together with removing it from the table", 2)
	// every removal of an entry, wherever it is written (the cleanup pass, a helper
	// of the group, a function literal): guard and lock may be established at the
	// site or at every place the enclosing helper/closure is invoked from
	for _, ce := range c.FuncsIn(pkgPeerstore) {
		if c.isFixture(ce) {
			continue
		}
		instrsOf(ce, func(in ssa.Instruction) {
			if !isMapDeleteOn(in, tPG+".peerMap") {
				return
			}
			expired := guardedDeep(c, ce, in, func(cond ssa.Value, val bool) int {
				cl, ok := cond.(*ssa.Call)
				if !ok || !mentionsField(cl, tPE+".expiresAt") {
					return 0
				}
				switch calleeName(cl.Common()) {
				case "(time.Time).Before":
					return tern(val, -1, 1)
				case "(time.Time).After":
					return tern(val, 1, -1)
				}
				return 0
			}, 0)
			held := lockHeldDeep(c, ce, in, tPG, 0)
			// the re-test itself must be under the write lock as well
			r.Check(expired && held, r3, ce, "entry removal re-validated", in, "expiry re-tested under the write lock", "an announcement is removed without re-testing its expiry under the write lock: one renewed between the scan and the removal is forgotten while fresh")
		})
	}
	for _, cg := range c.FuncsIn(pkgPeerstore) {
		if c.isFixture(cg) {
			continue
		}
		instrsOf(cg, func(in ssa.Instruction) {
			if !isMapDeleteOn(in, tLS+".peerGroups") {
				return
			}
			expired := guardedDeep(c, cg, in, func(cond ssa.Value, val bool) int {
				cl, ok := cond.(*ssa.Call)
				if !ok || !mentionsField(cl, tPG+".lastExpiresAt") {
					return 0
				}
				switch calleeName(cl.Common()) {
				case "(time.Time).After":
					return tern(val, 1, -1)
				case "(time.Time).Before":
					return tern(val, -1, 1)
				}
				return 0
			}, 0)
			gHeld, sHeld := lockHeldDeep(c, cg, in, tPG, 0), lockHeldDeep(c, cg, in, tLS, 0)
			marked := false
			for _, st := range storesToField(cg, tPG+".deleted") {
				if isBoolConst(st.Val, true) && st.Block() == in.Block() {
					marked = true
				}
			}
			r.Check(expired && gHeld && sHeld && marked, r3, cg, "group removal re-validated", in, "expiry re-tested under both write locks, group marked deleted", "a group is removed without re-testing its expiry under its write lock, or without being marked deleted: a concurrent announcement is lost")
		})
	}

	r4 := r.Rule("R4", "E-LOCKORDER", "between LocalStore.mu and peerGroup.mu the only order is store → group", 1)
	edges := lockOrderEdges(c, []string{pkgPeerstore})
	var es []string
	bad := false
	for e, w := range edges {
		es = append(es, short(e[0])+" → "+short(e[1])+" ("+w+")")
		if strings.HasSuffix(e[0], "peerGroup.mu") && strings.HasSuffix(e[1], "LocalStore.mu") {
			bad = true
		}
	}
	sort.Strings(es)
	r.Extra["lock_order_edges"] = es
	r.Check(!bad && findCycle(edges) == nil, r4, nil, "lock order", nil, strings.Join(es, "; "), "the store mutex is acquired while a group mutex is held (or a cycle exists): deadlock with the cleanup pass")

	r5 := r.Rule("R5", "flow", "UpdatePeer stamps the entry's expiresAt with now+TTL and the group's lastExpiresAt with the same value", 1)
	if up := r.MustFunc(r5, "(*"+tLS+").UpdatePeer"); up != nil {
		okE, okG := false, false
		for _, st := range storesToField(up, tPE+".expiresAt") {
			if mentionsCall(st.Val, "(time.Time).Add") && mentionsField(st.Val, pkgPeerstore+".LocalConfig.TTL") {
				okE = true
			}
		}
		for _, st := range storesToField(up, tPG+".lastExpiresAt") {
			if mentionsField(st.Val, tPE+".expiresAt") || mentionsCall(st.Val, "(time.Time).Add") {
				okG = true
			}
		}
		r.Check(okE && okG, r5, up, "expiry stamps", nil, "entry and group stamped with now+TTL", "an announcement does not refresh the entry's and the group's expiry with now+TTL")
		// the clock is read while the group's write lock is held: announcements are
		// serialised by that lock, so lastExpiresAt can only move forward; a time read
		// before the lock can be older than one already stored by a concurrent caller
		for _, fld := range []string{tPE + ".expiresAt", tPG + ".lastExpiresAt"} {
			for _, st := range storesToField(up, fld) {
				var nows []*ssa.Call
				mentions(st.Val, func(v ssa.Value) bool {
					if cl, isC := v.(*ssa.Call); isC && isClockNow(cl) {
						nows = append(nows, cl)
					}
					return false
				}, 8)
				if len(nows) == 0 {
					// the group stamp is usually copied from the entry stamp just stored
					continue
				}
				okL := true
				for _, nc := range nows {
					if !lockHeldDeep(c, up, nc, tPG, 0) {
						okL = false
					}
				}
				r.Check(okL, r5, up, "clock read under the group lock ("+lastSeg(fld)+")", st, "Now() with the group's write lock held", "the expiry is computed from a clock reading taken before the group's write lock was acquired: two concurrent announcements can store their stamps in the opposite order of their clock readings, lastExpiresAt moves backwards and the cleanup drops a group that still holds an unexpired peer")
			}
		}
		// a peer gets a list slot only when it has no entry in the map: otherwise
		// one peer occupies two slots and is handed out twice
		instrsOf(up, func(in ssa.Instruction) {
			st, isSt := in.(*ssa.Store)
			if !isSt {
				return
			}
			fa, isFA := st.Addr.(*ssa.FieldAddr)
			if !isFA {
				return
			}
			if n, _ := fieldName(fa); n != tPG+".peerList" {
				return
			}
			if !mentionsCall(st.Val, "builtin.append") {
				return
			}
			miss := guardedBy(st, func(cond ssa.Value, val bool) int {
				ex, isEx := cond.(*ssa.Extract)
				if !isEx || ex.Index != 1 {
					return 0
				}
				lk, isL := ex.Tuple.(*ssa.Lookup)
				if !isL || !isPureLoadOf(lk.X, tPG+".peerMap") {
					return 0
				}
				return tern(val, -1, 1)
			})
			r.Check(miss, r5, up, "new list slot only for an unknown peer", st, "append on the lookup-miss side", "a peer that already has an entry in the group's map is appended to the peer list again (e.g. when its old entry expired): it occupies two slots and is handed out twice")
		})
	}
	_ = token.ADD
}

func checkC29(c *Ctx, r *Report) {
	const pkg = "utils/dedup"
	const tRC, tLim, tTask, tTrap = pkg + ".RequestCache", pkg + ".Limiter", pkg + ".task", pkg + ".IntervalTrap"
	r.Explain = "At-most-one-execution discipline of the deduplication utilities: the request cache's tables are accessed under its mutex, the limiter's task table under its RWMutex and each task's state under the task's condition lock; Start reserves the key before handing the request to a worker and releases the reservation on every path on which no worker took it; the worker goroutine always ends by recording the result/clearing the pending mark; garbage collection removes a task only where it is expired and not running, tested under the task lock; the interval trap re-tests readiness after taking the write lock and before running."
	r.NotDecided = "Linearizability of Start against completions under every interleaving; error-TTL arithmetic."
	r1 := r.Rule("R1", "E-LOCK", "RequestCache.{pending,errors,lastClean} under mu; Limiter.tasks under its RWMutex; IntervalTrap.prev under its RWMutex", 6)
	checkLockRows(c, r, r1, []string{pkg}, []LockRow{
		{Struct: tRC, Mutex: "mu", Fields: []string{"pending", "errors", "lastClean"}, Ctors: []string{pkg + ".NewRequestCache"}},
		{Struct: tLim, Mutex: "RWMutex", Fields: []string{"tasks"}, Ctors: []string{pkg + ".NewLimiter"}},
		{Struct: tTrap, Mutex: "RWMutex", Fields: []string{"prev"}, Ctors: []string{pkg + ".NewIntervalTrap"}},
	})
	checkDedupSpecific(c, r, pkg, tRC, tLim, tTask, tTrap)
}
