package main

import (
	"fmt"
	"go/token"

	"golang.org/x/tools/go/ssa"
)

func init() { register("C13", checkC13) }

const pkgCache = "utils/cache"

func checkC13(c *Ctx, r *Report) {
	const tBMC, tLRU = pkgCache + ".BlobMemoryCache", pkgCache + ".LRUCache"
	const fTotal = tBMC + ".totalSize"
	r.Explain = "Accounting discipline of the memory blob cache and the key LRU cache: (R1) their state is accessed under their mutexes; (R2) totalSize is written only by the reservation, release and removal primitives; (R3) the reservation is added only on the admitted side of the budget test against MaxSize; (R4) the only caller of ReleaseReservation is the write-through entry point, which releases exactly once on every path where the memory write failed and never on the success path; (R5) an entry is added only where the reserved size was compared equal with the number of bytes stored, because removal releases len(data); every removal of an entry releases its size; (R6) the LRU cache evicts on every insertion of a new key and Has tests expiry; (R7) a key leaves the key set and the order list together."
	r.NotDecided = "The numeric bound itself (sum of entries ≤ MaxSize) as an inductive invariant; that the order list is sorted by recency (only its agreement with the key set is decided)."

	defer rulesLRUOrderCoupdate(c, r)
	r1 := r.Rule("R1", "E-LOCK", "BlobMemoryCache.entries/totalSize and LRUCache.entries/lruOrder are accessed under their mutex (write mode for writes)", 10)
	checkLockRows(c, r, r1, []string{pkgCache}, []LockRow{
		{Struct: tBMC, Mutex: "mu", Fields: []string{"entries", "totalSize"}, Ctors: []string{pkgCache + ".NewBlobMemoryCache"}},
		{Struct: tLRU, Mutex: "mu", Fields: []string{"entries", "lruOrder"}, Ctors: []string{pkgCache + ".NewLRUCache"}},
	})

	r2 := r.Rule("R2", "E-OWN", "totalSize is stored only by TryReserve (+), ReleaseReservation (−) and decrementTotalSize (−/reset)", 3)
	writers := map[string]string{"(*" + tBMC + ").TryReserve": "+", "(*" + tBMC + ").ReleaseReservation": "-", "(*" + tBMC + ").decrementTotalSize": "-"}
	for _, fn := range c.Funcs {
		if c.isFixture(fn) {
			continue
		}
		for _, st := range storesToField(fn, fTotal) {
			sign, ok := writers[funcName(fn)]
			dir := ""
			if b, isB := st.Val.(*ssa.BinOp); isB {
				switch b.Op {
				case token.ADD:
					dir = "+"
				case token.SUB:
					dir = "-"
				}
			} else if isConstZero(st.Val) {
				dir = "-"
			}
			r.Check(ok && dir == sign, r2, fn, "store totalSize", st, "tabled writer, direction "+sign, "totalSize is written by "+funcName(fn)+" (direction '"+dir+"'), outside the reservation/release/removal primitives or in the wrong direction")
		}
	}

	r3 := r.Rule("R3", "E-GUARD", "the reservation is added to totalSize only where totalSize+size > MaxSize is false", 1)
	if tr := r.MustFunc(r3, "(*"+tBMC+").TryReserve"); tr != nil {
		for _, st := range storesToField(tr, fTotal) {
			ok := guardedBy(st, func(cond ssa.Value, val bool) int {
				b, isB := cond.(*ssa.BinOp)
				if !isB || !mentionsField(cond, fTotal) || !mentionsField(cond, pkgCache+".BlobMemoryCacheConfig.MaxSize") {
					return 0
				}
				if !mentions(cond, func(v ssa.Value) bool { return v == tr.Params[1] }, 4) {
					return 0
				}
				over := false
				switch b.Op {
				case token.GTR:
					over = val
				case token.LEQ:
					over = !val
				default:
					return 0
				}
				return tern(over, -1, 1)
			})
			r.Check(ok, r3, tr, "admission", st, "only when within budget", "a reservation is accounted without the budget test totalSize+size ≤ MaxSize for the same size")
		}
		// true only after adding
		for _, ret := range returnsOf(tr) {
			if isBoolConst(unspill(ret.Results[0]), true) {
				ok := false
				for _, st := range storesToField(tr, fTotal) {
					if precedes(st, ret) {
						ok = true
					}
				}
				r.Check(ok, r3, tr, "returns true", ret, "after accounting the reservation", "TryReserve reports success without accounting the reservation")
			}
		}
	}

	r4 := r.Rule("R4", "E-PAIR(paths)+E-OWN", "ReleaseReservation is called only by the write-through entry point; there, after TryReserve succeeded, every path on which the memory write failed releases exactly once with the reserved size, and the success path releases nothing", 1)
	const entry = "(*lib/store.CAStore).WriteBlobToCacheWithMetaInfo"
	for _, cs := range c.CallsTo("(*" + tBMC + ").ReleaseReservation") {
		if c.isFixture(cs.Caller) {
			continue
		}
		r.Check(funcName(cs.Caller) == entry, r4, cs.Caller, "ReleaseReservation", cs.Instr, "tabled caller", "ReleaseReservation is called from "+funcName(cs.Caller)+": a second release site makes a reservation released twice on some path (accounted bytes drop below stored bytes)")
	}
	if wt := r.MustFunc(r4, entry); wt != nil {
		trs := callsInNamed(wt, "(*"+tBMC+").TryReserve")
		adds := callsInNamed(wt, "(*lib/store.CAStore).addToMemoryCache")
		rels := callsInNamed(wt, "(*"+tBMC+").ReleaseReservation")
		ok := len(trs) == 1 && len(adds) == 1
		n, bad := 0, 0
		if ok {
			size := trs[0].Instr.Common().Args[1]
			forEachPath(wt, 5000, func(p Path) {
				if p.ret() == nil || !p.hasInstr(adds[0].Instr) {
					return
				}
				n++
				cnt := 0
				for _, rl := range rels {
					if p.hasInstr(rl.Instr) && rl.Instr.Common().Args[1] == size {
						cnt++
					} else if p.hasInstr(rl.Instr) {
						cnt += 10
					}
				}
				failed := p.failedOn(adds[0].Instr)
				succeeded := p.succeeded(adds[0].Instr)
				if failed && cnt != 1 || succeeded && cnt != 0 || !failed && !succeeded {
					bad++
				}
			})
			// reservation guards the memory path
			if !guardedBy(adds[0].Instr, func(cond ssa.Value, val bool) int {
				if mentions(cond, func(v ssa.Value) bool { return v == trs[0].Instr.Value() }, 5) {
					return tern(val, 1, -1)
				}
				return 0
			}) {
				ok = false
			}
			// same size passed on
			if adds[0].Instr.Common().Args[3] != size {
				ok = false
			}
		}
		r.Check(ok && n > 0 && bad == 0, r4, wt, "reserve / release pairing", nil, fmt.Sprintf("%d paths", n), fmt.Sprintf("reservation pairing broken (structure ok=%v; %d of %d paths through the memory write release the reservation a wrong number of times)", ok, bad, n))
	}

	r5 := r.Rule("R5", "E-GUARD+E-PAIR", "BlobMemoryCache.Add is reached only where the reserved size equals the number of bytes stored in the entry; every delete from entries is followed by a release of the entry's size", 2)
	for _, cs := range c.CallsTo(fnMemAdd) {
		fn := cs.Caller
		if c.isFixture(fn) {
			continue
		}
		data := entryFieldStore(cs.Instr.Common().Args[1], tMemEntry+".Data")
		ok := data != nil && guardedBy(cs.Instr, eqFact(func(b *ssa.BinOp) bool {
			isLen := func(v ssa.Value) bool {
				return mentions(v, func(w ssa.Value) bool {
					cl, isC := w.(*ssa.Call)
					if !isC {
						return false
					}
					bi, isB := cl.Call.Value.(*ssa.Builtin)
					return isB && bi.Name() == "len" && cl.Call.Args[0] == data
				}, 4)
			}
			isSize := func(v ssa.Value) bool {
				p, isP := v.(*ssa.Parameter)
				return isP && p.Name() == "size"
			}
			return isLen(b.X) && isSize(b.Y) || isLen(b.Y) && isSize(b.X)
		}, true))
		if !ok && data != nil {
			// the bytes come from a helper that returns them only where it compared
			// their length equal with the size it was given — the caller's size
			if ex, isEx := data.(*ssa.Extract); isEx {
				if wc, isC := ex.Tuple.(*ssa.Call); isC {
					if w := wc.Common().StaticCallee(); w != nil && w.Pkg == fn.Pkg && len(w.Blocks) > 0 && inSuccessRegion(wc, cs.Instr) {
						all, n := true, 0
						for _, ret := range returnsOf(w) {
							if classifyReturn(ret) == RetFailure || ex.Index >= len(ret.Results) {
								continue
							}
							n++
							d := unspill(ret.Results[ex.Index])
							same := guardedBy(ret, eqFact(func(b *ssa.BinOp) bool {
								isLen := func(v ssa.Value) bool {
									return mentions(v, func(x ssa.Value) bool {
										cl, isCl := x.(*ssa.Call)
										if !isCl {
											return false
										}
										bi, isB := cl.Call.Value.(*ssa.Builtin)
										return isB && bi.Name() == "len" && cl.Call.Args[0] == d
									}, 4)
								}
								isSizeParam := func(v ssa.Value) bool {
									for i, prm := range w.Params {
										if v == ssa.Value(prm) && i < len(wc.Common().Args) {
											p, isP := wc.Common().Args[i].(*ssa.Parameter)
											return isP && p.Name() == "size"
										}
									}
									return false
								}
								return isLen(b.X) && isSizeParam(b.Y) || isLen(b.Y) && isSizeParam(b.X)
							}, true))
							if !same {
								all = false
							}
						}
						if all && n > 0 {
							ok = true
						}
					}
				}
			}
		}
		r.Check(ok, r5, fn, "Add with reserved size == len(data)", cs.Instr, "sizes agree", "an entry is added although the reserved size was not compared equal with len(data): removal releases len(data), so the account drifts (stored bytes unaccounted, or other reservations wiped by the underflow reset)")
	}
	for _, fn := range c.FuncsIn(pkgCache) {
		if c.isFixture(fn) {
			continue
		}
		instrsOf(fn, func(in ssa.Instruction) {
			if !isMapDeleteOn(in, tBMC+".entries") {
				return
			}
			ok := false
			for _, cs := range callsInNamed(fn, "(*"+tBMC+").decrementTotalSize") {
				if precedes(in, cs.Instr) && mentionsCall(cs.Instr.Common().Args[1], "(*"+tMemEntry+").Size") {
					ok = true
				}
			}
			r.Check(ok, r5, fn, "delete(entries) ⇒ release", in, "entry size released", "an entry is removed from the cache without releasing its bytes from totalSize")
		})
	}

	r6 := r.Rule("R6", "E-ORDER", "LRUCache.Add passes evict on the new-key path; Has tests the expiry time; evict drops from the front of the order", 3)
	if ad := r.MustFunc(r6, "(*"+tLRU+").Add"); ad != nil {
		n, bad := 0, 0
		forEachPath(ad, 5000, func(p Path) {
			if p.ret() == nil {
				return
			}
			appended := false
			for _, st := range storesToField(ad, tLRU+".lruOrder") {
				if p.hasInstr(st) {
					appended = true
				}
			}
			if !appended {
				return
			}
			n++
			hit := false
			for _, cs := range callsInNamed(ad, "(*"+tLRU+").evict") {
				if p.hasInstr(cs.Instr) {
					hit = true
				}
			}
			if !hit {
				bad++
			}
		})
		r.Check(n > 0 && bad == 0, r6, ad, "new key ⇒ evict", nil, fmt.Sprintf("%d paths", n), "a new key is inserted without running eviction: the cache can hold more keys than configured")
	}
	if hs := r.MustFunc(r6, "(*"+tLRU+").Has"); hs != nil {
		ok := false
		notExpired := func(cond ssa.Value, val bool) int {
			if isCallTo(cond, "(time.Time).After") {
				return tern(val, -1, 1)
			}
			return 0
		}
		for _, ret := range returnsOf(hs) {
			v := unspill(ret.Results[0])
			if isBoolConst(v, true) {
				ok = guardedBy(ret, notExpired)
			}
			// `return exists && !expired`: a phi whose only non-false edge is the
			// negated expiry test itself
			if phi, isPhi := v.(*ssa.Phi); isPhi {
				good, any := true, false
				for _, e := range phi.Edges {
					if isBoolConst(e, false) {
						continue
					}
					any = true
					ev, pol := stripNot(e, true)
					if notExpired(ev, pol) <= 0 {
						good = false
					}
				}
				if good && any {
					ok = true
				}
			}
		}
		r.Check(ok, r6, hs, "Has tests expiry", nil, "true only when not expired", "Has reports a key without testing its expiry time")
	}
	if ev := r.MustFunc(r6, "(*"+tLRU+").evict"); ev != nil {
		ok := false
		instrsOf(ev, func(in ssa.Instruction) {
			ia, isIA := in.(*ssa.IndexAddr)
			if isIA && isPureLoadOf(ia.X, tLRU+".lruOrder") && isConstZero(ia.Index) {
				ok = true
			}
		})
		sizeLoop := false
		instrsOf(ev, func(in ssa.Instruction) {
			if iff, isIf := in.(*ssa.If); isIf && mentionsField(iff.Cond, pkgCache+".LRUCacheConfig.Size") && mentionsField(iff.Cond, tLRU+".entries") {
				sizeLoop = true
			}
		})
		r.Check(ok && sizeLoop, r6, ev, "evict oldest while over size", nil, "drops lruOrder[0] while len(entries) > Size", "eviction does not drop the oldest key while the cache is over its size")
	}
}
