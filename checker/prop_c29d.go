package main

import (
	"go/types"

	"golang.org/x/tools/go/ssa"
)

// taskFieldRoles resolves the limiter task's state fields by what they are:
// every field of the struct that is not its condition variable is state; of its
// two boolean flags, the tombstone is the one the garbage collector sets to true,
// the running flag is the other.
func taskFieldRoles(c *Ctx, pkg, tTask string) (running, deleted string, all []string) {
	running, deleted = tTask+".running", tTask+".deleted"
	all = []string{"running", "output", "expiresAt", "deleted"}
	p := c.PkgByID[K+"/"+pkg]
	if p == nil || p.Types == nil {
		return
	}
	obj := p.Types.Scope().Lookup("task")
	if obj == nil {
		return
	}
	st, ok := obj.Type().Underlying().(*types.Struct)
	if !ok {
		return
	}
	var bools, fields []string
	for i := 0; i < st.NumFields(); i++ {
		f := st.Field(i)
		ts := f.Type().String()
		if ts == "*sync.Cond" || ts == "sync.Mutex" || ts == "sync.RWMutex" {
			continue
		}
		fields = append(fields, f.Name())
		if ts == "bool" {
			bools = append(bools, f.Name())
		}
	}
	if len(fields) > 0 {
		all = fields
	}
	if len(bools) != 2 {
		return
	}
	gc := c.Func("(*" + pkg + ".limiterTaskGC).Run")
	if gc == nil {
		return
	}
	for i, b := range bools {
		for _, stt := range storesToField(gc, tTask+"."+b) {
			if isBoolConst(stt.Val, true) {
				deleted = tTask + "." + b
				running = tTask + "." + bools[1-i]
			}
		}
	}
	_ = ssa.Value(nil)
	return
}
