package main

import (
	"fmt"
	"go/token"
	"go/types"
	"sort"
	"strings"

	"golang.org/x/tools/go/ssa"
)

func init() { register("C37", checkC37) }

// sentinelFlows: v can be the backend's not-found sentinel by identity: a load of
// the global, a phi with such an edge, or the error result of a repo function
// (or of some implementation of an invoked interface method) that can return it.
// Wrapping (fmt.Errorf) does not preserve identity and is not followed.
func sentinelFlows(c *Ctx, v ssa.Value, global string, depth int, seen map[*ssa.Function]bool) bool {
	if depth > 5 || v == nil {
		return false
	}
	switch x := v.(type) {
	case *ssa.UnOp:
		if x.Op == token.MUL {
			if g, ok := x.X.(*ssa.Global); ok {
				return strings.HasSuffix(g.String(), global)
			}
			// defer-spilled or address-taken local
			if al, ok := x.X.(*ssa.Alloc); ok {
				for _, rf := range *al.Referrers() {
					if st, isSt := rf.(*ssa.Store); isSt && st.Addr == al && sentinelFlows(c, st.Val, global, depth+1, seen) {
						return true
					}
				}
			}
		}
	case *ssa.Phi:
		for _, e := range x.Edges {
			if sentinelFlows(c, e, global, depth+1, seen) {
				return true
			}
		}
	case *ssa.Extract:
		if cl, ok := x.Tuple.(*ssa.Call); ok {
			return calleeCanReturnSentinel(c, cl, global, depth, seen)
		}
	case *ssa.Call:
		return calleeCanReturnSentinel(c, x, global, depth, seen)
	case *ssa.ChangeInterface:
		return sentinelFlows(c, x.X, global, depth+1, seen)
	}
	return false
}

func calleeCanReturnSentinel(c *Ctx, cl *ssa.Call, global string, depth int, seen map[*ssa.Function]bool) bool {
	var targets []*ssa.Function
	if sf := cl.Common().StaticCallee(); sf != nil {
		targets = append(targets, sf)
	} else if cl.Common().IsInvoke() {
		targets = implementationsOf(c, cl.Common())
	}
	for _, t := range targets {
		if len(t.Blocks) == 0 || !c.inRepo(t) {
			continue
		}
		if canReturnSentinel(c, t, global, depth+1, seen) {
			return true
		}
	}
	return false
}

func canReturnSentinel(c *Ctx, fn *ssa.Function, global string, depth int, seen map[*ssa.Function]bool) bool {
	if seen[fn] {
		return false
	}
	seen[fn] = true
	defer delete(seen, fn)
	for _, ret := range returnsOf(fn) {
		ev := errOperand(ret)
		if ev != nil && sentinelFlows(c, ev, global, depth, seen) {
			return true
		}
	}
	return false
}

func checkC37(c *Ctx, r *Report) {
	const pkgBE = "lib/backend"
	const sentinel = "lib/backend/backenderrors.ErrBlobNotFound"
	r.Explain = "One clause of the backend contract, decided by cross-checking the sibling implementations of backend.Client: (R1) in every implementation, Stat and Download can return the not-found sentinel backenderrors.ErrBlobNotFound *by identity* (callers compare with ==): through a direct return of the global, or through the unwrapped error of a callee (or of an implementation of an invoked interface) that returns it. An implementation that wraps or drops the sentinel can never report 'not found'. (R2) a backend package that stores blobs in local files opens every write destination truncated or exclusively created, so that a shorter re-upload cannot keep the tail of the previous content (a necessary condition of 'returns exactly the bytes last uploaded')."
	r.NotDecided = "Everything else about stored bytes, sizes and listings: the behaviour of S3/GCS/HDFS/SQL/HTTP services and their SDKs is outside kraken's source. That the sentinel is returned exactly for names never uploaded (rather than on some path) is not decided either."
	r1 := r.Rule("R1", "E-SIBLING", "every type under lib/backend that implements backend.Client declares Stat and Download from which ErrBlobNotFound can flow out unwrapped", 16)
	var iface *types.Interface
	if p := c.PkgByID[K+"/"+pkgBE]; p != nil && p.Types != nil {
		if obj := p.Types.Scope().Lookup("Client"); obj != nil {
			iface, _ = obj.Type().Underlying().(*types.Interface)
		}
	}
	if iface == nil {
		r.Unresolved(r1, "interface lib/backend.Client not found")
		return
	}
	type impl struct {
		name string
		fns  map[string]*ssa.Function
	}
	impls := map[string]*impl{}
	for _, fn := range c.Funcs {
		if c.isFixture(fn) || fn.Parent() != nil || fn.Signature.Recv() == nil || !strings.HasPrefix(pkgOf(fn), pkgBE) {
			continue
		}
		if fn.Name() != "Stat" && fn.Name() != "Download" {
			continue
		}
		if strings.Contains(pkgOf(fn), "mock") {
			continue
		}
		rt := fn.Signature.Recv().Type()
		if !types.Implements(rt, iface) && !types.Implements(types.NewPointer(rt), iface) {
			continue
		}
		tn := typeName(rt)
		if impls[tn] == nil {
			impls[tn] = &impl{tn, map[string]*ssa.Function{}}
		}
		impls[tn].fns[fn.Name()] = fn
	}
	// R2: a backend that keeps blobs in local files (the testfs server) must open the
	// destination of an upload truncated (or freshly created): a writable open that
	// keeps the old content leaves the tail of a longer earlier upload behind a
	// shorter re-upload, so Download returns bytes that were never uploaded together.
	r2 := r.Rule("R2", "E-FLAGS", "every file a lib/backend package opens for writing is opened truncated or exclusively created (os.Create / os.WriteFile, or os.OpenFile with constant flags containing O_TRUNC or O_EXCL), or is truncated through the returned handle in the same function", 1)
	var beFns []*ssa.Function
	for _, fn := range c.Funcs {
		if c.isFixture(fn) || !strings.HasPrefix(pkgOf(fn), pkgBE) || strings.Contains(pkgOf(fn), "mock") {
			continue
		}
		beFns = append(beFns, fn)
	}
	sort.Slice(beFns, func(i, j int) bool { return funcName(beFns[i]) < funcName(beFns[j]) })
	for _, fn := range beFns {
		for _, cs := range callsIn(fn) {
			switch cs.Callee {
			case "os.Create", "os.WriteFile", "io/ioutil.WriteFile":
				r.OK(r2, fn, cs.Callee, cs.Instr, true, "truncating open")
			case "os.OpenFile":
				if len(cs.Instr.Common().Args) < 2 {
					continue
				}
				k, isConst := intConst(cs.Instr.Common().Args[1])
				switch {
				case !isConst:
					r.Undecided(r2, fn, "os.OpenFile flags", cs.Instr, "open flags are not constant")
				case k&0x3 == 0:
					r.OK(r2, fn, "os.OpenFile(read-only)", cs.Instr, false, "not opened for writing")
				case k&(0x200|0x80) != 0:
					r.OK(r2, fn, "os.OpenFile(O_TRUNC|O_EXCL)", cs.Instr, true, "truncating or exclusive open")
				default:
					truncated := false
					if v := cs.Instr.Value(); v != nil {
						var walk func(x ssa.Value, d int)
						walk = func(x ssa.Value, d int) {
							if d > 3 || x.Referrers() == nil {
								return
							}
							for _, rf := range *x.Referrers() {
								switch y := rf.(type) {
								case *ssa.Extract:
									walk(y, d+1)
								case *ssa.Phi:
									walk(y, d+1)
								case ssa.CallInstruction:
									if calleeName(y.Common()) == "(*os.File).Truncate" && len(y.Common().Args) > 0 && y.Common().Args[0] == x {
										truncated = true
									}
								}
							}
						}
						walk(v, 0)
					}
					r.Check(truncated, r2, fn, "os.OpenFile(writable, keeps content)", cs.Instr, "truncated through the handle",
						"the file is opened for writing without O_TRUNC/O_EXCL and never truncated: a shorter upload under an existing name keeps the tail of the previous content")
				}
			}
		}
	}

	// R3: the content of an upload reaches the store untransformed. Forward taint from
	// the io.Reader parameter of every Upload implementation: results of calls that
	// take a tainted operand, and the pointer operands of such calls (the buffer that
	// ReadFrom fills), are tainted; a tainted operand handed to a function of
	// strings/bytes that rewrites its input is a violation.
	r3 := r.Rule("R3", "E-TAINT", "in every Upload implementation of backend.Client no value derived from the source reader is passed through a content-rewriting function of strings/bytes (Trim*, To*, Replace*, Map, Title, Fields, Split*, Repeat)", 8)
	rewrites := func(n string) bool {
		for _, p := range []string{"strings.", "bytes."} {
			if strings.HasPrefix(n, p) {
				f := strings.TrimPrefix(n, p)
				for _, pre := range []string{"Trim", "To", "Replace", "Map", "Title", "Fields", "Split", "Repeat"} {
					if strings.HasPrefix(f, pre) {
						return true
					}
				}
			}
		}
		return false
	}
	var ups []*ssa.Function
	for _, fn := range c.Funcs {
		if c.isFixture(fn) || fn.Parent() != nil || fn.Signature.Recv() == nil || fn.Name() != "Upload" || !strings.HasPrefix(pkgOf(fn), pkgBE) || strings.Contains(pkgOf(fn), "mock") {
			continue
		}
		rt := fn.Signature.Recv().Type()
		if !types.Implements(rt, iface) && !types.Implements(types.NewPointer(rt), iface) {
			continue
		}
		ups = append(ups, fn)
	}
	sort.Slice(ups, func(i, j int) bool { return funcName(ups[i]) < funcName(ups[j]) })
	for _, fn := range ups {
		var src *ssa.Parameter
		for _, p := range fn.Params {
			if nm := namedOf(p.Type()); nm != nil && nm.Obj().Pkg() != nil && nm.Obj().Pkg().Path() == "io" && nm.Obj().Name() == "Reader" {
				src = p
			}
		}
		if src == nil {
			r.Unresolved(r3, funcName(fn)+": no io.Reader parameter")
			continue
		}
		r.Analysed(fn)
		tainted := map[ssa.Value]bool{src: true}
		var bad ssa.Instruction
		badName := ""
		for changed := true; changed; {
			changed = false
			mark := func(v ssa.Value) {
				if v != nil && !tainted[v] {
					tainted[v] = true
					changed = true
				}
			}
			for _, b := range fn.Blocks {
				for _, in := range b.Instrs {
					var ops []*ssa.Value
					any := false
					for _, op := range in.Operands(ops) {
						if *op != nil && tainted[*op] {
							any = true
						}
					}
					if !any {
						continue
					}
					switch x := in.(type) {
					case *ssa.Store:
						if tainted[x.Val] {
							mark(x.Addr)
						}
					case ssa.CallInstruction:
						if n := calleeName(x.Common()); rewrites(n) && bad == nil {
							bad, badName = in, n
						}
						if v := x.Value(); v != nil {
							mark(v)
						}
						args := x.Common().Args
						if x.Common().IsInvoke() {
							args = append([]ssa.Value{x.Common().Value}, args...)
						}
						for _, a := range args {
							if _, isPtr := a.Type().Underlying().(*types.Pointer); isPtr {
								mark(a)
							}
						}
					default:
						if v, isV := in.(ssa.Value); isV {
							mark(v)
						}
					}
				}
			}
		}
		r.Check(bad == nil, r3, fn, "upload content untransformed", bad, fmt.Sprintf("%d values derive from the source; none is rewritten", len(tainted)),
			"the uploaded content passes through "+badName+" before it is stored: Download returns bytes that differ from the bytes uploaded")
	}

	var names []string
	for n := range impls {
		names = append(names, n)
	}
	sort.Strings(names)
	for _, n := range names {
		for _, m := range []string{"Stat", "Download"} {
			fn := impls[n].fns[m]
			if fn == nil {
				continue // promoted from an embedded Client: decided at the embedded implementation
			}
			ok := canReturnSentinel(c, fn, sentinel[strings.LastIndex(sentinel, "/")+1:], 0, map[*ssa.Function]bool{})
			r.Check(ok, r1, fn, "not-found sentinel can be returned", nil, "ErrBlobNotFound flows out by identity",
				fmt.Sprintf("%s.%s can never return backenderrors.ErrBlobNotFound itself (it is wrapped, replaced or not produced): callers that test err == ErrBlobNotFound treat a missing blob as a backend failure", short(n), m))
		}
	}
}
