package main

import (
	"strings"

	"golang.org/x/tools/go/ssa"
)

// rulesPieceStatusSource (C04.R6): the piece-status sidecar of a download is
// trusted only through get-or-set. GetOrSetMetadata consults the file entry's
// in-memory metadata set, so a `_status` file left in the download directory by
// a commit that crashed between the data rename and the removal of the
// directory is overwritten with the fresh all-empty vector when the blob is
// downloaded again; a plain GetMetadata reads whatever file lies there and
// would report a zero-filled data file complete. So in the agent's torrent
// storage the status vector that decides which pieces are complete is read by
// GetOrSetMetadata; the plain reader is allowed only in Stat, which reports and
// never commits.
func rulesPieceStatusSource(c *Ctx, r *Report) {
	const pkg = "lib/torrent/storage/agentstorage"
	r6 := r.Rule("R6", "E-OWN", "in the agent torrent storage the piece-status sidecar is read with GetOrSetMetadata (which ignores a file that does not belong to the current file entry); the plain GetMetadata reader is used for it only by TorrentArchive.Stat", 2)
	isStatus := func(v ssa.Value) bool {
		mi, ok := v.(*ssa.MakeInterface)
		return ok && strings.HasSuffix(typeName(mi.X.Type()), pkg+".pieceStatusMetadata")
	}
	nGetOrSet := 0
	for _, fn := range c.FuncsIn(pkg) {
		if c.isFixture(fn) {
			continue
		}
		for _, cs := range callsIn(fn) {
			status := false
			for _, a := range cs.Instr.Common().Args {
				if isStatus(a) {
					status = true
				}
			}
			if !status || !strings.Contains(cs.Callee, "lib/store") {
				continue
			}
			switch lastSeg(cs.Callee) {
			case "GetOrSetMetadata":
				nGetOrSet++
				r.OK(r6, fn, "piece status via get-or-set", cs.Instr, true, "stale sidecars are overwritten")
			case "GetMetadata":
				r.Check(funcName(fn) == "(*"+pkg+".TorrentArchive).Stat", r6, fn, "plain read of the piece status", cs.Instr, "informational only (Stat)",
					"the piece-status sidecar is read with the plain GetMetadata: a `_status` file left behind by a commit that crashed before the download directory was removed is trusted when the blob is downloaded again, so a freshly created zero-filled file is reported complete and committed to the cache")
			}
		}
	}
	if nGetOrSet == 0 {
		r.Unresolved(r6, "no GetOrSetMetadata of the piece status in "+pkg)
	}
}
