package main

import (
	"fmt"
	"go/token"

	"golang.org/x/tools/go/ssa"
)

func init() { register("C02", checkC02) }

func checkC02(c *Ctx, r *Report) {
	r.Explain = "Structural agreement conditions for torrent metainfo: (S1) the stream and the in-memory piece-sum generators both reject a non-positive piece length before hashing, use the same checksum family (CRC-32 IEEE, via PieceHash / PieceSum), cut pieces by the same piece-length parameter, and their results reach a MetaInfo only through the single assembler, together with the same piece length; (O1) a MetaInfo value is constructed only by the assembler and the deserialiser, after the info hash was computed successfully from the very info struct stored in it, with the digest tied to info.Name; (CODEC) serialisation writes exactly the info struct that the hash is computed from, and deserialisation stores what it decoded; (P1) the piece-length table is sorted ascending by size, lookup starts from the smallest entry and stops at the first threshold above the size; both CAStore metainfo paths take the piece length from the caller unchanged."
	r.NotDecided = "Piece-boundary arithmetic (offsets, last-piece length), equality of the two generators on every blob, the threshold lookup on boundary values: numeric facts. An off-by-one inside one generator is invisible to these rules."
	s1 := r.Rule("S1", "E-SIBLING", "calcPieceSums and calcPieceSumsFromBytes: same guard, same checksum family, piece size taken from the pieceLength parameter, single consumer", 4)
	gens := []string{"core.calcPieceSums", "core.calcPieceSumsFromBytes"}
	for _, g := range gens {
		fn := r.MustFunc(s1, g)
		if fn == nil {
			continue
		}
		var pl *ssa.Parameter
		for _, p := range fn.Params {
			if p.Name() == "pieceLength" {
				pl = p
			}
		}
		if pl == nil {
			r.Undecided(s1, fn, "pieceLength parameter", nil, "no parameter named pieceLength")
			continue
		}
		// every hashing call is on the pieceLength > 0 side
		nh, bad := 0, 0
		// a call to a helper of the package that does the hashing counts as a hashing call
		hashingHelper := func(cs *CallSite) (*ssa.Function, bool) {
			sf := cs.Instr.Common().StaticCallee()
			if sf == nil || sf.Pkg != fn.Pkg || sf == fn {
				return nil, false
			}
			return sf, len(callsInNamed(sf, "core.PieceHash", "core.PieceSum", "io.CopyN")) > 0 && sf.Name() != "PieceSum" && sf.Name() != "PieceHash"
		}
		for _, cs := range callsIn(fn) {
			callee := cs.Callee
			if _, isH := hashingHelper(cs); isH {
				callee = "io.CopyN"
			}
			switch callee {
			case "core.PieceHash", "core.PieceSum", "io.CopyN":
				nh++
				if !guardedBy(cs.Instr, func(cond ssa.Value, val bool) int {
					b, ok := cond.(*ssa.BinOp)
					if !ok || b.X != pl || !isConstZero(b.Y) {
						return 0
					}
					switch b.Op {
					case token.LEQ:
						return tern(val, -1, 1)
					case token.GTR:
						return tern(val, 1, -1)
					}
					return 0
				}) {
					bad++
				}
			}
		}
		r.Check(nh > 0 && bad == 0, s1, fn, "positive piece length before hashing", nil, fmt.Sprintf("%d hashing call(s) guarded", nh), "pieces are hashed without rejecting a non-positive piece length first")
		// piece size derives from the parameter
		usesPL := false
		instrsOf(fn, func(in ssa.Instruction) {
			switch x := in.(type) {
			case *ssa.Call:
				if calleeName(x.Common()) == "io.CopyN" && x.Call.Args[2] == pl {
					usesPL = true
				}
			case *ssa.BinOp:
				if x.Op == token.ADD && (x.Y == pl || x.X == pl) {
					usesPL = true
				}
			}
		})
		if !usesPL {
			// through a helper: the parameter is passed on and bounds the copy there
			for _, cs := range callsIn(fn) {
				sf, isH := hashingHelper(cs)
				if !isH {
					continue
				}
				for i, a := range cs.Instr.Common().Args {
					if a != ssa.Value(pl) || i >= len(sf.Params) {
						continue
					}
					for _, cn := range callsInNamed(sf, "io.CopyN") {
						if cn.Instr.Common().Args[2] == ssa.Value(sf.Params[i]) {
							usesPL = true
						}
					}
				}
			}
		}
		r.Check(usesPL, s1, fn, "piece size = pieceLength", nil, "chunks cut by the parameter", "the generator does not cut pieces by its pieceLength parameter")
	}
	// checksum family
	ph, ps := r.MustFunc(s1, "core.PieceHash"), r.MustFunc(s1, "core.PieceSum")
	if ph != nil && ps != nil {
		okh := len(callsInNamed(ph, "hash/crc32.NewIEEE")) == 1
		oks := len(callsInNamed(ps, "hash/crc32.ChecksumIEEE")) == 1 || len(callsInNamed(ps, "core.PieceHash")) == 1
		r.Check(okh && oks, s1, ps, "same checksum family", nil, "crc32 IEEE in both", "PieceHash and PieceSum do not use the same CRC-32 (IEEE) checksum: the stream and buffer generators disagree")
	}
	// single consumer
	for _, g := range gens {
		for _, cs := range c.CallsTo(g) {
			fn := cs.Caller
			if c.isFixture(fn) {
				continue
			}
			ok := false
			for _, as := range callsInNamed(fn, "core.assembleMetaInfo") {
				a := as.Instr.Common().Args
				sums := resultN(cs.Instr, 1)
				lens := resultN(cs.Instr, 0)
				if len(sums) == 1 && len(lens) == 1 && a[1] == lens[0] && a[2] == sums[0] && a[3] == cs.Instr.Common().Args[1] && inSuccessRegion(cs.Instr, as.Instr) {
					ok = true
				}
			}
			r.Check(ok, s1, fn, "generator result → assembler", cs.Instr, "length, sums and the same pieceLength passed to assembleMetaInfo", "piece sums reach a MetaInfo with a different length/piece length than they were computed with")
		}
	}

	o1 := r.Rule("O1", "E-OWN+E-ORDER", "core.MetaInfo is constructed only in assembleMetaInfo and DeserializeMetaInfo, in the success region of info.Hash() on the same info value, with infoHash = that hash; the digest is the parameter whose Hex() is info.Name, or is parsed from info.Name", 2)
	allowed := map[string]bool{"core.assembleMetaInfo": true, "core.DeserializeMetaInfo": true}
	for _, fn := range c.Funcs {
		if c.isFixture(fn) {
			continue
		}
		var sts []*ssa.Store
		sts = append(sts, storesToField(fn, "core.MetaInfo.infoHash")...)
		if len(sts) == 0 && len(storesToField(fn, "core.MetaInfo.info")) == 0 && len(storesToField(fn, "core.MetaInfo.digest")) == 0 {
			continue
		}
		if !allowed[funcName(fn)] {
			r.Bad(o1, fn, "constructs MetaInfo", nil, "a MetaInfo is built outside the assembler/deserialiser: its info hash, digest and info can disagree")
			continue
		}
		ok := len(sts) == 1
		if ok {
			hs := callsInNamed(fn, "(*core.info).Hash")
			ok = len(hs) == 1 && inSuccessRegion(hs[0].Instr, sts[0]) && mentions(sts[0].Val, func(v ssa.Value) bool {
				ex, isEx := v.(*ssa.Extract)
				return isEx && ex.Tuple == hs[0].Instr.Value()
			}, 3)
		}
		// digest ↔ name
		okd := false
		for _, ds := range storesToField(fn, "core.MetaInfo.digest") {
			switch funcName(fn) {
			case "core.assembleMetaInfo":
				// info.Name = d.Hex() with the same d
				for _, ns := range storesToField(fn, "core.info.Name") {
					if cl, isC := ns.Val.(*ssa.Call); isC && calleeName(cl.Common()) == "(core.Digest).Hex" && cl.Call.Args[0] == ds.Val {
						okd = true
					}
				}
			case "core.DeserializeMetaInfo":
				if mentionsCall(ds.Val, "core.NewSHA256DigestFromHex") {
					for _, cs := range callsInNamed(fn, "core.NewSHA256DigestFromHex") {
						if mentionsField(cs.Instr.Common().Args[0], "core.info.Name") && inSuccessRegion(cs.Instr, ds) {
							okd = true
						}
					}
				}
			}
		}
		r.Check(ok && okd, o1, fn, "MetaInfo construction", nil, "hash of the stored info, digest tied to info.Name", fmt.Sprintf("MetaInfo is constructed without (info hash computed successfully from its info: %v; digest tied to info.Name: %v)", ok, okd))
	}

	cd := r.Rule("CODEC", "E-CODEC", "Serialize marshals metaInfoJSON{mi.info}; DeserializeMetaInfo unmarshals into metaInfoJSON and stores its Info as MetaInfo.info", 2)
	if se := r.MustFunc(cd, "(*core.MetaInfo).Serialize"); se != nil {
		ok := false
		for _, cs := range callsInNamed(se, "encoding/json.Marshal") {
			if mentionsField(cs.Instr.Common().Args[0], "core.MetaInfo.info") && mentions(cs.Instr.Common().Args[0], func(v ssa.Value) bool {
				al, isAl := v.(*ssa.Alloc)
				return isAl && typeName(al.Type()) == "core.metaInfoJSON"
			}, 4) {
				ok = true
			}
		}
		r.Check(ok, cd, se, "writer", nil, "metaInfoJSON{mi.info}", "Serialize does not write the info struct the hash is computed from")
	}
	if de := r.MustFunc(cd, "core.DeserializeMetaInfo"); de != nil {
		ok := false
		for _, st := range storesToField(de, "core.MetaInfo.info") {
			if mentionsField(st.Val, "core.metaInfoJSON.Info") {
				ok = true
			}
		}
		hashed := false
		for _, cs := range callsInNamed(de, "(*core.info).Hash") {
			if mentionsField(cs.Instr.Common().Args[0], "core.metaInfoJSON.Info") {
				hashed = true
			}
		}
		r.Check(ok && hashed, cd, de, "reader", nil, "decoded Info is both hashed and stored", "the deserialiser hashes or stores something else than the decoded info")
	}

	p1 := r.Rule("P1", "flow", "pieceLengthConfig: ranges sorted ascending by fileSize; get starts from ranges[0] and leaves the scan at the first range whose fileSize exceeds the blob size; the generator passes get(size of the cached file) to NewMetaInfo", 3)
	if nc := r.MustFunc(p1, "lib/metainfogen.newPieceLengthConfig"); nc != nil {
		ok := false
		for _, cs := range callsInNamed(nc, "sort.Slice") {
			if mc, isMC := cs.Instr.Common().Args[1].(*ssa.MakeClosure); isMC {
				less := mc.Fn.(*ssa.Function)
				for _, ret := range returnsOf(less) {
					if b, isB := ret.Results[0].(*ssa.BinOp); isB && b.Op == token.LSS && mentionsField(b.X, "lib/metainfogen.rangeConfig.fileSize") && mentionsField(b.Y, "lib/metainfogen.rangeConfig.fileSize") &&
						mentions(b.X, func(v ssa.Value) bool { return v == less.Params[0] }, 6) && mentions(b.Y, func(v ssa.Value) bool { return v == less.Params[1] }, 6) {
						ok = true
					}
				}
			}
		}
		if !ok {
			// sort-then-build form: the thresholds (the map's keys) are collected into a
			// slice that is sorted ascending, and the table is then built by ranging
			// over that sorted slice, each entry's fileSize coming from the element
			for _, cs := range callsInNamed(nc, "sort.Slice") {
				mc, isMC := cs.Instr.Common().Args[1].(*ssa.MakeClosure)
				if !isMC || len(mc.Bindings) != 1 {
					continue
				}
				keys := mc.Bindings[0] // the captured slice variable
				less := mc.Fn.(*ssa.Function)
				asc := false
				for _, ret := range returnsOf(less) {
					b, isB := ret.Results[0].(*ssa.BinOp)
					if !isB || b.Op != token.LSS {
						continue
					}
					viaKeys := func(v ssa.Value, p *ssa.Parameter) bool {
						return mentions(v, func(w ssa.Value) bool { return w == ssa.Value(p) }, 6) &&
							mentions(v, func(w ssa.Value) bool { return w == ssa.Value(less.FreeVars[0]) }, 6)
					}
					if viaKeys(b.X, less.Params[0]) && viaKeys(b.Y, less.Params[1]) && !viaKeys(b.X, less.Params[1]) && !viaKeys(b.Y, less.Params[0]) {
						asc = true
					}
				}
				if !asc || !mentions(cs.Instr.Common().Args[0], func(w ssa.Value) bool { return w == keys }, 4) {
					continue
				}
				for _, l := range rangeLoops(nc) {
					if l.IsMap || !mentions(l.Ranged, func(w ssa.Value) bool { return w == keys }, 3) || !precedesBlock(cs.Instr, l.Header) {
						continue
					}
					for _, st := range storesToField(nc, "lib/metainfogen.rangeConfig.fileSize") {
						if l.contains(st.Block()) && l.derivesFromElem(st.Val) {
							ok = true
						}
					}
				}
			}
		}
		r.Check(ok, p1, nc, "thresholds sorted ascending", nil, "sort.Slice by fileSize <", "the threshold table is not sorted ascending by size")
	}
	if g := r.MustFunc(p1, "(*lib/metainfogen.pieceLengthConfig).get"); g != nil {
		okStart, okBreak := false, false
		instrsOf(g, func(in ssa.Instruction) {
			if ia, isIA := in.(*ssa.IndexAddr); isIA && mentionsField(ia.X, "lib/metainfogen.pieceLengthConfig.ranges") {
				if isConstZero(ia.Index) {
					okStart = true
				}
				// the position of the match is tracked instead of its value: it starts at 0
				if phi, isPhi := ia.Index.(*ssa.Phi); isPhi {
					for _, e := range phi.Edges {
						if isConstZero(e) {
							okStart = true
						}
					}
				}
			}
			if iff, isIf := in.(*ssa.If); isIf {
				if b, isB := iff.Cond.(*ssa.BinOp); isB && b.Op == token.LSS && b.X == g.Params[1] && mentionsField(b.Y, "lib/metainfogen.rangeConfig.fileSize") {
					// true edge leaves the loop
					for _, l := range rangeLoops(g) {
						inBody := func(bb *ssa.BasicBlock) bool { return bb == l.Body || l.Body.Dominates(bb) }
						if inBody(iff.Block()) && !inBody(iff.Block().Succs[0]) {
							okBreak = true
						}
					}
				}
			}
		})
		r.Check(okStart && okBreak, p1, g, "largest threshold not above the size", nil, "start at ranges[0], break at first larger threshold", "the piece-length lookup does not start from the smallest entry or does not stop at the first threshold above the size")
	}
	if gen := r.MustFunc(p1, "(*lib/metainfogen.Generator).Generate"); gen != nil {
		ok := false
		for _, cs := range callsInNamed(gen, "core.NewMetaInfo") {
			a := cs.Instr.Common().Args
			viaGet := mentionsCall(a[2], "(*lib/metainfogen.pieceLengthConfig).get") || mentions(a[2], func(v ssa.Value) bool {
				// an accessor of the package whose every return is get(its parameter)
				cl, isC := v.(*ssa.Call)
				if !isC {
					return false
				}
				h := cl.Common().StaticCallee()
				if h == nil || h.Pkg != gen.Pkg || len(h.Blocks) == 0 {
					return false
				}
				n := 0
				for _, ret := range returnsOf(h) {
					if len(ret.Results) != 1 || !isCallTo(unspill(ret.Results[0]), "(*lib/metainfogen.pieceLengthConfig).get") {
						return false
					}
					n++
				}
				return n > 0
			}, 5)
			if viaGet && mentions(a[2], func(v ssa.Value) bool {
				cl, isC := v.(*ssa.Call)
				return isC && lastSeg(calleeName(cl.Common())) == "Size"
			}, 5) {
				ok = true
			}
		}
		r.Check(ok, p1, gen, "piece length from blob size", nil, "NewMetaInfo(d, f, get(info.Size()))", "the generator does not take the piece length from the configured table for the blob's size")
	}
}
