package main

import (
	"golang.org/x/tools/go/ssa"
)

// isClockNow: v is the result of a Now() call on a clock (clock.Clock or time).
func isClockNow(v ssa.Value) bool {
	cl, ok := v.(*ssa.Call)
	if !ok {
		return false
	}
	switch calleeName(cl.Common()) {
	case "(github.com/andres-erbsen/clock.Clock).Now", "time.Now":
		return true
	}
	return false
}

// freshTimeAt: v, used at site in fn, is a clock reading taken for this use: a
// Now() call in fn, or — if v is a parameter of fn — a fresh reading at every
// call site of fn (one level).
func freshTimeAt(c *Ctx, fn *ssa.Function, v ssa.Value) (bool, string) {
	if isClockNow(v) {
		return true, "clock read at the stamp"
	}
	if p, ok := v.(*ssa.Parameter); ok {
		idx := -1
		for i, q := range fn.Params {
			if q == p {
				idx = i
			}
		}
		calls := c.CallsTo(funcName(fn))
		if idx < 0 || len(calls) == 0 {
			return false, "timestamp is a parameter with no resolvable call site"
		}
		for _, cs := range calls {
			if c.isFixture(cs.Caller) {
				continue
			}
			a := cs.Instr.Common().Args
			if idx >= len(a) || !isClockNow(a[idx]) {
				return false, "the caller passes a time that was not read from the clock at the stamp (" + funcName(cs.Caller) + ")"
			}
		}
		return true, "clock read by every caller at the stamp"
	}
	return false, "timestamp is not a clock reading taken at the stamp"
}

// rulesFreshStamp (C18.R5): an activity timestamp records WHEN the activity
// finished; storing an older time (captured when the work was requested, say)
// lets a slow operation move the timestamp backwards, so an active torrent looks
// idle.
func rulesFreshStamp(c *Ctx, r *Report, fields []string) {
	r5 := r.Rule("R5", "flow", "every store to an activity timestamp outside construction stores a clock reading (Now()) taken in the storing function, or by each of its callers in the argument", 4)
	n := 0
	for _, f := range fields {
		for _, fn := range c.FuncsIn(pkgDispatch) {
			if c.isFixture(fn) {
				continue
			}
			for _, st := range storesToField(fn, f) {
				if fa, ok := st.Addr.(*ssa.FieldAddr); ok {
					if _, fresh := fa.X.(*ssa.Alloc); fresh {
						continue
					}
				}
				n++
				ok, why := freshTimeAt(c, fn, st.Val)
				r.Check(ok, r5, fn, "store "+lastSeg(f), st, why, "activity timestamp "+lastSeg(f)+" is set to a time other than 'now at completion' ("+why+"): a slow operation that finishes late can move it backwards, and the idle timeout then drops a torrent that was active seconds ago")
			}
		}
	}
	if n == 0 {
		r.Unresolved(r5, "no store to an activity timestamp found")
	}
}
