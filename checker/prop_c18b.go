package main

import (
	"golang.org/x/tools/go/ssa"
)

// isClockNow: v is the result of a Now() call on a clock (clock.Clock or time).
func isClockNow(v ssa.Value) bool {
	cl, ok := v.(*ssa.Call)
	if !ok {
		return false
	}
	switch calleeName(cl.Common()) {
	case "(github.com/andres-erbsen/clock.Clock).Now", "time.Now":
		return true
	}
	return false
}

// freshTimeAt: v, used at site in fn, is a clock reading taken for this use: a
// Now() call in fn, or — if v is a parameter of fn — a fresh reading at every
// call site of fn (one level).
func freshTimeAt(c *Ctx, fn *ssa.Function, v ssa.Value) (bool, string) {
	if isClockNow(v) {
		return true, "clock read at the stamp"
	}
	if p, ok := v.(*ssa.Parameter); ok {
		idx := -1
		for i, q := range fn.Params {
			if q == p {
				idx = i
			}
		}
		calls := c.CallsTo(funcName(fn))
		if idx < 0 || len(calls) == 0 {
			return false, "timestamp is a parameter with no resolvable call site"
		}
		for _, cs := range calls {
			if c.isFixture(cs.Caller) {
				continue
			}
			a := cs.Instr.Common().Args
			if idx >= len(a) || !isClockNow(a[idx]) {
				return false, "the caller passes a time that was not read from the clock at the stamp (" + funcName(cs.Caller) + ")"
			}
		}
		return true, "clock read by every caller at the stamp"
	}
	return false, "timestamp is not a clock reading taken at the stamp"
}

// rulesFreshStamp (C18.R5): an activity timestamp records WHEN the activity
// finished; storing an older time (captured when the work was requested, say)
// lets a slow operation move the timestamp backwards, so an active torrent looks
// idle.
func rulesFreshStamp(c *Ctx, r *Report, fields []string) {
	r5 := r.Rule("R5", "flow", "every store to an activity timestamp outside construction stores a clock reading (Now()) taken in the storing function, or by each of its callers in the argument", 4)
	n := 0
	for _, f := range fields {
		for _, fn := range c.FuncsIn(pkgDispatch) {
			if c.isFixture(fn) {
				continue
			}
			for _, site := range stampSitesOf(c, fn, f) {
				if site.fresh {
					continue
				}
				n++
				ok, why := freshTimeAt(c, site.in, site.store.Val)
				r.Check(ok, r5, fn, "store "+lastSeg(f), site.at, why, "activity timestamp "+lastSeg(f)+" is set to a time other than 'now at completion' ("+why+"): a slow operation that finishes late can move it backwards, and the idle timeout then drops a torrent that was active seconds ago")
			}
		}
	}
	if n == 0 {
		r.Unresolved(r5, "no store to an activity timestamp found")
	}
}

// stampSite is one place where a function writes a timestamp field: a direct
// store, or a call that passes the field's address to a helper of the package
// which stores through that pointer parameter (`w.touch(&w.lastRead)`).
type stampSite struct {
	at    ssa.Instruction // the store, or the call that passes the address
	in    *ssa.Function   // the function containing the store
	store *ssa.Store
	fresh bool // the object is allocated in the same function (construction)
}

func stampSitesOf(c *Ctx, fn *ssa.Function, field string) []stampSite {
	var out []stampSite
	for _, st := range storesToField(fn, field) {
		fa := st.Addr.(*ssa.FieldAddr)
		_, fresh := fa.X.(*ssa.Alloc)
		out = append(out, stampSite{st, fn, st, fresh})
	}
	for _, cs := range callsIn(fn) {
		h := cs.Instr.Common().StaticCallee()
		if h == nil || h.Pkg != fn.Pkg || len(h.Blocks) == 0 {
			continue
		}
		for i, a := range cs.Instr.Common().Args {
			if !isFieldRef(a, field) || i >= len(h.Params) {
				continue
			}
			instrsOf(h, func(in ssa.Instruction) {
				if st, ok := in.(*ssa.Store); ok && st.Addr == ssa.Value(h.Params[i]) {
					out = append(out, stampSite{cs.Instr, h, st, false})
				}
			})
		}
	}
	return out
}
