package main

import (
	"strings"

	"golang.org/x/tools/go/ssa"
)

func init() { register("C18", checkC18) }

const pkgDispatch = "lib/torrent/scheduler/dispatch"

func checkC18(c *Ctx, r *Report) {
	r.Explain = "Idle timeouts follow real activity: (R1) every function that stamps an activity timestamp (torrent lastWrite/lastRead, peer lastPieceSent/lastGoodPieceReceived) is called only in the success region of the delegated storage/connection call that constitutes the activity; (R2) the partial file is deleted exactly on the incomplete side of removal (never for a completed torrent, except the manual removal API); (R3) the idle-seeder test pairs Complete() with the last READ time and the seeder limit, the idle-leecher test pairs !Complete() with the last WRITE time and the leecher limit; (R4) the getters return the field they are named after."
	r.NotDecided = "Threshold arithmetic (the duration comparison itself is checked only for operator direction), clock behaviour."

	type stamp struct {
		field    string
		delegate []string
		what     string
	}
	stamps := []stamp{
		{pkgDispatch + ".torrentAccessWatcher.lastWrite", []string{"(lib/torrent/storage.Torrent).WritePiece"}, "piece written"},
		{pkgDispatch + ".torrentAccessWatcher.lastRead", []string{"(lib/torrent/storage.PieceReader).Close"}, "piece reader closed (piece served)"},
		{pkgDispatch + ".peer.lastPieceSent", []string{"(lib/torrent/scheduler/dispatch.Messages).Send"}, "piece payload sent"},
		{pkgDispatch + ".peer.lastGoodPieceReceived", []string{"(lib/torrent/storage.Torrent).WritePiece", "(*" + pkgDispatch + ".torrentAccessWatcher).WritePiece"}, "good piece written"},
	}
	r1 := r.Rule("R1", "E-GUARD", "a call of a function that stores an activity timestamp lies in the success region (nil error) of the delegated call that is the activity, and every such timestamp has at least one stamp site", 4)
	for _, st := range stamps {
		var stampFns []*ssa.Function
		for _, fn := range c.FuncsIn(pkgDispatch) {
			if c.isFixture(fn) {
				continue
			}
			sites := stampSitesOf(c, fn, st.field)
			if len(sites) == 0 {
				continue
			}
			// constructors: the object is freshly allocated in this function
			fresh := true
			for _, s := range sites {
				if !s.fresh {
					fresh = false
				}
			}
			if fresh {
				continue
			}
			stampFns = append(stampFns, fn)
		}
		if len(stampFns) == 0 {
			r.Unresolved(r1, "no function stamps "+short(st.field))
			continue
		}
		nsites := 0
		for _, sf := range stampFns {
			// direct stamping inside a function that itself delegates
			calls := c.CallsTo(funcName(sf))
			if len(calls) == 0 {
				// the stamp function may itself contain the delegate call
				for _, site := range stampSitesOf(c, sf, st.field) {
					s := site.at
					nsites++
					ok := false
					for _, a := range callsInNamed(sf, st.delegate...) {
						if inSuccessRegion(a.Instr, s) {
							ok = true
						}
					}
					r.Check(ok, r1, sf, "store "+lastSeg(st.field), s, "store in success region of "+st.delegate[0],
						"activity timestamp "+lastSeg(st.field)+" is stamped although the activity ("+st.what+") did not succeed, or without it")
				}
				continue
			}
			for _, cs := range calls {
				if c.isFixture(cs.Caller) {
					continue
				}
				nsites++
				ok := false
				for _, a := range callsInNamed(cs.Caller, st.delegate...) {
					if inSuccessRegion(a.Instr, cs.Instr) {
						ok = true
					}
				}
				r.Check(ok, r1, cs.Caller, "stamp "+lastSeg(st.field), cs.Instr, "stamp in success region of "+st.delegate[0],
					"activity timestamp "+lastSeg(st.field)+" is stamped outside the success region of "+short(st.delegate[0])+" ("+st.what+"): idle timeouts no longer follow real activity")
			}
		}
		if nsites == 0 {
			r.Bad(r1, stampFns[0], "stamp "+lastSeg(st.field), nil, "timestamp "+lastSeg(st.field)+" is never stamped: the idle timeout fires during activity")
		}
	}

	{
		var fs []string
		for _, st := range stamps {
			fs = append(fs, st.field)
		}
		defer rulesFreshStamp(c, r, fs)
	}

	// R2: DeleteTorrent in scheduler
	r2 := r.Rule("R2", "E-GUARD+E-OWN", "TorrentArchive.DeleteTorrent is called in the scheduler only on the !Complete() side of the dispatcher test (idle/cancel removal) or from the manual removal event; and every removal of a control deletes the partial file on its incomplete side", 2)
	for _, cs := range c.CallsTo("(lib/torrent/storage.TorrentArchive).DeleteTorrent") {
		fn := cs.Caller
		if pkgOf(fn) != pkgSched || c.isFixture(fn) {
			continue
		}
		if funcName(fn) == "(lib/torrent/scheduler.removeTorrentEvent).apply" {
			r.OK(r2, fn, "DeleteTorrent", cs.Instr, false, "manual removal API: deleting the blob is its purpose (tabled exception)")
			continue
		}
		ok := condRegion(cs.Instr.Block(), func(cond ssa.Value, val bool) bool {
			return !val && isCallTo(cond, "(*lib/torrent/scheduler/dispatch.Dispatcher).Complete")
		})
		r.Check(ok, r2, fn, "DeleteTorrent", cs.Instr, "on the incomplete side",
			"the archive entry is deleted on a path where the dispatcher may be complete: dropping a completed (idle) torrent would delete the cached blob")
	}
	for _, fn := range c.FuncsIn(pkgSched) {
		if c.isFixture(fn) {
			continue
		}
		instrsOf(fn, func(in ssa.Instruction) {
			if !isMapDeleteOn(in, fTorrentControls) {
				return
			}
			ok := false
			for _, cs := range callsInNamed(fn, "(lib/torrent/storage.TorrentArchive).DeleteTorrent") {
				// guarded by !Complete() whose If dominates the delete
				for _, cf := range dominatingConds(cs.Instr.Block()) {
					cond, val := stripNot(cf.Cond, cf.Val)
					if !val && isCallTo(cond, "(*lib/torrent/scheduler/dispatch.Dispatcher).Complete") && blockDominatesInstr(cf.If.Block(), in) {
						// and the DeleteTorrent must run on every path through the incomplete side
						if everyPathFromTo(incompleteSucc(cf), cs.Instr, in) {
							ok = true
						}
					}
				}
			}
			r.Check(ok, r2, fn, "delete(torrentControls) partial-file cleanup", in, "incomplete side always deletes the partial file before the control is dropped",
				"a control is dropped without deleting the partial file of an in-progress download on the incomplete side")
		})
	}

	// R3: idle conditions
	r3 := r.Rule("R3", "E-GUARD", "the timeout removal is conditioned on (Complete ∧ now-LastReadTime ≥ SeederTTI) ∨ (¬Complete ∧ now-LastWriteTime ≥ LeecherTTI)", 2)
	if pt := r.MustFunc(r3, "(lib/torrent/scheduler.preemptionTickEvent).apply"); pt != nil {
		c18IdleRule(c, r, r3, pt)
	}

	// R4: getters
	r4 := r.Rule("R4", "flow", "LastReadTime/LastWriteTime/LastPieceSent/LastGoodPieceReceived return the timestamp field they are named after", 4)
	getters := []struct{ fn, field string }{
		{"(*" + pkgDispatch + ".torrentAccessWatcher).getLastReadTime", pkgDispatch + ".torrentAccessWatcher.lastRead"},
		{"(*" + pkgDispatch + ".torrentAccessWatcher).getLastWriteTime", pkgDispatch + ".torrentAccessWatcher.lastWrite"},
		{"(*" + pkgDispatch + ".peer).getLastPieceSent", pkgDispatch + ".peer.lastPieceSent"},
		{"(*" + pkgDispatch + ".peer).getLastGoodPieceReceived", pkgDispatch + ".peer.lastGoodPieceReceived"},
	}
	for _, g := range getters {
		fn := r.MustFunc(r4, g.fn)
		if fn == nil {
			continue
		}
		for _, ret := range returnsOf(fn) {
			ok := len(ret.Results) == 1 && mentionsField(ret.Results[0], g.field)
			// must not mention a sibling timestamp
			r.Check(ok, r4, fn, "return", ret, "returns "+lastSeg(g.field), "getter does not return "+lastSeg(g.field))
		}
	}
	for _, g := range []struct{ fn, callee string }{
		{"(*" + pkgDispatch + ".Dispatcher).LastReadTime", "(*" + pkgDispatch + ".torrentAccessWatcher).getLastReadTime"},
		{"(*" + pkgDispatch + ".Dispatcher).LastWriteTime", "(*" + pkgDispatch + ".torrentAccessWatcher).getLastWriteTime"},
	} {
		fn := r.MustFunc(r4, g.fn)
		if fn == nil {
			continue
		}
		for _, ret := range returnsOf(fn) {
			ok := len(ret.Results) == 1 && mentionsCall(ret.Results[0], g.callee)
			r.Check(ok, r4, fn, "return", ret, "returns "+lastSeg(g.callee), "does not return "+lastSeg(g.callee)+"()")
		}
	}
}

func lastSeg(s string) string {
	if i := strings.LastIndex(s, "."); i >= 0 {
		return s[i+1:]
	}
	return s
}

func boolStr(b bool) string {
	if b {
		return "true"
	}
	return "false"
}

// incompleteSucc returns the successor block taken when the (stripped) condition
// of cf is false, i.e. the edge recorded in cf.
func incompleteSucc(cf CondFact) *ssa.BasicBlock {
	blk := cf.If.Block()
	if cf.Val {
		return blk.Succs[0]
	}
	return blk.Succs[1]
}

// everyPathFromTo: every path from block start that reaches instruction `to`
// passes instruction `via` first.
func everyPathFromTo(start *ssa.BasicBlock, via, to ssa.Instruction) bool {
	seen := map[*ssa.BasicBlock]bool{}
	var walk func(b *ssa.BasicBlock) bool
	walk = func(b *ssa.BasicBlock) bool {
		if seen[b] {
			return true
		}
		seen[b] = true
		for _, in := range b.Instrs {
			if in == via {
				return true
			}
			if in == to {
				return false
			}
		}
		for _, s := range b.Succs {
			if !walk(s) {
				return false
			}
		}
		return true
	}
	return walk(start)
}
