package main

import (
	"fmt"
	"go/constant"
	"go/token"
	"go/types"

	"golang.org/x/tools/go/ssa"
)

func init() { register("C26", checkC26) }

// pointerCompares finds ==/!= whose both operands have the pointer-to-named type
// tname (and neither is nil).
func pointerCompares(fn *ssa.Function, tname string) []*ssa.BinOp {
	var out []*ssa.BinOp
	instrsOf(fn, func(in ssa.Instruction) {
		b, ok := in.(*ssa.BinOp)
		if !ok || (b.Op != token.EQL && b.Op != token.NEQ) {
			return
		}
		if isNilConst(b.X) || isNilConst(b.Y) {
			return
		}
		px, okx := b.X.Type().Underlying().(*types.Pointer)
		py, oky := b.Y.Type().Underlying().(*types.Pointer)
		if okx && oky && typeName(px) == tname && typeName(py) == tname {
			out = append(out, b)
		}
	})
	return out
}

const c26Fixture = `package fx
type PeerInfo struct{ ID int }
func bad(a, b *PeerInfo) bool { return a == b }
func good(a, b *PeerInfo) bool { return a != nil && a.ID == b.ID }
`

func checkC26(c *Ctx, r *Report) {
	r.Explain = "Tracker handouts: (R1) peers are never compared by pointer identity (stores return fresh values; identity is the peer id); (R2) a complete announcer returns before any store access; (R3) the agent limit passed to the peer store is the configured handout limit; (R4) the announcer is excluded by comparing peer ids, and only peers on the unequal side are ranked; (R5) the ranking is ascending in priority and the completeness policy assigns seeder < origin < incomplete."
	r.NotDecided = "Duplicates between the agent list and the origin list; the at-most-n count inside the peer store (C27)."
	const tPI = "core.PeerInfo"
	r1 := r.Rule("R1", "E-OWN(zero)", "no ==/!= between two non-nil *core.PeerInfo values in non-test code", 0)
	// positive fixture: the matcher must fire on a tiny example on every run
	fx, err := buildFixture(c26Fixture)
	if err != nil {
		r.Undecided(r1, nil, "fixture", nil, "fixture does not build: "+err.Error())
	} else {
		nb, ng := len(pointerCompares(fx["bad"], "fx.PeerInfo")), len(pointerCompares(fx["good"], "fx.PeerInfo"))
		if nb != 1 || ng != 0 {
			r.Undecided(r1, nil, "fixture", nil, fmt.Sprintf("matcher self-test failed: bad=%d good=%d", nb, ng))
		} else {
			r.OK(r1, nil, "fixture self-test", nil, false, "matcher fires on the positive example and not on the negative one")
		}
	}
	scanned := 0
	for _, fn := range c.Funcs {
		if c.isFixture(fn) {
			continue
		}
		scanned++
		for _, b := range pointerCompares(fn, tPI) {
			r.Bad(r1, fn, "*PeerInfo "+b.Op.String()+" *PeerInfo", b, "peers are compared by pointer identity: a peer returned by a store is never equal to the announcer, so the announcer is handed out to itself")
		}
	}
	r.Extra["functions_scanned_R1"] = scanned
	r.OK(r1, nil, "whole-program scan", nil, false, fmt.Sprintf("%d functions scanned", scanned))

	// R2/R3
	r2 := r.Rule("R2", "E-GUARD", "PeerStore.GetPeers and OriginStore.GetOrigins are called by the tracker server only where the announcer's Complete flag is false", 2)
	r3 := r.Rule("R3", "flow", "the limit passed to PeerStore.GetPeers is Config.PeerHandoutLimit", 1)
	for _, cs := range c.CallsTo("(tracker/peerstore.Store).GetPeers", "(tracker/originstore.Store).GetOrigins") {
		fn := cs.Caller
		if pkgOf(fn) != "tracker/trackerserver" || c.isFixture(fn) {
			continue
		}
		ok := condRegion(cs.Instr.Block(), func(cond ssa.Value, val bool) bool {
			return !val && mentionsField(cond, "core.PeerInfo.Complete")
		})
		if !ok {
			// early-return form: if peer.Complete { return nil,nil }
			ex := regionByEdges(fn, func(cond ssa.Value, val bool) bool {
				cond, val = stripNot(cond, val)
				return val && mentionsField(cond, "core.PeerInfo.Complete")
			})
			// call must be dominated by the If and not in the complete region
			for _, cf := range dominatingConds(cs.Instr.Block()) {
				_ = cf
			}
			ok = !ex[cs.Instr.Block()] && completeTestDominates(fn, cs.Instr)
		}
		r.Check(ok, r2, fn, lastSeg(cs.Callee), cs.Instr, "only for incomplete announcers", "a store is queried (and a handout built) for an announcer that reports completion")
		if cs.Callee == "(tracker/peerstore.Store).GetPeers" {
			r.Check(isPureLoadOf(cs.Instr.Common().Args[1], "tracker/trackerserver.Config.PeerHandoutLimit"), r3, fn, "GetPeers limit", cs.Instr,
				"limit is Config.PeerHandoutLimit", "the number of agents requested from the peer store is not the configured PeerHandoutLimit")
		}
	}
	// the Complete-side returns an empty handout
	for _, fn := range c.FuncsIn("tracker/trackerserver") {
		if len(callsInNamed(fn, "(tracker/peerstore.Store).GetPeers")) == 0 || c.isFixture(fn) {
			continue
		}
		ex := regionByEdges(fn, func(cond ssa.Value, val bool) bool {
			cond, val = stripNot(cond, val)
			return val && mentionsField(cond, "core.PeerInfo.Complete")
		})
		n := 0
		for _, ret := range returnsOf(fn) {
			if ex[ret.Block()] {
				n++
				r.Check(isNilConst(ret.Results[0]), r2, fn, "return for complete announcer", ret, "empty handout", "a complete announcer receives a non-empty handout")
			}
		}
		if n == 0 {
			r.Bad(r2, fn, "return for complete announcer", nil, "no early return for an announcer that reports completion")
		}
	}

	// R4: SortPeers exclusion
	r4 := r.Rule("R4", "E-GUARD", "in SortPeers the ranking call assignPriority is reached only where the candidate's PeerID differs from the source's PeerID", 1)
	if sp0 := r.MustFunc(r4, "(*tracker/peerhandoutpolicy.PriorityPolicy).SortPeers"); sp0 != nil {
		// the ranking loop may live in a helper of the package that SortPeers calls
		// with its source peer: it is then judged there, against that parameter
		sp, src := sp0, ssa.Value(sp0.Params[1])
		if len(callsInNamed(sp0, "(tracker/peerhandoutpolicy.assignmentPolicy).assignPriority")) == 0 {
			for _, hc := range callsIn(sp0) {
				sf := hc.Instr.Common().StaticCallee()
				if sf == nil || sf.Pkg != sp0.Pkg || len(callsInNamed(sf, "(tracker/peerhandoutpolicy.assignmentPolicy).assignPriority")) == 0 {
					continue
				}
				for i, a := range hc.Instr.Common().Args {
					if a == ssa.Value(sp0.Params[1]) && i < len(sf.Params) {
						sp, src = sf, sf.Params[i]
						r.Analysed(sf)
					}
				}
			}
		}
		for _, cs := range callsInNamed(sp, "(tracker/peerhandoutpolicy.assignmentPolicy).assignPriority") {
			isIDCmp := func(cond ssa.Value) (*ssa.BinOp, bool) {
				b, ok := cond.(*ssa.BinOp)
				if !ok || (b.Op != token.EQL && b.Op != token.NEQ) {
					return nil, false
				}
				fromSrc := func(v ssa.Value) bool {
					return mentionsField(v, "core.PeerInfo.PeerID") && mentions(v, func(w ssa.Value) bool { return w == src }, 6)
				}
				other := func(v ssa.Value) bool {
					return mentionsField(v, "core.PeerInfo.PeerID") && !mentions(v, func(w ssa.Value) bool { return w == src }, 6)
				}
				return b, fromSrc(b.X) && other(b.Y) || fromSrc(b.Y) && other(b.X)
			}
			ok := condRegion(cs.Instr.Block(), func(cond ssa.Value, val bool) bool {
				b, is := isIDCmp(cond)
				return is && (b.Op == token.EQL && !val || b.Op == token.NEQ && val)
			})
			if !ok {
				ex := regionByEdges(sp, func(cond ssa.Value, val bool) bool {
					cond, val = stripNot(cond, val)
					b, is := isIDCmp(cond)
					return is && (b.Op == token.EQL && val || b.Op == token.NEQ && !val)
				})
				has := false
				instrsOf(sp, func(in ssa.Instruction) {
					if b, is := in.(*ssa.BinOp); is {
						if _, y := isIDCmp(b); y && precedes(b, cs.Instr) {
							has = true
						}
					}
				})
				ok = has && !ex[cs.Instr.Block()]
			}
			r.Check(ok, r4, sp, "assignPriority", cs.Instr, "ranked only when peer id differs from the announcer's",
				"candidates are ranked without excluding the one whose PeerID equals the announcer's")
		}
	}

	// R5: ordering
	r5 := r.Rule("R5", "flow", "SortPeers sorts ascending by priority; completeness policy: seeder(complete, non-origin) < origin < incomplete", 2)
	if sp := c.Func("(*tracker/peerhandoutpolicy.PriorityPolicy).SortPeers"); sp != nil {
		found := false
		for _, cs := range callsInNamed(sp, "sort.Slice", "sort.SliceStable") {
			mc, ok := cs.Instr.Common().Args[1].(*ssa.MakeClosure)
			if !ok {
				continue
			}
			less := mc.Fn.(*ssa.Function)
			for _, ret := range returnsOf(less) {
				b, ok := ret.Results[0].(*ssa.BinOp)
				fieldP := "tracker/peerhandoutpolicy.peerPriorityInfo.priority"
				okd := ok && mentionsField(b.X, fieldP) && mentionsField(b.Y, fieldP) &&
					(b.Op == token.LSS && mentions(b.X, func(v ssa.Value) bool { return v == less.Params[0] }, 8) && mentions(b.Y, func(v ssa.Value) bool { return v == less.Params[1] }, 8) ||
						b.Op == token.GTR && mentions(b.X, func(v ssa.Value) bool { return v == less.Params[1] }, 8) && mentions(b.Y, func(v ssa.Value) bool { return v == less.Params[0] }, 8))
				found = true
				r.Check(okd, r5, less, "less", ret, "ascending by priority", "the comparator does not order by ascending priority value")
			}
		}
		if !found {
			r.Bad(r5, sp, "sort", nil, "SortPeers does not sort with a recognisable comparator")
		}
	}
	if ap := r.MustFunc(r5, "(*tracker/peerhandoutpolicy.completenessAssignmentPolicy).assignPriority"); ap != nil {
		vals := map[string]int64{}
		for _, ret := range returnsOf(ap) {
			k, ok := ret.Results[0].(*ssa.Const)
			if !ok || k.Value == nil || k.Value.Kind() != constant.Int {
				r.Undecided(r5, ap, "return", ret, "priority is not a constant")
				continue
			}
			v, _ := constant.Int64Val(k.Value)
			origin, complete := factOn(ret.Block(), "core.PeerInfo.Origin"), factOn(ret.Block(), "core.PeerInfo.Complete")
			switch {
			case origin == 1:
				vals["origin"] = v
			case origin == 0 && complete == 1:
				vals["seeder"] = v
			case origin == 0 && complete == 0:
				vals["incomplete"] = v
			default:
				r.Undecided(r5, ap, "return", ret, fmt.Sprintf("cannot classify return (origin=%d complete=%d)", origin, complete))
			}
		}
		ok := len(vals) == 3 && vals["seeder"] < vals["origin"] && vals["origin"] < vals["incomplete"]
		r.Check(ok, r5, ap, "priority table", nil, fmt.Sprintf("%v", vals), fmt.Sprintf("completeness priorities must satisfy seeder < origin < incomplete, got %v", vals))
	}
}

// factOn: 1 if block is reached only when field is true, 0 only when false, -1 unknown.
func factOn(b *ssa.BasicBlock, field string) int {
	fn := b.Parent()
	t := regionByEdges(fn, func(cond ssa.Value, val bool) bool {
		cond, val = stripNot(cond, val)
		return val && isFieldLoad(cond, field)
	})
	f := regionByEdges(fn, func(cond ssa.Value, val bool) bool {
		cond, val = stripNot(cond, val)
		return !val && isFieldLoad(cond, field)
	})
	switch {
	case t[b]:
		return 1
	case f[b]:
		return 0
	}
	// dominated by the false edge of every test of the field that can reach b
	return -1
}

func isFieldLoad(v ssa.Value, field string) bool {
	u, ok := v.(*ssa.UnOp)
	return ok && u.Op == token.MUL && isFieldRef(u.X, field)
}

// completeTestDominates: an If on PeerInfo.Complete dominates the instruction.
func completeTestDominates(fn *ssa.Function, in ssa.Instruction) bool {
	for _, b := range fn.Blocks {
		if len(b.Instrs) == 0 {
			continue
		}
		if iff, ok := b.Instrs[len(b.Instrs)-1].(*ssa.If); ok && mentionsField(iff.Cond, "core.PeerInfo.Complete") {
			if b.Dominates(in.Block()) {
				return true
			}
		}
	}
	return false
}
