package main

import (
	"go/types"
	"sort"
	"strings"

	"golang.org/x/tools/go/ssa"
)

// checkEventLoopConfinement (C16.R4, C17.R5, C20.R4): the scheduler state, the
// connection state and the announce queue are documented as not thread-safe and
// are touched only from the event loop goroutine.
func checkEventLoopConfinement(c *Ctx, r *Report, id string) {
	rule := r.Rule(id, "E-OWN(call graph)", "every function touching scheduler.state fields, connstate.State or the announce queue is reachable only from event.apply (invoked only by the event loop), and hands none of them to another goroutine", 10)
	const stT = "lib/torrent/scheduler.state"
	confinedTypes := map[string]bool{
		stT: true,
		"lib/torrent/scheduler/connstate.State":         true,
		"lib/torrent/scheduler/announcequeue.Queue":     true,
		"lib/torrent/scheduler/announcequeue.QueueImpl": true,
	}
	touches := func(fn *ssa.Function) bool {
		for _, b := range fn.Blocks {
			for _, in := range b.Instrs {
				switch x := in.(type) {
				case *ssa.FieldAddr:
					if n, ok := fieldName(x); ok && strings.HasPrefix(n, stT+".") && n != stT+".sched" {
						return true
					}
				case *ssa.Field:
					if n, ok := fieldName(x); ok && strings.HasPrefix(n, stT+".") && n != stT+".sched" {
						return true
					}
				case ssa.CallInstruction:
					cc := x.Common()
					if cc.IsInvoke() {
						if confinedTypes[typeName(cc.Value.Type())] {
							return true
						}
					} else if f := cc.StaticCallee(); f != nil && f.Signature.Recv() != nil {
						if t := typeName(f.Signature.Recv().Type()); confinedTypes[t] && t != stT {
							return true
						}
					}
				}
			}
		}
		return false
	}
	T := map[*ssa.Function]bool{}
	for _, fn := range c.FuncsIn(pkgSched) {
		if c.isFixture(fn) {
			continue
		}
		if touches(fn) {
			T[fn] = true
		}
	}
	// event interface
	var eventIface *types.Interface
	if p := c.PkgByID[K+"/"+pkgSched]; p != nil {
		if o := p.Types.Scope().Lookup("event"); o != nil {
			eventIface, _ = o.Type().Underlying().(*types.Interface)
		}
	}
	if eventIface == nil {
		r.Unresolved(rule, "interface lib/torrent/scheduler.event")
		return
	}
	isApply := func(fn *ssa.Function) bool {
		if fn.Name() != "apply" || fn.Signature.Recv() == nil {
			return false
		}
		return types.Implements(fn.Signature.Recv().Type(), eventIface) ||
			types.Implements(types.NewPointer(fn.Signature.Recv().Type()), eventIface)
	}
	memo := map[*ssa.Function]int{} // 1 confined, 2 not, 3 in progress
	var why map[*ssa.Function]string = map[*ssa.Function]string{}
	var confined func(fn *ssa.Function, depth int) bool
	confined = func(fn *ssa.Function, depth int) bool {
		switch memo[fn] {
		case 1, 3:
			return true
		case 2:
			return false
		}
		memo[fn] = 3
		ok := false
		switch {
		case isApply(fn):
			ok = true
		case fn.Name() == "newState" && fn.Signature.Recv() == nil:
			ok = true
		case fn.Parent() != nil:
			// closure: parent confined and closure only called or deferred, never `go`ne or stored
			ok = confined(fn.Parent(), depth+1)
			if ok {
				for _, b := range fn.Parent().Blocks {
					for _, in := range b.Instrs {
						if g, isGo := in.(*ssa.Go); isGo {
							if mc, isMC := g.Call.Value.(*ssa.MakeClosure); isMC && mc.Fn == fn {
								ok = false
								why[fn] = "closure started with go"
							}
						}
					}
				}
			}
		case depth > 6:
			ok = false
			why[fn] = "call chain too deep"
		default:
			calls := c.CallsTo(funcName(fn))
			if len(calls) == 0 {
				ok = false
				why[fn] = "no static caller (method value or dead code)"
			} else {
				ok = true
				for _, cs := range calls {
					if c.isFixture(cs.Caller) {
						continue
					}
					if cs.IsGo {
						ok = false
						why[fn] = "started with go in " + funcName(cs.Caller)
						break
					}
					if !confined(cs.Caller, depth+1) {
						ok = false
						why[fn] = "called from " + funcName(cs.Caller) + " which is not confined to the event loop"
						break
					}
				}
			}
			// method values
			if ok && usedAsValue(c, fn) {
				ok = false
				why[fn] = "used as a method/function value"
			}
		}
		if ok {
			memo[fn] = 1
		} else {
			memo[fn] = 2
		}
		return ok
	}
	var fns []*ssa.Function
	for fn := range T {
		fns = append(fns, fn)
	}
	sort.Slice(fns, func(i, j int) bool { return funcName(fns[i]) < funcName(fns[j]) })
	for _, fn := range fns {
		ok := confined(fn, 0)
		r.Check(ok, rule, fn, "touches loop-confined state", nil, "reachable only from event.apply",
			"function touches event-loop-confined state but "+why[fn]+": the state is not thread-safe, interleavings outside the event loop are not serialised")
		// no handing over to goroutines
		for _, b := range fn.Blocks {
			for _, in := range b.Instrs {
				g, isGo := in.(*ssa.Go)
				if !isGo {
					continue
				}
				leak := false
				for _, op := range g.Operands(nil) {
					if *op == nil {
						continue
					}
					if confinedTypes[typeName((*op).Type())] {
						leak = true
					}
					if mc, ok := (*op).(*ssa.MakeClosure); ok {
						if T[mc.Fn.(*ssa.Function)] {
							leak = true
						}
						for _, bnd := range mc.Bindings {
							if confinedTypes[typeName(bnd.Type())] || confinedTypes[typeName(derefT(bnd.Type()))] {
								leak = true
							}
						}
					}
				}
				r.Check(!leak, rule, fn, "go statement", in, "goroutine receives no confined object",
					"a goroutine started from the event loop receives event-loop-confined state")
			}
		}
	}
	// apply is invoked only by the loop
	n := 0
	for _, cs := range c.CallsTo("(lib/torrent/scheduler.event).apply") {
		if c.isFixture(cs.Caller) {
			continue
		}
		n++
		ok := funcName(cs.Caller) == "(*lib/torrent/scheduler.baseEventLoop).run" && !cs.IsGo
		r.Check(ok, rule, cs.Caller, "event.apply invocation", cs.Instr, "events applied by the loop goroutine, sequentially",
			"event.apply is invoked outside baseEventLoop.run (or concurrently): events are no longer serialised")
	}
	if n == 0 {
		r.Unresolved(rule, "no invocation of event.apply found")
	}
	// run is started once
	for _, cs := range c.CallsTo("(*lib/torrent/scheduler.baseEventLoop).run", "(lib/torrent/scheduler.eventLoop).run") {
		if c.isFixture(cs.Caller) {
			continue
		}
		inLoop := reaches(cs.Instr.Block(), cs.Instr.Block())
		r.Check(!inLoop && !cs.IsGo || !inLoop, rule, cs.Caller, "eventLoop.run call", cs.Instr, "not started in a loop", "event loop started repeatedly")
	}
}

func derefT(t types.Type) types.Type {
	if p, ok := t.Underlying().(*types.Pointer); ok {
		return p.Elem()
	}
	return t
}

// usedAsValue: fn is referenced other than as the static callee of a call.
func usedAsValue(c *Ctx, fn *ssa.Function) bool {
	for _, f := range c.Funcs {
		for _, b := range f.Blocks {
			for _, in := range b.Instrs {
				for _, op := range in.Operands(nil) {
					if *op == nil {
						continue
					}
					if v, ok := (*op).(*ssa.Function); ok && (v == fn || v.Origin() == fn) {
						if ci, isCall := in.(ssa.CallInstruction); isCall && ci.Common().Value == v {
							continue
						}
						return true
					}
					if mc, ok := (*op).(*ssa.MakeClosure); ok {
						if bf, ok := mc.Fn.(*ssa.Function); ok && strings.HasPrefix(bf.Name(), fn.Name()+"$bound") && bf.Signature.Recv() == nil {
							// bound method wrapper of fn?
							if bf.Synthetic != "" && strings.Contains(bf.Synthetic, "bound method wrapper for") && strings.Contains(bf.Synthetic, fn.Name()) {
								if fn.Object() != nil && strings.Contains(bf.Synthetic, fn.Object().(*types.Func).FullName()) {
									return true
								}
							}
						}
					}
				}
			}
		}
	}
	return false
}
