// report.go: obligations, verdicts, evidence files, known findings.
package main

import (
	"encoding/json"
	"fmt"
	"os"
	"path/filepath"
	"sort"
	"strings"
	"time"

	"golang.org/x/tools/go/ssa"
)

type Status string

const (
	Discharged Status = "discharged"
	Violation  Status = "violation"
	Undecided  Status = "undecided"  // unrecognised idiom at an anchored site
	Unresolved Status = "unresolved" // anchor no longer resolves
	Vacuous    Status = "vacuous"    // anchor resolves, zero sites
)

// Obligation is one decided instance of a rule.
type Obligation struct {
	Property   string `json:"property"`
	Rule       string `json:"rule"`
	Key        string `json:"key"` // rule|func|construct — never a line number
	Pos        string `json:"pos"`
	Status     Status `json:"status"`
	Detail     string `json:"detail,omitempty"`
	NonTrivial bool   `json:"nontrivial"` // discharge needed a path/flow argument
	Known      bool   `json:"known_finding,omitempty"`
}

// Rule describes a rule for the evidence file.
type RuleInfo struct {
	ID        string `json:"id"`
	Engine    string `json:"engine"`
	Text      string `json:"text"`
	Instances int    `json:"instances"`
	Floor     int    `json:"floor"`
}

type Report struct {
	Prop       string
	Tier       string
	c          *Ctx
	Obls       []*Obligation
	Rules      map[string]*RuleInfo
	ruleOrder  []string
	funcs      map[string]bool
	callSites  int
	Assump     []string
	Trusted    []string
	Explain    string
	NotDecided string
	Extra      map[string]any
}

func NewReport(c *Ctx, prop, tier string) *Report {
	return &Report{Prop: prop, Tier: tier, c: c, Rules: map[string]*RuleInfo{}, funcs: map[string]bool{}, Extra: map[string]any{}}
}

// Rule registers a rule (id without property prefix, e.g. "R1").
func (r *Report) Rule(id, engine, text string, floor int) string {
	full := r.Prop + "." + id
	if _, ok := r.Rules[full]; !ok {
		r.Rules[full] = &RuleInfo{ID: full, Engine: engine, Text: text, Floor: floor}
		r.ruleOrder = append(r.ruleOrder, full)
	}
	return full
}

func (r *Report) Analysed(fns ...*ssa.Function) {
	for _, f := range fns {
		if f != nil {
			r.funcs[funcName(f)] = true
		}
	}
}

func (r *Report) add(rule string, st Status, fn *ssa.Function, construct string, pos string, nontrivial bool, detail string) *Obligation {
	fname := "-"
	if fn != nil {
		fname = funcName(fn)
		r.funcs[fname] = true
	}
	key := rule + "|" + fname + "|" + construct
	// ordinal for duplicate keys
	n := 0
	for _, o := range r.Obls {
		if o.Key == key || strings.HasPrefix(o.Key, key+"#") {
			n++
		}
	}
	if n > 0 {
		key = fmt.Sprintf("%s#%d", key, n+1)
	}
	o := &Obligation{Property: r.Prop, Rule: rule, Key: key, Pos: pos, Status: st, Detail: detail, NonTrivial: nontrivial}
	r.Obls = append(r.Obls, o)
	if ri := r.Rules[rule]; ri != nil {
		ri.Instances++
	}
	return o
}

func (r *Report) OK(rule string, fn *ssa.Function, construct string, at ssa.Instruction, nontrivial bool, detail string) {
	r.add(rule, Discharged, fn, construct, r.ipos(at, fn), nontrivial, detail)
}
func (r *Report) Bad(rule string, fn *ssa.Function, construct string, at ssa.Instruction, detail string) {
	r.add(rule, Violation, fn, construct, r.ipos(at, fn), true, detail)
}
func (r *Report) Undecided(rule string, fn *ssa.Function, construct string, at ssa.Instruction, detail string) {
	r.add(rule, Undecided, fn, construct, r.ipos(at, fn), true, detail)
}
func (r *Report) Unresolved(rule string, what string) {
	r.add(rule, Unresolved, nil, what, "?", false, "anchor does not resolve in the current tree: "+what)
}

// Check records OK or Bad.
func (r *Report) Check(ok bool, rule string, fn *ssa.Function, construct string, at ssa.Instruction, okDetail, badDetail string) bool {
	if ok {
		r.OK(rule, fn, construct, at, true, okDetail)
	} else {
		r.Bad(rule, fn, construct, at, badDetail)
	}
	return ok
}

func (r *Report) ipos(at ssa.Instruction, fn *ssa.Function) string {
	if at != nil && at.Pos().IsValid() {
		return r.c.posStr(at.Pos())
	}
	if at != nil {
		// find nearest instruction with a position in the block
		for _, in := range at.Block().Instrs {
			if in.Pos().IsValid() {
				return r.c.posStr(in.Pos()) + "~"
			}
		}
	}
	if fn != nil {
		return r.c.posStr(fn.Pos())
	}
	return "?"
}

// MustFunc resolves a function or records UNRESOLVED.
func (r *Report) MustFunc(rule, name string) *ssa.Function {
	fn := r.c.Func(name)
	if fn == nil {
		r.Unresolved(rule, "function "+name)
	} else {
		r.funcs[name] = true
	}
	return fn
}

// ---- known findings ----

type KnownFinding struct {
	Property      string `json:"property"`
	Rule          string `json:"rule"`
	Key           string `json:"key"`
	WhatFails     string `json:"what_fails"`
	Demonstration string `json:"demonstration,omitempty"`
}

type KnownFile struct {
	Findings []KnownFinding `json:"findings"`
	Fixed    []string       `json:"fixed"`
}

func loadKnown(path string) (*KnownFile, error) {
	b, err := os.ReadFile(path)
	if err != nil {
		if os.IsNotExist(err) {
			return &KnownFile{}, nil
		}
		return nil, err
	}
	var k KnownFile
	if err := json.Unmarshal(b, &k); err != nil {
		return nil, err
	}
	return &k, nil
}

// ---- finish: floors, evidence, output ----

type evidence struct {
	PropertyID  string         `json:"property_id"`
	Tier        string         `json:"tier"`
	Seed        int            `json:"seed"`
	Level       string         `json:"level"`
	Coverage    map[string]any `json:"coverage"`
	Assumptions []string       `json:"assumptions"`
	WallS       float64        `json:"wall_s"`
	Violations  int            `json:"violations"`
}

// Finish applies instance floors, matches known findings, writes evidence and
// replay files, prints verdict lines; returns process exit code.
func (r *Report) Finish(verifDir string, seed int, t0 time.Time, quiet bool) int {
	// floors
	for _, id := range r.ruleOrder {
		ri := r.Rules[id]
		if ri.Instances < ri.Floor {
			hasUnres := false
			for _, o := range r.Obls {
				if o.Rule == id && o.Status == Unresolved {
					hasUnres = true
				}
			}
			if !hasUnres {
				r.add(id, Vacuous, nil, "floor", "?", false,
					fmt.Sprintf("rule matched %d site(s), fewer than the %d confirmed by hand: the anchor moved or the rule no longer sees the code", ri.Instances, ri.Floor))
			}
		}
	}
	known, err := loadKnown(filepath.Join(verifDir, "known_findings.json"))
	if err != nil {
		fmt.Printf("INFRA-ERROR: known_findings.json: %v\n", err)
		return 2
	}
	kidx := map[string]KnownFinding{}
	for _, k := range known.Findings {
		if k.Property == r.Prop {
			kidx[k.Key] = k
		}
	}
	sort.SliceStable(r.Obls, func(i, j int) bool { return r.Obls[i].Key < r.Obls[j].Key })
	replayDir := filepath.Join(verifDir, "evidence", "replay")
	os.MkdirAll(replayDir, 0o755)
	// clear old replay files of this property
	if old, _ := filepath.Glob(filepath.Join(replayDir, r.Prop+"-*.json")); old != nil {
		for _, f := range old {
			os.Remove(f)
		}
	}
	nviol, nknown, ndis, nnon := 0, 0, 0, 0
	distinct := map[string]bool{}
	var lines []string
	for _, o := range r.Obls {
		switch o.Status {
		case Discharged:
			ndis++
			if o.NonTrivial && !distinct[o.Key] {
				distinct[o.Key] = true
				nnon++
			}
		default:
			if k, ok := kidx[o.Key]; ok && o.Status == Violation {
				o.Known = true
				nknown++
				lines = append(lines, fmt.Sprintf("KNOWN-FINDING: property=%s %s [%s at %s]", r.Prop, k.WhatFails, o.Key, o.Pos))
				continue
			}
			nviol++
			rp := filepath.Join("evidence", "replay", fmt.Sprintf("%s-%d.json", r.Prop, nviol))
			rule := r.Rules[o.Rule]
			rec := map[string]any{"property": r.Prop, "obligation": o, "rule": rule, "kind": o.Status,
				"explain_cmd": fmt.Sprintf("./run explain %s", rp)}
			b, _ := json.MarshalIndent(rec, "", " ")
			os.WriteFile(filepath.Join(verifDir, rp), b, 0o644)
			lines = append(lines, fmt.Sprintf("VIOLATION property=%s replay=%s", r.Prop, rp))
			lines = append(lines, fmt.Sprintf("  %s %s: [%s] %s — %s", strings.ToUpper(string(o.Status)), o.Pos, o.Key, ruleText(rule), o.Detail))
		}
	}
	// evidence
	var samples []any
	for i, o := range r.Obls {
		if i < 12 || o.Status != Discharged {
			samples = append(samples, o)
		}
	}
	var rules []*RuleInfo
	for _, id := range r.ruleOrder {
		rules = append(rules, r.Rules[id])
	}
	var fnames []string
	for f := range r.funcs {
		fnames = append(fnames, f)
	}
	sort.Strings(fnames)
	cov := map[string]any{
		"explanation":         r.Explain,
		"not_decided":         r.NotDecided,
		"obligations":         len(r.Obls),
		"discharged":          ndis,
		"evaluations":         len(r.Obls),
		"distinct_nontrivial": nnon,
		"rule": "one obligation per (rule, function, construct) anchored site found in the current source of /repo; " +
			"non-trivial = its discharge needed a dominance / flow / lockset / call-graph argument rather than a syntactic absence",
		"samples":            samples,
		"rules":              rules,
		"functions_analysed": len(fnames),
		"functions":          fnames,
		"packages_loaded":    len(r.c.Pkgs),
		"repo_functions_ssa": len(r.c.Funcs),
		"known_findings":     nknown,
		"checker_cmd":        fmt.Sprintf("./run check %s --tier %s", r.Prop, r.Tier),
		"trusted_base":       append([]string{"go/types, go/ssa (golang.org/x/tools v0.50.0) model of Go semantics", "effect tables for std/third-party callees listed per rule"}, r.Trusted...),
		"exhaustive":         false,
	}
	for k, v := range r.Extra {
		cov[k] = v
	}
	ev := evidence{PropertyID: r.Prop, Tier: r.Tier, Seed: seed, Level: "other", Coverage: cov,
		Assumptions: r.Assump, WallS: time.Since(t0).Seconds(), Violations: nviol}
	if ev.Assumptions == nil {
		ev.Assumptions = []string{}
	}
	b, _ := json.MarshalIndent(ev, "", " ")
	os.MkdirAll(filepath.Join(verifDir, "evidence"), 0o755)
	if err := os.WriteFile(filepath.Join(verifDir, "evidence", r.Prop+".json"), b, 0o644); err != nil {
		fmt.Printf("INFRA-ERROR: cannot write evidence: %v\n", err)
		return 2
	}
	if !quiet {
		fmt.Printf("%s tier=%s: %d obligations, %d discharged, %d known finding(s), %d violation(s); %d functions, %d packages, %.1fs\n",
			r.Prop, r.Tier, len(r.Obls), ndis, nknown, nviol, len(fnames), len(r.c.Pkgs), time.Since(t0).Seconds())
		for _, id := range r.ruleOrder {
			ri := r.Rules[id]
			fmt.Printf("  rule %-10s %-14s instances=%d floor=%d\n", ri.ID, ri.Engine, ri.Instances, ri.Floor)
		}
	}
	for _, l := range lines {
		fmt.Println(l)
	}
	if nviol > 0 {
		return 1
	}
	return 0
}

func ruleText(r *RuleInfo) string {
	if r == nil {
		return ""
	}
	return r.Text
}
