package main

import (
	"golang.org/x/tools/go/ssa"
)

// stateHelperEffects: ci calls a function of the same package with the loop's
// current element as an argument; the result says which of the three containers
// that function updates for THAT parameter on every path: op "Remove" —
// Set.Remove(all/healthy, p) and delete(trend, p); op "Add" — Set.Add(all/healthy, p).
func stateHelperEffects(ci ssa.CallInstruction, l *RangeLoop, fAll, fHealthy, fTrend, op string) (all, healthy, trend bool) {
	h := ci.Common().StaticCallee()
	if h == nil || len(h.Blocks) == 0 || ci.Parent() == nil || h.Pkg != ci.Parent().Pkg {
		return
	}
	var prm *ssa.Parameter
	for i, a := range ci.Common().Args {
		if l.derivesFromElem(a) && i < len(h.Params) {
			prm = h.Params[i]
		}
	}
	if prm == nil {
		return
	}
	always := func(in ssa.Instruction) bool {
		for _, ret := range returnsOf(h) {
			if !(in.Block() == ret.Block() || in.Block().Dominates(ret.Block())) {
				return false
			}
		}
		return true
	}
	instrsOf(h, func(in ssa.Instruction) {
		if !always(in) {
			return
		}
		if c2, ok := in.(ssa.CallInstruction); ok && calleeName(c2.Common()) == "(utils/stringset.Set)."+op {
			a := c2.Common().Args
			if len(a) == 2 && a[1] == ssa.Value(prm) {
				if mentionsField(a[0], fAll) {
					all = true
				}
				if mentionsField(a[0], fHealthy) {
					healthy = true
				}
			}
		}
		if op == "Remove" && isMapDeleteOn(in, fTrend) {
			if cl, ok := in.(*ssa.Call); ok && len(cl.Call.Args) == 2 && cl.Call.Args[1] == ssa.Value(prm) {
				trend = true
			}
		}
	})
	return
}
