package main

import (
	"go/ast"

	"golang.org/x/tools/go/ssa"
)

// callerAllowed: fn is one of the tabled owners, or an unexported helper of the
// same package every one of whose (static) callers is allowed in turn — so that
// moving part of an owner's body into a private helper does not change who owns
// the operation. A helper that is never called, is exported, or is reachable from
// anything outside the table is not allowed.
func callerAllowed(c *Ctx, fn *ssa.Function, allowed map[string]bool, depth int) bool {
	if fn == nil {
		return false
	}
	if allowed[funcName(fn)] {
		return true
	}
	if depth >= 2 || ast.IsExported(fn.Name()) {
		return false
	}
	callers := c.CallsTo(funcName(fn))
	n := 0
	for _, cs := range callers {
		if c.isFixture(cs.Caller) {
			continue
		}
		n++
		top := topFunc(cs.Caller)
		if top.Pkg != fn.Pkg || !callerAllowed(c, top, allowed, depth+1) {
			return false
		}
	}
	return n > 0
}
