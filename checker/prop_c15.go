package main

import (
	"fmt"
	"go/token"

	"golang.org/x/tools/go/ssa"
)

func init() { register("C15", checkC15) }

const pkgPR2 = "lib/torrent/scheduler/dispatch/piecerequest"

// loopHasEarlyExit: some block of the loop body leaves the loop by an edge that
// does not go through the header's done edge (break / return inside the loop).
func loopEarlyExits(l *RangeLoop) []*ssa.BasicBlock {
	var out []*ssa.BasicBlock
	fn := l.Header.Parent()
	inBody := func(b *ssa.BasicBlock) bool { return b == l.Body || l.Body.Dominates(b) }
	for _, b := range fn.Blocks {
		if !inBody(b) {
			continue
		}
		for _, s := range b.Succs {
			if s != l.Header && !inBody(s) {
				out = append(out, b)
			}
		}
		if len(b.Succs) == 0 {
			out = append(out, b)
		}
	}
	return out
}

func checkC15(c *Ctx, r *Report) {
	const tM = pkgPR2 + ".Manager"
	fReq, fByPeer := tM+".requests", tM+".requestsByPeer"
	r.Explain = "Structure of the piece-request bookkeeping: (R1) the per-piece list and the per-peer index are updated together by every mutator; (R2) reservation stops at a non-positive quota, hands the quota to the selection policy as the limit, and both policies consult the validity predicate before selecting and never exceed the limit; (R3) the maps are accessed under the manager's lock; (R4) the validity predicate answers 'true' only after it has examined every request of the piece — inside its scan it can only answer 'false', and it does so for an unexpired pending request of the same peer, or of any peer unless duplicates are allowed; (R5) removing a peer scans every request of every piece without early exit; (R6) the quota starts from the limit chosen by the peer kind and is decremented for pending, unexpired requests; the failed-request report lists requests whose status is not pending or which expired."
	r.NotDecided = "Multiset/count facts over histories (e.g. that the per-peer index, which keeps one request per piece, counts every unexpired request after re-reservation)."

	r1 := r.Rule("R1", "E-COUPDATE", "ReservePieces inserts into both maps; Clear deletes the piece from both; ClearPeer deletes the peer's index and filters the per-piece lists", 3)
	ins := func(fn *ssa.Function, field string) bool {
		ok := false
		instrsOf(fn, func(in ssa.Instruction) {
			if mu, isMU := in.(*ssa.MapUpdate); isMU && (isPureLoadOf(mu.Map, field) || mentions(mu.Map, func(v ssa.Value) bool { lk, isL := v.(*ssa.Lookup); return isL && isPureLoadOf(lk.X, field) }, 3)) {
				ok = true
			}
		})
		return ok
	}
	del := func(fn *ssa.Function, field string) bool {
		ok := false
		instrsOf(fn, func(in ssa.Instruction) {
			if isMapDeleteOn(in, field) {
				ok = true
			}
			if cl, isC := in.(*ssa.Call); isC {
				if b, isB := cl.Call.Value.(*ssa.Builtin); isB && b.Name() == "delete" && mentions(cl.Call.Args[0], func(v ssa.Value) bool { return isPureLoadOf(v, field) }, 4) {
					ok = true
				}
			}
		})
		return ok
	}
	// the same through helpers of the package the mutator calls (two levels)
	deep := func(f func(*ssa.Function, string) bool) func(*ssa.Function, string) bool {
		return func(fn *ssa.Function, field string) bool {
			seen := map[*ssa.Function]bool{}
			var rec func(g *ssa.Function, d int) bool
			rec = func(g *ssa.Function, d int) bool {
				if seen[g] || d > 2 {
					return false
				}
				seen[g] = true
				if f(g, field) {
					return true
				}
				for _, cs := range callsIn(g) {
					if sf := cs.Instr.Common().StaticCallee(); sf != nil && sf.Pkg == fn.Pkg && len(sf.Blocks) > 0 && rec(sf, d+1) {
						return true
					}
				}
				return false
			}
			return rec(fn, 0)
		}
	}
	ins, del = deep(ins), deep(del)
	if fn := r.MustFunc(r1, "(*"+tM+").ReservePieces"); fn != nil {
		r.Check(ins(fn, fReq) && ins(fn, fByPeer), r1, fn, "insert into both", nil, "requests and requestsByPeer", "a reservation is recorded in only one of the two maps")
	}
	if fn := r.MustFunc(r1, "(*"+tM+").Clear"); fn != nil {
		r.Check(del(fn, fReq) && del(fn, fByPeer), r1, fn, "delete from both", nil, "requests and requestsByPeer", "clearing a piece does not remove its requests from both maps")
	}
	cp := r.MustFunc(r1, "(*"+tM+").ClearPeer")
	if cp != nil {
		writesReq := ins(cp, fReq) || del(cp, fReq)
		r.Check(del(cp, fByPeer) && writesReq, r1, cp, "peer removed from both", nil, "index deleted, lists filtered", "removing a peer does not remove its requests from both maps")
	}

	r2 := r.Rule("R2", "E-GUARD", "ReservePieces returns early when quota<=0 and passes the quota as the policy limit; each policy calls valid(i) before adding i and adds only while len(pieces) < limit", 3)
	if fn := c.Func("(*" + tM + ").ReservePieces"); fn != nil {
		// the quota function is found by its role (c15Roles), not by its name
		qname := "(*" + tM + ").requestQuota"
		if _, q := c15Roles(c); q != nil {
			qname = funcName(q)
		}
		qs := callsInNamed(fn, qname)
		sel := callsInNamed(fn, "("+pkgPR2+".pieceSelectionPolicy).selectPieces")
		ok := len(qs) == 1 && len(sel) == 1
		if ok {
			q := qs[0].Instr.Value()
			ok = sel[0].Instr.Common().Args[0] == q && guardedBy(sel[0].Instr, func(cond ssa.Value, val bool) int {
				b, isB := cond.(*ssa.BinOp)
				if !isB || b.X != q || !isConstZero(b.Y) {
					return 0
				}
				switch b.Op {
				case token.LEQ:
					return tern(val, -1, 1)
				case token.GTR:
					return tern(val, 1, -1)
				}
				return 0
			})
		}
		r.Check(ok, r2, fn, "quota guards selection", nil, "early return on quota<=0, limit=quota", "pieces are selected although the peer has no quota left, or with a limit that is not the remaining quota: the pipeline limit can be exceeded")
	}
	for _, pn := range []string{"defaultPolicy", "rarestFirstPolicy"} {
		fn := r.MustFunc(r2, "(*"+pkgPR2+"."+pn+").selectPieces")
		if fn == nil {
			continue
		}
		limit, valid := fn.Params[1], fn.Params[2]
		n, bad := 0, 0
		instrsOf(fn, func(in ssa.Instruction) {
			cl, isC := in.(*ssa.Call)
			if !isC || calleeName(cl.Common()) != "builtin.append" {
				return
			}
			n++
			okV := guardedBy(cl, func(cond ssa.Value, val bool) int {
				if c2, isC2 := cond.(*ssa.Call); isC2 && c2.Call.Value == valid {
					return tern(val, 1, -1)
				}
				return 0
			})
			okL := guardedBy(cl, func(cond ssa.Value, val bool) int {
				b, isB := cond.(*ssa.BinOp)
				if !isB || b.Y != limit {
					return 0
				}
				if lc, isL := b.X.(*ssa.Call); !isL || calleeName(lc.Common()) != "builtin.len" {
					return 0
				}
				switch b.Op {
				case token.LSS:
					return tern(val, 1, -1)
				case token.GEQ:
					return tern(val, -1, 1)
				}
				return 0
			})
			if !okV || !okL {
				bad++
			}
		})
		r.Check(n > 0 && bad == 0, r2, fn, "select only valid pieces within the limit", nil, fmt.Sprintf("%d append site(s) guarded", n), "a policy adds a piece without having asked the validity predicate or beyond the limit")
	}

	r3 := r.Rule("R3", "E-LOCK", "Manager.requests / requestsByPeer under the embedded RWMutex", 6)
	checkLockRows(c, r, r3, []string{pkgPR2}, []LockRow{{Struct: tM, Mutex: "RWMutex", Fields: []string{"requests", "requestsByPeer"}, Ctors: []string{pkgPR2 + ".NewManager"}}})

	r4 := r.Rule("R4", "E-ORDER/loop", "validRequest: every return inside the scan over the piece's requests is the constant false, on a path where the request is pending and not expired and (same peer or duplicates not allowed); the only true return follows the completed scan", 2)
	rulesC15Validity(c, r, r4, fReq)

	r5 := r.Rule("R5", "E-ORDER/loop", "ClearPeer's scans over the per-piece lists have no early exit (every request of the peer is removed, not just the first)", 1)
	if cp != nil {
		n := 0
		for _, l := range rangeLoops(cp) {
			if l.IsMap {
				continue
			}
			n++
			ex := loopEarlyExits(l)
			r.Check(len(ex) == 0, r5, cp, "scan of a piece's requests", l.Header.Instrs[0], "no break/return inside", "the scan that removes a peer's requests leaves the loop early: a second request of the peer for the same piece (after an expired one) survives and is still reported")
		}
		if n == 0 {
			r.Undecided(r5, cp, "scan", nil, "no slice scan found in ClearPeer")
		}
	}

	r6 := r.Rule("R6", "flow", "requestQuota starts from the agent/origin limit selected by the peer kind and decrements for pending ∧ ¬expired requests of the peer; GetFailedRequests reports requests that are not pending or are expired", 2)
	if rq := c15QuotaFunc(c, r, r6); rq != nil {
		usesBoth := false
		instrsOf(rq, func(in ssa.Instruction) {
			if phi, ok := in.(*ssa.Phi); ok {
				a, o := false, false
				for _, e := range phi.Edges {
					if mentionsField(e, tM+".agentPipelineLimit") {
						a = true
					}
					if mentionsField(e, tM+".originPipelineLimit") {
						o = true
					}
				}
				if a && o {
					usesBoth = true
				}
			}
		})
		dec, why := c15QuotaDecrement(c, rq)
		r.Check(usesBoth && dec && mentionsFieldAnywhere(rq, fByPeer), r6, rq, "quota computation", nil, "limit by peer kind, minus live requests", "the quota is not (limit by peer kind) minus (pending, unexpired requests of the peer): "+why)
	}
	if gf := r.MustFunc(r6, "(*"+tM+").GetFailedRequests"); gf != nil {
		ok, why := c15FailedReport(c, gf)
		r.Check(ok, r6, gf, "failed report", nil, "a request is reported iff ¬pending ∨ expired", "the failed-request report does not list exactly the requests that are not pending or have expired: "+why)
	}
}

func mentionsFieldAnywhere(fn *ssa.Function, field string) bool {
	ok := false
	instrsOf(fn, func(in ssa.Instruction) {
		if v, isV := in.(ssa.Value); isV && isFieldRef(v, field) {
			ok = true
		}
	})
	return ok
}
