package main

import (
	"fmt"

	"golang.org/x/tools/go/ssa"
)

func init() { register("C30", checkC30) }

const pkgPR = "lib/persistedretry"

func checkC30(c *Ctx, r *Report) {
	r.Explain = "Persisted-task typestate (stored-as-pending ⇒ queued or executing; otherwise stored-as-failed so the poller retries it): Remove only after a successful execution; every execution ends in MarkFailed or Remove; Add persists before enqueueing and treats an existing task as a no-op; on EVERY path through enqueue (all returns, error or not) the task was sent to the queue or MarkFailed was attempted; retry marks pending and then always reaches enqueue; start-up demotes pending tasks to failed before workers run; the poller retries only tasks returned by GetFailed; workers execute every task they receive."
	r.NotDecided = "That a retry eventually succeeds; SQL semantics of the two stores beyond the agreement of their single-task statements on the key columns (R8); the time-based retry eligibility test."
	defer rulesTaskKeyAgreement(c, r)
	mS := func(m string) string { return "(" + pkgPR + ".Store)." + m }
	exec := r.MustFunc(r.Rule("R1", "E-OWN+E-ORDER/ok", "Store.Remove is called only in the success region of Executor.Exec, in the manager's exec", 1), "(*"+pkgPR+".manager).exec")
	r1 := r.Prop + ".R1"
	for _, cs := range c.CallsTo(mS("Remove")) {
		fn := cs.Caller
		if c.isFixture(fn) || pkgOf(fn) != pkgPR {
			continue
		}
		ok := false
		for _, ex := range callsInNamed(fn, "("+pkgPR+".Executor).Exec") {
			if inSuccessRegion(ex.Instr, cs.Instr) {
				ok = true
			}
		}
		r.Check(ok, r1, fn, "Store.Remove", cs.Instr, "after successful Exec", "a task leaves the persistent store without a successful execution")
	}
	// R2: every path of exec marks failed or removes
	r2 := r.Rule("R2", "E-PAIR(paths)", "every path through exec executes the task and then calls MarkFailed (on failure) or Remove (on success)", 1)
	if exec != nil {
		n, bad := 0, 0
		complete := forEachPath(exec, 2000, func(p Path) {
			if p.ret() == nil {
				return
			}
			n++
			ok := false
			for _, ex := range callsInNamed(exec, "("+pkgPR+".Executor).Exec") {
				if !p.hasInstr(ex.Instr) {
					continue
				}
				for _, cs := range callsInNamed(exec, mS("MarkFailed")) {
					if p.hasInstr(cs.Instr) && p.failedOn(ex.Instr) {
						ok = true
					}
				}
				for _, cs := range callsInNamed(exec, mS("Remove")) {
					if p.hasInstr(cs.Instr) && p.succeeded(ex.Instr) {
						ok = true
					}
				}
			}
			if !ok {
				bad++
			}
		})
		r.Check(complete && n > 0 && bad == 0, r2, exec, "exec paths", nil, fmt.Sprintf("%d paths", n),
			fmt.Sprintf("%d of %d paths through exec neither mark the task failed after a failed execution nor remove it after a successful one (complete=%v)", bad, n, complete))
	}
	// R3: Add
	r3 := r.Rule("R3", "E-ORDER/ok", "in Add, enqueue is reached only after the task was persisted without error (an already-stored task returns before enqueueing), and when the task is ready every persisted path reaches enqueue", 2)
	if add := r.MustFunc(r3, "(*"+pkgPR+".manager).Add"); add != nil {
		// a helper of the package whose every returned error is the error of
		// AddPending/AddFailed stands for them ("persist wrapper")
		var isAddErr func(v ssa.Value) bool
		persistWrapper := func(sf *ssa.Function) bool {
			if sf == nil || sf.Pkg != add.Pkg || len(sf.Blocks) == 0 || sf == add {
				return false
			}
			n := 0
			for _, ret := range returnsOf(sf) {
				ev := errOperand(ret)
				if ev == nil {
					return false
				}
				ev = unspill(ev)
				if !isCallTo(ev, mS("AddPending"), mS("AddFailed")) {
					if phi, ok := ev.(*ssa.Phi); ok {
						for _, e := range phi.Edges {
							if !isCallTo(e, mS("AddPending"), mS("AddFailed")) {
								return false
							}
						}
					} else {
						return false
					}
				}
				n++
			}
			return n > 0
		}
		isAddErr = func(v ssa.Value) bool {
			if isCallTo(v, mS("AddPending"), mS("AddFailed")) {
				return true
			}
			if cl, ok := v.(*ssa.Call); ok && persistWrapper(cl.Common().StaticCallee()) {
				return true
			}
			if phi, ok := v.(*ssa.Phi); ok {
				for _, e := range phi.Edges {
					if isNilConst(e) {
						continue
					}
					if !isCallTo(e, mS("AddPending"), mS("AddFailed")) {
						return false
					}
				}
				return true
			}
			return false
		}
		persisted := func(cond ssa.Value, val bool) int {
			b, ok := cond.(*ssa.BinOp)
			if !ok {
				return 0
			}
			if !(isAddErr(b.X) && isNilConst(b.Y) || isAddErr(b.Y) && isNilConst(b.X)) {
				return 0
			}
			nonNil := (b.Op.String() == "!=") == val
			if nonNil {
				return -1
			}
			return 1
		}
		encs := callsInNamed(add, "(*"+pkgPR+".manager).enqueue")
		if len(encs) == 0 {
			r.Bad(r3, add, "enqueue", nil, "Add never enqueues the task")
		}
		for _, cs := range encs {
			r.Check(guardedBy(cs.Instr, persisted), r3, add, "enqueue", cs.Instr, "persisted first", "a task is enqueued before (or without) being persisted, or although it already existed in the store")
		}
		// AddPending success ⇒ enqueue on every path
		persistSites := callsInNamed(add, mS("AddPending"))
		for _, cs := range callsIn(add) {
			if sf := cs.Instr.Common().StaticCallee(); persistWrapper(sf) && len(callsInNamed(sf, mS("AddPending"))) > 0 {
				persistSites = append(persistSites, cs)
			}
		}
		for _, ap := range persistSites {
			n, bad := 0, 0
			forEachPath(add, 2000, func(p Path) {
				if p.ret() == nil || !p.hasInstr(ap.Instr) {
					return
				}
				// success of the phi-merged error: path takes a nil edge of a value merging ap
				took := false
				instrsOf(add, func(in ssa.Instruction) {
					if b, ok := in.(*ssa.BinOp); ok && (isAddErr(b.X) && isNilConst(b.Y) || isAddErr(b.Y) && isNilConst(b.X)) {
						for _, e := range condEdges(b, b.Op.String() == "==") {
							if p.hasEdge(e) {
								took = true
							}
						}
					}
				})
				if !took {
					return
				}
				// a wrapper stores as pending only where its selecting parameter is true:
				// paths of Add that take the false side of that same value stored the
				// task as failed, which needs no enqueue
				if sf := ap.Instr.Common().StaticCallee(); sf != nil && persistWrapper(sf) {
					for _, inner := range callsInNamed(sf, mS("AddPending")) {
						for i, prm := range sf.Params {
							if prm.Type().String() != "bool" || i >= len(ap.Instr.Common().Args) {
								continue
							}
							sel := guardedBy(inner.Instr, func(cond ssa.Value, val bool) int {
								if cond == ssa.Value(prm) {
									return tern(val, 1, -1)
								}
								return 0
							})
							if !sel {
								continue
							}
							for _, e := range condEdges(ap.Instr.Common().Args[i], false) {
								if p.hasEdge(e) {
									return
								}
							}
						}
					}
				}
				n++
				hit := false
				for _, cs := range encs {
					if p.hasInstr(cs.Instr) {
						hit = true
					}
				}
				if !hit {
					bad++
				}
			})
			r.Check(n > 0 && bad == 0, r3, add, "persisted-pending ⇒ enqueued", ap.Instr, fmt.Sprintf("%d paths", n),
				fmt.Sprintf("%d of %d paths on which the task was stored as pending do not enqueue it: it stays pending forever (until restart)", bad, n))
		}
	}
	// R4: enqueue all returns
	r4 := r.Rule("R4", "E-PAIR(paths)", "on every path through enqueue (to any return) the task was sent on the queue or Store.MarkFailed was called", 1)
	if enq := r.MustFunc(r4, "(*"+pkgPR+".manager).enqueue"); enq != nil {
		var sels []*ssa.Select
		instrsOf(enq, func(in ssa.Instruction) {
			if s, ok := in.(*ssa.Select); ok {
				sels = append(sels, s)
			}
		})
		n, bad := 0, 0
		complete := forEachPath(enq, 2000, func(p Path) {
			if p.ret() == nil {
				return
			}
			n++
			ok := false
			for _, s := range sels {
				if p.selectSent(s) {
					ok = true
				}
			}
			for _, cs := range callsInNamed(enq, mS("MarkFailed")) {
				if p.hasInstr(cs.Instr) {
					ok = true
				}
			}
			// blocking sends
			instrsOf(enq, func(in ssa.Instruction) {
				if sd, isSend := in.(*ssa.Send); isSend && p.hasInstr(sd) {
					ok = true
				}
			})
			if !ok {
				bad++
			}
		})
		r.Check(complete && n > 0 && bad == 0 && len(sels) > 0, r4, enq, "enqueue paths", nil, fmt.Sprintf("%d paths", n),
			fmt.Sprintf("%d of %d paths through enqueue leave the task neither queued nor marked failed: a task stored as pending is then never executed again", bad, n))
	}
	// R5: retry
	r5 := r.Rule("R5", "E-ORDER", "retry marks the task pending and, on success, every path reaches enqueue; it is called only by the poller on tasks returned by Store.GetFailed", 2)
	// the retry role: whichever manager function calls Store.MarkPending (a method
	// of its own, or the poller itself when the call is written inline)
	var retryFns []*ssa.Function
	for _, fn := range c.FuncsIn(pkgPR) {
		if !c.isFixture(fn) && recvTypeName(topFunc(fn)) == pkgPR+".manager" && len(callsInNamed(fn, mS("MarkPending"))) > 0 {
			retryFns = append(retryFns, fn)
		}
	}
	if len(retryFns) == 0 {
		r.Unresolved(r5, "no manager function calls Store.MarkPending")
	}
	for _, rt := range retryFns {
		r.Analysed(rt)
		mps := callsInNamed(rt, mS("MarkPending"))
		encs := callsInNamed(rt, "(*"+pkgPR+".manager).enqueue")
		ok := len(mps) == 1 && len(encs) >= 1
		if ok {
			n, bad := 0, 0
			forEachPath(rt, 2000, func(p Path) {
				if p.ret() == nil || !p.succeeded(mps[0].Instr) {
					return
				}
				n++
				hit := false
				for _, e := range encs {
					if p.hasInstr(e.Instr) && instrAfterOnPath(p, mps[0].Instr, e.Instr) {
						hit = true
					}
				}
				if !hit {
					bad++
				}
			})
			ok = n > 0 && bad == 0
		}
		r.Check(ok, r5, rt, "MarkPending ⇒ enqueue", nil, "pending then always enqueued", "retry marks a task pending without then enqueueing it on every path")
		// the task comes from GetFailed: in this function's own loop, or at its call sites
		own := false
		for _, l := range rangeLoops(rt) {
			if len(mps) == 1 && mentionsCall(l.Ranged, mS("GetFailed")) && l.derivesFromElem(mps[0].Instr.Common().Args[len(mps[0].Instr.Common().Args)-1]) {
				own = true
			}
		}
		if own {
			r.OK(r5, rt, "retry call", mps[0].Instr, true, "marks tasks taken from GetFailed()")
			continue
		}
		for _, cs := range c.CallsTo(funcName(rt)) {
			fn := cs.Caller
			fromFailed := false
			for _, l := range rangeLoops(fn) {
				if mentionsCall(l.Ranged, mS("GetFailed")) && l.derivesFromElem(cs.Instr.Common().Args[1]) {
					fromFailed = true
				}
			}
			r.Check(fromFailed, r5, fn, "retry call", cs.Instr, "argument ranges over GetFailed()", "retry is applied to a task that does not come from Store.GetFailed (a pending or running task could be executed twice concurrently)")
		}
	}
	// R6: start-up
	r6 := r.Rule("R6", "E-ORDER/ok", "NewManager demotes all pending tasks to failed (loop over GetPending with MarkFailed, error ⇒ return) before starting workers", 2)
	// the demotion step is found by what it does: the function of the package, called
	// by NewManager, that asks the store for the pending tasks (or NewManager itself)
	demotionLoop := func(fn *ssa.Function) (*RangeLoop, ssa.CallInstruction) {
		for _, l := range rangeLoops(fn) {
			if !mentionsCall(l.Ranged, mS("GetPending")) {
				continue
			}
			for _, cs := range callsInNamed(fn, mS("MarkFailed")) {
				if l.everyIteration(cs.Instr) && l.derivesFromElem(cs.Instr.Common().Args[0]) {
					return l, cs.Instr
				}
			}
		}
		return nil, nil
	}
	if nm := r.MustFunc(r6, pkgPR+".NewManager"); nm != nil {
		starts := callsInNamed(nm, "(*"+pkgPR+".manager).start")
		var mp *ssa.Function
		var marks []*CallSite
		for _, cs := range callsIn(nm) {
			h := cs.Instr.Common().StaticCallee()
			if h != nil && h.Pkg == nm.Pkg && len(h.Blocks) > 0 && len(callsInNamed(h, mS("GetPending"))) > 0 {
				mp = h
				marks = append(marks, cs)
			}
		}
		switch {
		case mp != nil:
			ok := len(marks) == 1 && len(starts) >= 1
			for _, s := range starts {
				if !ok || !inSuccessRegion(marks[0].Instr, s.Instr) {
					ok = false
				}
			}
			r.Check(ok, r6, nm, "start after demotion", nil, "the demotion step succeeded before start", "workers are started before (or without) demoting tasks left pending by a previous process: they are never executed again")
			l, _ := demotionLoop(mp)
			r.Check(l != nil, r6, mp, "demotion loop", nil, "each pending task is marked failed", "not every task returned by GetPending is marked failed at start-up")
		case len(callsInNamed(nm, mS("GetPending"))) > 0:
			// inline form: the loop is in NewManager; workers start after it has
			// completed, on the success side of every MarkFailed
			l, mf := demotionLoop(nm)
			ok := l != nil && len(starts) >= 1
			for _, s := range starts {
				if !ok || !l.completedBefore(s.Instr) || !inSuccessRegion(mf, s.Instr) {
					ok = false
				}
			}
			r.Check(ok, r6, nm, "start after demotion", nil, "the demotion loop completed before start", "workers are started before (or without) demoting tasks left pending by a previous process: they are never executed again")
			r.Check(l != nil, r6, nm, "demotion loop", nil, "each pending task is marked failed", "not every task returned by GetPending is marked failed at start-up")
		default:
			r.Bad(r6, nm, "start after demotion", nil, "workers are started before (or without) demoting tasks left pending by a previous process: they are never executed again")
		}
	}
	// R7: workers execute what they receive; SyncExec runs the executor
	r7 := r.Rule("R7", "flow", "a worker passes every task received from its queue to exec", 1)
	if wk := r.MustFunc(r7, "(*"+pkgPR+".manager).worker"); wk != nil {
		ok := false
		for _, cs := range callsInNamed(wk, "(*"+pkgPR+".manager).exec") {
			if mentions(cs.Instr.Common().Args[1], func(v ssa.Value) bool { _, is := v.(*ssa.Select); return is }, 5) {
				ok = true
			}
		}
		r.Check(ok, r7, wk, "exec(received task)", nil, "received task executed", "a worker drops tasks it receives from the queue")
	}
}
