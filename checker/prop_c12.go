package main

import (
	"fmt"
	"go/token"

	"golang.org/x/tools/go/ssa"
)

func init() { register("C12", checkC12) }

// resolveLocal follows a load of a function-local variable (named results are
// spilled to locals when the function defers) back to the value stored into it,
// when exactly one store can be the reaching definition.
func resolveLocal(v ssa.Value, depth int) ssa.Value {
	if depth > 6 {
		return v
	}
	switch x := v.(type) {
	case *ssa.Convert:
		return v
	case *ssa.UnOp:
		if x.Op != token.MUL {
			return v
		}
		al, ok := x.X.(*ssa.Alloc)
		if !ok {
			return v
		}
		var stores []*ssa.Store
		for _, rf := range *al.Referrers() {
			switch y := rf.(type) {
			case *ssa.Store:
				if y.Addr == al {
					stores = append(stores, y)
				}
			case *ssa.UnOp, *ssa.DebugRef:
			default:
				return v // address escapes
			}
		}
		var found *ssa.Store
		// same block, before the load
		for _, in := range x.Block().Instrs {
			if in == ssa.Instruction(x) {
				break
			}
			if st, isSt := in.(*ssa.Store); isSt && st.Addr == al {
				found = st
			}
		}
		if found == nil {
			for b := x.Block().Idom(); b != nil && found == nil; b = b.Idom() {
				for _, in := range b.Instrs {
					if st, isSt := in.(*ssa.Store); isSt && st.Addr == al {
						found = st
					}
				}
			}
		}
		if found == nil {
			return v
		}
		for _, s := range stores {
			if s == found || s.Block() == found.Block() || s.Block() == x.Block() {
				continue
			}
			if reaches(found.Block(), s.Block()) && reaches(s.Block(), x.Block()) {
				return v // another definition may intervene
			}
		}
		if found.Val == v {
			return v
		}
		return resolveLocal(found.Val, depth+1)
	}
	return v
}

func checkC12(c *Ctx, r *Report) {
	r.Explain = "Structural clauses of 'in-memory blob buffers behave like files', decided for both buffer types (memory.File, base.BufferReadWriter): (S1) Seek computes the new offset from 0, the current offset and the current size for the three whence values respectively, rejects any other whence and a negative result; (S2) positional operations reject a negative offset before it is used as a slice bound or handed on, and positional reads test the offset against the size before slicing; (S3) sequential Read and Write advance the offset by exactly the count they return; (S4) memory.File writes copy into the buffer only after growing it to offset+len(p), publish the grown buffer on every path where it grew, and growing preserves the old bytes."
	r.NotDecided = "Byte-for-byte equality with os.File over operation sequences (values), the behaviour of aws.WriteAtBuffer, short-read/EOF conventions."
	type bufType struct {
		t, offField string
		sizeVia     []string // calls that yield the current contents (len of which is the size)
		contents    string   // or: the field whose (double) load is the contents
	}
	types_ := []bufType{
		{"lib/store/memory.File", "lib/store/memory.File.off", []string{"(*lib/store/memory.File).getData"}, "lib/store/memory.File.data"},
		{"lib/store/base.BufferReadWriter", "lib/store/base.BufferReadWriter.offset", []string{"(*github.com/aws/aws-sdk-go/aws.WriteAtBuffer).Bytes"}, ""},
	}
	s1 := r.Rule("S1", "E-EXHAUST+truth-table", "Seek: whence 0 ⇒ off; 1 ⇒ current offset + off; 2 ⇒ size + off; otherwise an error; negative result ⇒ error; the accepted value is stored as the offset and returned", 2)
	s2 := r.Rule("S2", "E-GUARD", "ReadAt/WriteAt: every use of the offset parameter (slice bound, callee argument, arithmetic) is on the non-negative side of a test of that parameter; ReadAt slices only where offset < size was established", 4)
	s3 := r.Rule("S3", "flow", "Read/Write: the value added to the offset field is the count that is returned", 4)
	s4 := r.Rule("S4", "E-ORDER", "memory.File Write/WriteAt copy into the result of resizeSliceIfNecessary(buf, offset+len(p)) and store it back on the resized side; resizeSliceIfNecessary copies the old contents into a newly made buffer", 3)

	for _, bt := range types_ {
		isLenOfContents := func(w ssa.Value) bool {
			cl, ok := w.(*ssa.Call)
			if !ok || calleeName(cl.Common()) != "builtin.len" {
				return false
			}
			return mentionsCall(cl.Call.Args[0], bt.sizeVia...) || (bt.contents != "" && mentionsField(cl.Call.Args[0], bt.contents))
		}
		isSize := func(v ssa.Value) bool {
			return mentions(v, func(w ssa.Value) bool {
				if isLenOfContents(w) {
					return true
				}
				// or a size getter of the type: a method all of whose returns are that length
				cl, ok := w.(*ssa.Call)
				if !ok {
					return false
				}
				g := cl.Common().StaticCallee()
				if g == nil || len(g.Blocks) == 0 || recvTypeName(g) != bt.t {
					return false
				}
				n := 0
				for _, ret := range returnsOf(g) {
					if len(ret.Results) != 1 || !mentions(ret.Results[0], isLenOfContents, 4) {
						return false
					}
					n++
				}
				return n > 0
			}, 4)
		}
		// ---------- S1
		if sk := r.MustFunc(s1, "(*"+bt.t+").Seek"); sk != nil && len(sk.Params) == 3 {
			offP, whP := sk.Params[1], sk.Params[2]
			stores := storesToField(sk, bt.offField)
			ok := len(stores) == 1
			why := fmt.Sprintf("%d stores to the offset field", len(stores))
			if ok {
				nv := stores[0].Val
				phi, isPhi := nv.(*ssa.Phi)
				if !isPhi {
					ok, why = false, "the stored offset is not selected by whence"
				} else {
					// value for whence == k: the phi edge whose predecessor lies on the true side of (whence == k)
					valFor := func(k int64) ssa.Value {
						var res ssa.Value
						instrsOf(sk, func(in ssa.Instruction) {
							b, isB := in.(*ssa.BinOp)
							if !isB || b.Op != token.EQL || b.X != ssa.Value(whP) {
								return
							}
							if kk, isK := intConst(b.Y); !isK || kk != k {
								return
							}
							for _, e := range condEdges(b, true) {
								for i, pred := range phi.Block().Preds {
									if pred == e.To || e.To.Dominates(pred) {
										res = phi.Edges[i]
									}
								}
							}
						})
						return res
					}
					v0, v1, v2 := valFor(0), valFor(1), valFor(2)
					isAdd := func(v ssa.Value, base func(ssa.Value) bool) bool {
						b, isB := v.(*ssa.BinOp)
						if !isB || b.Op != token.ADD {
							return false
						}
						return b.Y == ssa.Value(offP) && base(b.X) || b.X == ssa.Value(offP) && base(b.Y)
					}
					switch {
					case v0 == nil || v1 == nil || v2 == nil || len(phi.Edges) != 3:
						ok, why = false, "the three whence cases are not each given a value (or there are other cases)"
					case v0 != ssa.Value(offP):
						ok, why = false, "SeekStart does not yield the given offset"
					case !isAdd(v1, func(x ssa.Value) bool { return isPureLoadOf(x, bt.offField) }):
						ok, why = false, "SeekCurrent does not yield current offset + off"
					case !isAdd(v2, isSize):
						ok, why = false, "SeekEnd does not yield size + off"
					}
					// negative rejected: the store is on the false side of (new < 0)
					if ok && !guardedBy(stores[0], func(cond ssa.Value, val bool) int {
						b, isB := cond.(*ssa.BinOp)
						if isB && b.Op == token.LSS && b.X == nv && isConstZero(b.Y) {
							return tern(val, -1, 1)
						}
						return 0
					}) {
						ok, why = false, "a negative resulting offset is not rejected"
					}
					// returned value is the stored one
					if ok {
						for _, ret := range returnsOf(sk) {
							if classifyReturn(ret) == RetFailure {
								continue
							}
							if resolveLocal(unspill(ret.Results[0]), 0) != nv {
								ok, why = false, "Seek returns something else than the offset it stored"
							}
						}
					}
					// any other whence fails: the not-equal side of the last comparison leads only to failure returns
					if ok {
						instrsOf(sk, func(in ssa.Instruction) {
							b, isB := in.(*ssa.BinOp)
							if !isB || b.Op != token.EQL || b.X != ssa.Value(whP) {
								return
							}
							if kk, isK := intConst(b.Y); !isK || kk != 2 {
								return
							}
							for _, e := range condEdges(b, false) {
								for _, ret := range returnsOf(sk) {
									if (ret.Block() == e.To || reaches(e.To, ret.Block())) && classifyReturn(ret) != RetFailure && !reaches(e.To, phi.Block()) {
										ok, why = false, "an unknown whence value does not fail"
									}
								}
								if e.To == phi.Block() || reaches(e.To, phi.Block()) {
									ok, why = false, "an unknown whence value is treated like a known one"
								}
							}
						})
					}
				}
			}
			r.Check(ok, s1, sk, "whence table", nil, "0⇒off, 1⇒cur+off, 2⇒size+off, else error, negative rejected", "Seek does not position like a file: "+why)
		}
		// ---------- S2
		for _, m := range []string{"ReadAt", "WriteAt"} {
			fn := r.MustFunc(s2, "(*"+bt.t+")."+m)
			if fn == nil || len(fn.Params) != 3 {
				continue
			}
			offP := fn.Params[2]
			refs := offP.Referrers()
			if refs == nil {
				continue
			}
			nuse := 0
			for _, rf := range *refs {
				if _, isDbg := rf.(*ssa.DebugRef); isDbg {
					continue
				}
				// the tests themselves
				if b, isB := rf.(*ssa.BinOp); isB {
					switch b.Op {
					case token.LSS, token.GEQ, token.LEQ, token.GTR, token.EQL, token.NEQ:
						continue
					}
				}
				nuse++
				lo, up := boundFacts(rf, offP)
				okU := true
				if sl, isSl := rf.(*ssa.Slice); isSl && m == "ReadAt" && sl.Low == ssa.Value(offP) {
					okU = up
				}
				r.Check(lo && okU, s2, fn, "use of the offset parameter", rf, "non-negative (and below the size where it slices a read)",
					fmt.Sprintf("%s uses its offset without the bounds a file would enforce (non-negative established=%v, below size established=%v): a negative or too large offset panics or reads/writes elsewhere instead of failing", m, lo, okU))
			}
			if nuse == 0 {
				r.Undecided(s2, fn, "use of the offset parameter", nil, "the offset parameter is not used")
			}
		}
		// ---------- S3
		for _, m := range []string{"Read", "Write"} {
			fn := r.MustFunc(s3, "(*"+bt.t+")."+m)
			if fn == nil {
				continue
			}
			stores := storesToField(fn, bt.offField)
			ok := len(stores) >= 1
			why := "the offset is not advanced"
			for _, st := range stores {
				b, isB := st.Val.(*ssa.BinOp)
				if !isB || b.Op != token.ADD {
					ok, why = false, "the new offset is not old offset + count"
					continue
				}
				var cnt ssa.Value
				switch {
				case isPureLoadOf(b.X, bt.offField):
					cnt = b.Y
				case isPureLoadOf(b.Y, bt.offField):
					cnt = b.X
				default:
					ok, why = false, "the new offset is not computed from the old offset"
					continue
				}
				if cv, isCv := cnt.(*ssa.Convert); isCv {
					cnt = cv.X
				}
				cnt = resolveLocal(cnt, 0)
				// every success return that can follow the store returns cnt
				for _, ret := range returnsOf(fn) {
					if !(ret.Block() == st.Block() || reaches(st.Block(), ret.Block())) {
						continue
					}
					got := resolveLocal(unspill(ret.Results[0]), 0)
					if got != cnt {
						ok, why = false, "the count returned differs from the amount the offset advanced by"
					}
				}
			}
			r.Check(ok, s3, fn, "offset advances by the returned count", nil, "offset += n; return n", m+" does not keep offset and byte count in step: "+why)
		}
	}
	// ---------- S4 (memory.File only)
	const tF = "lib/store/memory.File"
	for _, m := range []string{"Write", "WriteAt"} {
		fn := r.MustFunc(s4, "(*"+tF+")."+m)
		if fn == nil {
			continue
		}
		// the grow-copy-publish sequence may live in a helper of the type that the
		// method calls with the payload and the offset: it is then checked there,
		// with the helper's int64 parameter playing the offset
		var helperOff ssa.Value
		if len(callsInNamed(fn, "lib/store/memory.resizeSliceIfNecessary")) == 0 {
			for _, cs := range callsIn(fn) {
				sf := cs.Instr.Common().StaticCallee()
				if sf == nil || sf.Pkg != fn.Pkg || len(callsInNamed(sf, "lib/store/memory.resizeSliceIfNecessary")) != 1 {
					continue
				}
				// the argument in the offset position must be this method's offset
				for i, prm := range sf.Params {
					if prm.Type().String() != "int64" || i >= len(cs.Instr.Common().Args) {
						continue
					}
					a := cs.Instr.Common().Args[i]
					isOff := false
					if m == "WriteAt" {
						isOff = a == ssa.Value(fn.Params[2])
					} else {
						isOff = isPureLoadOf(a, tF+".off")
					}
					if isOff {
						fn, helperOff = sf, prm
					}
				}
			}
		}
		rs := callsInNamed(fn, "lib/store/memory.resizeSliceIfNecessary")
		ok := len(rs) == 1
		why := "no single resize call"
		if ok {
			grown := resultN(rs[0].Instr, 0)
			resized := resultN(rs[0].Instr, 1)
			end := rs[0].Instr.Common().Args[1]
			eb, isB := end.(*ssa.BinOp)
			var offV ssa.Value
			if helperOff != nil {
				offV = helperOff
			} else if m == "WriteAt" {
				offV = fn.Params[2]
			}
			okEnd := isB && eb.Op == token.ADD
			if okEnd {
				isLenP := func(v ssa.Value) bool {
					cl, isC := v.(*ssa.Call)
					return isC && calleeName(cl.Common()) == "builtin.len" && cl.Call.Args[0] == ssa.Value(fn.Params[1])
				}
				isOff := func(v ssa.Value) bool {
					if cv, isCv := v.(*ssa.Convert); isCv {
						v = cv.X
					}
					if offV != nil {
						return v == offV
					}
					return isPureLoadOf(v, tF+".off")
				}
				okEnd = isLenP(eb.X) && isOff(eb.Y) || isLenP(eb.Y) && isOff(eb.X)
			}
			if !okEnd {
				ok, why = false, "the buffer is not grown to offset+len(p)"
			}
			// copy destination
			nCopy := 0
			instrsOf(fn, func(in ssa.Instruction) {
				cl, isC := in.(*ssa.Call)
				if !isC || calleeName(cl.Common()) != "builtin.copy" {
					return
				}
				nCopy++
				dst, isSl := cl.Call.Args[0].(*ssa.Slice)
				isGrown := false
				if isSl {
					for _, g := range grown {
						if dst.X == g {
							isGrown = true
						}
					}
				}
				if !isGrown {
					ok, why = false, "bytes are copied into something else than the grown buffer"
				}
			})
			if nCopy != 1 {
				ok, why = false, "no single copy into the buffer"
			}
			// publish on the resized side: every path with resized==true stores *f.data = grown
			n, bad := 0, 0
			forEachPath(fn, 5000, func(p Path) {
				took := false
				for _, rv := range resized {
					for _, e := range condEdges(rv, true) {
						if p.hasEdge(e) {
							took = true
						}
					}
				}
				if !took {
					return
				}
				n++
				pub := false
				instrsOf(fn, func(in ssa.Instruction) {
					st, isSt := in.(*ssa.Store)
					if !isSt || !p.hasInstr(st) {
						return
					}
					ld, isLd := st.Addr.(*ssa.UnOp)
					if !isLd || !isFieldRef(ld.X, tF+".data") {
						return
					}
					for _, g := range grown {
						if st.Val == g {
							pub = true
						}
					}
				})
				if !pub {
					bad++
				}
			})
			if n == 0 || bad > 0 {
				ok, why = false, fmt.Sprintf("the grown buffer is not stored back on %d of %d resized paths", bad, n)
			}
		}
		r.Check(ok, s4, fn, "grow, copy, publish", nil, "resize(offset+len(p)); copy into it; store back when resized", m+" can lose or misplace bytes: "+why)
	}
	if rz := r.MustFunc(s4, "lib/store/memory.resizeSliceIfNecessary"); rz != nil {
		ok := false
		instrsOf(rz, func(in ssa.Instruction) {
			mk, isMk := in.(*ssa.MakeSlice)
			if !isMk {
				return
			}
			// a copy(newBuf, old) in the same block or dominated by it
			instrsOf(rz, func(in2 ssa.Instruction) {
				cl, isC := in2.(*ssa.Call)
				if !isC || calleeName(cl.Common()) != "builtin.copy" {
					return
				}
				if cl.Call.Args[0] == ssa.Value(mk) && cl.Call.Args[1] == ssa.Value(rz.Params[0]) && (cl.Block() == mk.Block() || mk.Block().Dominates(cl.Block())) {
					ok = true
				}
			})
			if k, isK := mk.Len.(*ssa.Parameter); !isK || k != rz.Params[1] {
				ok = false
			}
		})
		r.Check(ok, s4, rz, "growth preserves contents", nil, "make(end) then copy(new, old)", "growing the buffer does not carry the bytes written so far into the new buffer (or does not size it to the requested end)")
	}
}
