// flow.go: dominance, branch facts, success regions, return classification.
package main

import (
	"go/constant"
	"go/token"
	"go/types"
	"sort"
	"strings"

	"golang.org/x/tools/go/ssa"
)

func boolS(b bool) string { return boolStr(b) }

// instrIndex returns the index of in within its block, or -1.
func instrIndex(in ssa.Instruction) int {
	for i, x := range in.Block().Instrs {
		if x == in {
			return i
		}
	}
	return -1
}

// precedes reports whether instruction a is executed before b on every path
// reaching b (a's block strictly dominates b's, or same block and earlier).
func precedes(a, b ssa.Instruction) bool {
	ab, bb := a.Block(), b.Block()
	if ab.Parent() != bb.Parent() {
		return false
	}
	if ab == bb {
		return instrIndex(a) < instrIndex(b)
	}
	return ab.Dominates(bb)
}

// blockDomInstr: every path to instruction b passes through block a's start.
func blockDominatesInstr(a *ssa.BasicBlock, b ssa.Instruction) bool {
	return a == b.Block() || a.Dominates(b.Block())
}

func isNilConst(v ssa.Value) bool {
	c, ok := v.(*ssa.Const)
	return ok && c.Value == nil
}

func isBoolConst(v ssa.Value, want bool) bool {
	c, ok := v.(*ssa.Const)
	if !ok || c.Value == nil || c.Value.Kind() != constant.Bool {
		return false
	}
	return constant.BoolVal(c.Value) == want
}

// Edge is a CFG edge taken when a condition has a given truth value.
type Edge struct {
	From, To *ssa.BasicBlock
}

// edgeDominates: every path to block b passes through the edge e.
// True when e.To has e.From as only predecessor and e.To dominates b (or is b);
// when e.To has several predecessors the edge itself does not dominate anything,
// except in the degenerate case where all other preds are dominated by e.To (loop).
func edgeDominates(e Edge, b *ssa.BasicBlock) bool {
	if e.To != b && !e.To.Dominates(b) {
		return false
	}
	for _, p := range e.To.Preds {
		if p == e.From {
			continue
		}
		if p == e.To || e.To.Dominates(p) {
			continue // back edge
		}
		return false
	}
	// e.From might reach e.To through both successors
	if len(e.From.Succs) == 2 && e.From.Succs[0] == e.From.Succs[1] {
		return false
	}
	return true
}

// condEdges returns, for a boolean SSA value cond, the CFG edges on which cond is
// known to have value `want`. Handles negation and short-circuit && / || lowered
// into control flow (phi of constants is not reconstructed; instead we follow the
// If instructions that test cond directly).
func condEdges(cond ssa.Value, want bool) []Edge {
	var out []Edge
	if u, ok := cond.(*ssa.UnOp); ok && u.Op == token.NOT {
		// edges of the inner with inverted polarity are also facts about cond
		out = append(out, condEdges(u.X, !want)...)
	}
	for _, r := range *cond.Referrers() {
		switch x := r.(type) {
		case *ssa.If:
			blk := x.Block()
			if want {
				out = append(out, Edge{blk, blk.Succs[0]})
			} else {
				out = append(out, Edge{blk, blk.Succs[1]})
			}
		case *ssa.UnOp:
			if x.Op == token.NOT {
				for _, r2 := range *x.Referrers() {
					if iff, ok := r2.(*ssa.If); ok {
						blk := iff.Block()
						if want { // !cond false
							out = append(out, Edge{blk, blk.Succs[1]})
						} else {
							out = append(out, Edge{blk, blk.Succs[0]})
						}
					}
				}
			}
		}
	}
	return out
}

// nilTests returns the boolean values comparing v with nil: (value, trueMeansNonNil).
type nilTest struct {
	Cond       ssa.Value
	TrueNonNil bool
}

func nilTestsOf(v ssa.Value) []nilTest {
	var out []nilTest
	refs := v.Referrers()
	if refs == nil {
		return nil
	}
	for _, r := range *refs {
		b, ok := r.(*ssa.BinOp)
		if !ok {
			continue
		}
		other := b.Y
		if b.Y == v {
			other = b.X
		}
		if !isNilConst(other) {
			continue
		}
		switch b.Op {
		case token.NEQ:
			out = append(out, nilTest{b, true})
		case token.EQL:
			out = append(out, nilTest{b, false})
		}
	}
	return out
}

// nilEdges returns edges on which error value v is known nil (want nil) or non-nil.
func nilEdges(v ssa.Value, wantNil bool) []Edge {
	var out []Edge
	for _, t := range nilTestsOf(v) {
		// cond true means non-nil if TrueNonNil
		out = append(out, condEdges(t.Cond, t.TrueNonNil != wantNil)...)
	}
	return out
}

// errResult returns the error-typed result value(s) of a call instruction
// (the call value itself if it returns a single error, or Extracts of the tuple).
func errResults(call ssa.CallInstruction) []ssa.Value {
	v := call.Value()
	if v == nil {
		return nil
	}
	sig := call.Common().Signature()
	res := sig.Results()
	if res.Len() == 0 {
		return nil
	}
	if res.Len() == 1 {
		if isErrorType(res.At(0).Type()) {
			return []ssa.Value{v}
		}
		return nil
	}
	var out []ssa.Value
	for _, r := range *v.Referrers() {
		if ex, ok := r.(*ssa.Extract); ok {
			if isErrorType(res.At(ex.Index).Type()) {
				out = append(out, ex)
			}
		}
	}
	return out
}

// resultN returns the Extract values of result index i of a call (or the call
// itself when it has one result and i==0).
func resultN(call ssa.CallInstruction, i int) []ssa.Value {
	v := call.Value()
	if v == nil {
		return nil
	}
	res := call.Common().Signature().Results()
	if res.Len() == 1 && i == 0 {
		return []ssa.Value{v}
	}
	var out []ssa.Value
	for _, r := range *v.Referrers() {
		if ex, ok := r.(*ssa.Extract); ok && ex.Index == i {
			out = append(out, ex)
		}
	}
	return out
}

// errAliases follows an error value through stores to a local alloc that is then
// loaded (named results / variables captured by defers) and through phis that
// merge it only with itself. It returns the set of values that carry exactly this
// error at their definition.
func errAliases(v ssa.Value) []ssa.Value {
	out := []ssa.Value{v}
	seen := map[ssa.Value]bool{v: true}
	for i := 0; i < len(out); i++ {
		cur := out[i]
		refs := cur.Referrers()
		if refs == nil {
			continue
		}
		for _, r := range *refs {
			switch x := r.(type) {
			case *ssa.Store:
				if x.Val != cur {
					continue
				}
				// loads of the same alloc that are dominated by this store, with no other
				// store to the alloc in between (approximation: loads in blocks dominated by the
				// store block and no other store dominated by this store dominating the load).
				al, ok := x.Addr.(*ssa.Alloc)
				if !ok {
					continue
				}
				for _, ar := range *al.Referrers() {
					ld, ok := ar.(*ssa.UnOp)
					if !ok || ld.Op != token.MUL {
						continue
					}
					if !precedes(x, ld) {
						continue
					}
					clobbered := false
					for _, ar2 := range *al.Referrers() {
						st2, ok := ar2.(*ssa.Store)
						if !ok || st2 == x {
							continue
						}
						if precedes(x, st2) && precedes(st2, ld) {
							clobbered = true
						}
						// a store that neither dominates nor is dominated may still interfere
						if !precedes(st2, x) && !precedes(x, st2) && reaches(st2.Block(), ld.Block()) {
							clobbered = true
						}
						if precedes(x, st2) && !precedes(st2, ld) && reaches(st2.Block(), ld.Block()) && st2.Block() != ld.Block() {
							clobbered = true
						}
					}
					if !clobbered && !seen[ld] {
						seen[ld] = true
						out = append(out, ld)
					}
				}
			case *ssa.ChangeInterface:
				if !seen[x] {
					seen[x] = true
					out = append(out, x)
				}
			case *ssa.MakeInterface:
				if !seen[x] {
					seen[x] = true
					out = append(out, x)
				}
			}
		}
	}
	return out
}

// reaches: is there a CFG path from a to b (a != b or via cycle)?
func reaches(a, b *ssa.BasicBlock) bool {
	seen := map[*ssa.BasicBlock]bool{}
	var st []*ssa.BasicBlock
	st = append(st, a.Succs...)
	for len(st) > 0 {
		x := st[len(st)-1]
		st = st[:len(st)-1]
		if x == b {
			return true
		}
		if seen[x] {
			continue
		}
		seen[x] = true
		st = append(st, x.Succs...)
	}
	return false
}

// inSuccessRegion: instruction site is executed only if the call `a` returned a
// nil error: some nil-edge of (an alias of) its error result dominates site's block.
// tolerated: classifier functions (e.g. "os.IsExist") whose true-edge also counts.
func inSuccessRegion(a ssa.CallInstruction, site ssa.Instruction, tolerated ...string) bool {
	errs := errResults(a)
	if len(errs) == 0 {
		return false
	}
	for _, e0 := range errs {
		for _, e := range errAliases(e0) {
			for _, ed := range nilEdges(e, true) {
				if edgeDominates(ed, site.Block()) && precedesBlock(a, ed.From) {
					return true
				}
			}
			// negative form: site is not reachable from any non-nil edge and all non-nil
			// edges lead to blocks that leave the function without reaching site.
			if ok := successByEarlyExit(a, e, site, tolerated); ok {
				return true
			}
		}
	}
	return false
}

func precedesBlock(a ssa.Instruction, b *ssa.BasicBlock) bool {
	return a.Block() == b || a.Block().Dominates(b)
}

// successByEarlyExit handles `if err != nil { ...; return }` followed by site in
// the join block, and the compound kraken idiom
//   if err != nil && !classifier(err) { return }  /  if classifier(err) {...return}
// It checks: the test block T of err (If on err != nil, or the head of a
// short-circuit chain) dominates site; and no path from a non-nil edge reaches
// site's block, except through edges where a tolerated classifier is true.
func successByEarlyExit(a ssa.CallInstruction, e ssa.Value, site ssa.Instruction, tolerated []string) bool {
	nonNil := nilEdges(e, false)
	if len(nonNil) == 0 {
		return false
	}
	// all tests must be after a and the first must dominate site
	domOK := false
	for _, ed := range nonNil {
		if precedesBlock(a, ed.From) && (ed.From == site.Block() || ed.From.Dominates(site.Block())) {
			domOK = true
		}
	}
	if !domOK {
		return false
	}
	// barrier edges: where a tolerated classifier of e is true
	tolTrue := map[Edge]bool{}
	for _, cl := range classifierCalls(e, tolerated) {
		for _, ed := range condEdges(cl, true) {
			tolTrue[ed] = true
		}
	}
	// explore from each non-nil edge target; fail if we reach site's block.
	for _, ed := range nonNil {
		if !precedesBlock(a, ed.From) {
			continue
		}
		if tolTrue[ed] {
			continue
		}
		// Path-sensitive exploration of the non-nil side: pure classifier calls on
		// (aliases of) e with the same other arguments are congruent, so a later test
		// of the same classification must take the branch consistent with the earlier
		// one; tests of e against nil must take the non-nil branch.
		aliases := map[ssa.Value]bool{}
		for _, al := range errAliases(e) {
			aliases[al] = true
		}
		classKey := func(cond ssa.Value) (string, bool) {
			c, ok := cond.(*ssa.Call)
			if !ok {
				return "", false
			}
			n := calleeName(c.Common())
			switch n {
			case "errors.Is", "os.IsNotExist", "os.IsExist", "errors.As":
			default:
				return "", false
			}
			if len(c.Call.Args) == 0 || !aliases[c.Call.Args[0]] {
				return "", false
			}
			k := n
			for _, a := range c.Call.Args[1:] {
				if u, isU := a.(*ssa.UnOp); isU {
					if g, isG := u.X.(*ssa.Global); isG {
						k += "|global:" + g.String()
						continue
					}
				}
				k += "|" + a.Name()
			}
			return k, true
		}
		type stateKey struct {
			b *ssa.BasicBlock
			f string
		}
		visited := map[stateKey]bool{}
		reached := false
		var dfs func(b *ssa.BasicBlock, facts map[string]bool)
		fkey := func(f map[string]bool) string {
			var ks []string
			for k, v := range f {
				ks = append(ks, k+"="+boolS(v))
			}
			sort.Strings(ks)
			return strings.Join(ks, ",")
		}
		dfs = func(b *ssa.BasicBlock, facts map[string]bool) {
			if reached {
				return
			}
			sk := stateKey{b, fkey(facts)}
			if visited[sk] {
				return
			}
			visited[sk] = true
			if b == site.Block() {
				reached = true
				return
			}
			if len(b.Instrs) > 0 {
				if iff, ok := b.Instrs[len(b.Instrs)-1].(*ssa.If); ok && b.Succs[0] != b.Succs[1] {
					cond, pol := stripNot(iff.Cond, true) // cond==pol ⇔ If condition true
					// nil test of e: we are on the non-nil side
					if bo, isB := cond.(*ssa.BinOp); isB && (bo.Op == token.NEQ || bo.Op == token.EQL) &&
						(aliases[bo.X] && isNilConst(bo.Y) || aliases[bo.Y] && isNilConst(bo.X)) {
						condVal := bo.Op == token.NEQ // e != nil is true
						ifTrue := condVal == pol
						if ifTrue {
							dfs(b.Succs[0], facts)
						} else {
							dfs(b.Succs[1], facts)
						}
						return
					}
					if k, ok := classKey(cond); ok {
						if v, known := facts[k]; known {
							if (v == pol) && !tolTrue[Edge{b, b.Succs[0]}] {
								dfs(b.Succs[0], facts)
							} else if v != pol && !tolTrue[Edge{b, b.Succs[1]}] {
								dfs(b.Succs[1], facts)
							}
							return
						}
						for i, s := range b.Succs {
							if tolTrue[Edge{b, s}] {
								continue
							}
							nf := map[string]bool{}
							for kk, vv := range facts {
								nf[kk] = vv
							}
							nf[k] = (i == 0) == pol
							dfs(s, nf)
						}
						return
					}
				}
			}
			for _, s := range b.Succs {
				if tolTrue[Edge{b, s}] {
					continue
				}
				dfs(s, facts)
			}
		}
		dfs(ed.To, map[string]bool{})
		if reached {
			return false
		}
	}
	// additionally, the site must not be reachable from a without passing any test:
	// guaranteed because the first test dominates site (domOK).
	return true
}

// classifierCalls returns boolean values classifier(e) for the named classifier
// functions (canonical names such as "os.IsExist", "errors.Is").
func classifierCalls(e ssa.Value, names []string) []ssa.Value {
	var out []ssa.Value
	if len(names) == 0 {
		return nil
	}
	for _, al := range errAliases(e) {
		refs := al.Referrers()
		if refs == nil {
			continue
		}
		for _, r := range *refs {
			c, ok := r.(*ssa.Call)
			if !ok {
				continue
			}
			n := calleeName(c.Common())
			for _, want := range names {
				if n == want {
					out = append(out, c)
				}
			}
		}
	}
	return out
}

// ReturnKind classifies a return instruction by its error operand.
type ReturnKind int

const (
	RetSuccess ReturnKind = iota // error operand is provably nil
	RetFailure                   // error operand is provably non-nil
	RetUnknown                   // cannot tell
	RetNoError                   // function has no error result
)

// errOperand returns the last operand of a Return if the function's last result is error.
func errOperand(ret *ssa.Return) ssa.Value {
	fn := ret.Parent()
	res := fn.Signature.Results()
	if res.Len() == 0 || !isErrorType(res.At(res.Len()-1).Type()) {
		return nil
	}
	return unspill(ret.Results[len(ret.Results)-1])
}

// unspill undoes the spilling of results around `rundefers`: in a function with
// defers go/ssa stores each result into a local, runs the defers and reloads it
// (`*t1 = v; rundefers; t2 = *t1; return t2`). If v is such a reload and the
// latest store to the same local precedes it in the same block, return the
// stored value. (A deferred closure could still overwrite a NAMED result; the
// locals used for unnamed results are not visible to closures.)
func unspill(v ssa.Value) ssa.Value {
	ld, ok := v.(*ssa.UnOp)
	if !ok || ld.Op != token.MUL {
		return v
	}
	al, ok := ld.X.(*ssa.Alloc)
	if !ok {
		return v
	}
	// captured by a closure? then a defer may change it
	for _, r := range *al.Referrers() {
		switch r.(type) {
		case *ssa.Store, *ssa.UnOp, *ssa.DebugRef:
		default:
			return v
		}
	}
	var last *ssa.Store
	for _, in := range ld.Block().Instrs {
		if in == ssa.Instruction(ld) {
			break
		}
		if st, ok := in.(*ssa.Store); ok && st.Addr == al {
			last = st
		}
	}
	if last == nil {
		return v
	}
	return last.Val
}

var errorCtors = map[string]bool{
	"fmt.Errorf": true, "errors.New": true,
	"utils/handler.Errorf": true, "utils/handler.ErrorStatus": true,
	"(*utils/handler.Error).Status": true, "(*utils/handler.Error).Header": true,
	"errors.Join": true,
}

// classifyReturn decides whether ret returns a nil error.
func classifyReturn(ret *ssa.Return) ReturnKind {
	v := errOperand(ret)
	if v == nil {
		return RetNoError
	}
	return classifyErrValue(v, ret.Block(), 0)
}

func classifyErrValue(v ssa.Value, at *ssa.BasicBlock, depth int) ReturnKind {
	if depth > 6 {
		return RetUnknown
	}
	if isNilConst(v) {
		return RetSuccess
	}
	switch x := v.(type) {
	case *ssa.MakeInterface:
		// concrete non-nil value boxed in error; a typed nil pointer is still a non-nil
		// interface, so this is a failure return.
		return RetFailure
	case *ssa.ChangeInterface:
		return classifyErrValue(x.X, at, depth+1)
	case *ssa.Call:
		n := calleeName(x.Common())
		if errorCtors[n] {
			return RetFailure
		}
		return factsAt(v, at)
	case *ssa.Phi:
		kinds := map[ReturnKind]bool{}
		for i, e := range x.Edges {
			pred := x.Block().Preds[i]
			kinds[classifyErrValue(e, pred, depth+1)] = true
		}
		if len(kinds) == 1 {
			for k := range kinds {
				return k
			}
		}
		return factsAt(v, at)
	case *ssa.UnOp:
		if x.Op == token.MUL {
			// load of a local (named result): look at the reaching stores
			if al, ok := x.X.(*ssa.Alloc); ok {
				return classifyLoad(x, al, at, depth)
			}
			if _, ok := x.X.(*ssa.Global); ok {
				// package-level sentinel error (ErrNotFound, ...): non-nil by convention
				if f := factsAt(v, at); f != RetUnknown {
					return f
				}
				return RetFailure
			}
		}
	case *ssa.Global:
		return RetFailure
	}
	return factsAt(v, at)
}

func classifyLoad(ld *ssa.UnOp, al *ssa.Alloc, at *ssa.BasicBlock, depth int) ReturnKind {
	// find the unique store that dominates the load with no interfering store
	var stores []*ssa.Store
	for _, r := range *al.Referrers() {
		if st, ok := r.(*ssa.Store); ok {
			stores = append(stores, st)
		} else if _, ok := r.(*ssa.UnOp); ok {
			continue
		} else {
			return factsAt(ld, at) // address escapes
		}
	}
	var best *ssa.Store
	for _, st := range stores {
		if precedes(st, ld) {
			if best == nil || precedes(best, st) {
				best = st
			}
		}
	}
	if best == nil {
		if len(stores) == 0 {
			return RetSuccess // zero value of a named error result
		}
		return factsAt(ld, at)
	}
	for _, st := range stores {
		if st == best {
			continue
		}
		if precedes(st, best) {
			continue
		}
		if reaches(st.Block(), ld.Block()) || st.Block() == ld.Block() {
			return factsAt(ld, at)
		}
	}
	k := classifyErrValue(best.Val, best.Block(), depth+1)
	if k == RetUnknown {
		// facts about the stored value that hold at the load
		if f := factsAt(best.Val, at); f != RetUnknown {
			return f
		}
		return factsAt(ld, at)
	}
	return k
}

// factsAt uses dominating branch facts about v (v != nil / v == nil edges).
func factsAt(v ssa.Value, at *ssa.BasicBlock) ReturnKind {
	for _, al := range errAliasesBack(v) {
		for _, ed := range nilEdges(al, true) {
			if edgeDominates(ed, at) {
				return RetSuccess
			}
		}
		for _, ed := range nilEdges(al, false) {
			if edgeDominates(ed, at) {
				return RetFailure
			}
		}
	}
	return RetUnknown
}

// errAliasesBack: v and what v is a copy of.
func errAliasesBack(v ssa.Value) []ssa.Value {
	out := []ssa.Value{v}
	switch x := v.(type) {
	case *ssa.ChangeInterface:
		out = append(out, errAliasesBack(x.X)...)
	}
	out = append(out, errAliases(v)[1:]...)
	return out
}

// returnsOf lists the Return instructions of fn. Functions with defers that
// recover have a Recover block; it is included by go/ssa as a block with a return.
func returnsOf(fn *ssa.Function) []*ssa.Return {
	var out []*ssa.Return
	for _, b := range fn.Blocks {
		if len(b.Instrs) == 0 {
			continue
		}
		if r, ok := b.Instrs[len(b.Instrs)-1].(*ssa.Return); ok {
			if fn.Recover != nil && b == fn.Recover {
				continue
			}
			out = append(out, r)
		}
	}
	return out
}

// mentions reports whether the backward slice of v (bounded) contains a value
// satisfying pred. The slice follows operands of pure instructions, phis, and the
// results of static callees one level deep is NOT followed here.
func mentions(v ssa.Value, pred func(ssa.Value) bool, limit int) bool {
	seen := map[ssa.Value]bool{}
	var walk func(ssa.Value, int) bool
	walk = func(x ssa.Value, d int) bool {
		if x == nil || seen[x] || d > limit {
			return false
		}
		seen[x] = true
		if pred(x) {
			return true
		}
		in, ok := x.(ssa.Instruction)
		if !ok {
			return false
		}
		for _, op := range in.Operands(nil) {
			if *op != nil && walk(*op, d+1) {
				return true
			}
		}
		// local allocs (variables, composite literals, varargs arrays): follow the
		// values stored into them or into their fields/elements
		if al, ok := x.(*ssa.Alloc); ok {
			var addrs []ssa.Value
			addrs = append(addrs, al)
			for i := 0; i < len(addrs); i++ {
				refs := addrs[i].Referrers()
				if refs == nil {
					continue
				}
				for _, r := range *refs {
					switch y := r.(type) {
					case *ssa.Store:
						if y.Addr == addrs[i] && walk(y.Val, d+1) {
							return true
						}
					case *ssa.FieldAddr:
						if y.X == addrs[i] && len(addrs) < 64 {
							addrs = append(addrs, y)
						}
					case *ssa.IndexAddr:
						if y.X == addrs[i] && len(addrs) < 64 {
							addrs = append(addrs, y)
						}
					}
				}
			}
		}
		return false
	}
	return walk(v, 0)
}

// isCallTo: v is a call whose callee is one of names.
func isCallTo(v ssa.Value, names ...string) bool {
	c, ok := v.(*ssa.Call)
	if !ok {
		return false
	}
	n := calleeName(c.Common())
	for _, w := range names {
		if n == w {
			return true
		}
	}
	return false
}

// isFieldLoad: v loads (or addresses) the field "pkg.T.f".
func isFieldRef(v ssa.Value, field string) bool {
	switch x := v.(type) {
	case *ssa.FieldAddr, *ssa.Field:
		n, ok := fieldName(x)
		return ok && n == field
	case *ssa.UnOp:
		if x.Op == token.MUL {
			return isFieldRef(x.X, field)
		}
	}
	return false
}

// controllingConds returns the conditions (with polarity) that dominate block b:
// for each If whose one successor edge dominates b.
type CondFact struct {
	Cond ssa.Value
	Val  bool
	If   *ssa.If
}

func dominatingConds(b *ssa.BasicBlock) []CondFact {
	var out []CondFact
	fn := b.Parent()
	for _, blk := range fn.Blocks {
		if len(blk.Instrs) == 0 {
			continue
		}
		iff, ok := blk.Instrs[len(blk.Instrs)-1].(*ssa.If)
		if !ok {
			continue
		}
		if blk != b && !blk.Dominates(b) {
			continue
		}
		if edgeDominates(Edge{blk, blk.Succs[0]}, b) && blk != b {
			out = append(out, CondFact{iff.Cond, true, iff})
		} else if edgeDominates(Edge{blk, blk.Succs[1]}, b) && blk != b {
			out = append(out, CondFact{iff.Cond, false, iff})
		}
	}
	return out
}

// stripNot peels ! operators, flipping val.
func stripNot(c ssa.Value, val bool) (ssa.Value, bool) {
	for {
		u, ok := c.(*ssa.UnOp)
		if !ok || u.Op != token.NOT {
			return c, val
		}
		c = u.X
		val = !val
	}
}

func recvTypeName(fn *ssa.Function) string {
	if fn.Signature.Recv() == nil {
		return ""
	}
	return typeName(fn.Signature.Recv().Type())
}

func hasPrefixAny(s string, ps ...string) bool {
	for _, p := range ps {
		if strings.HasPrefix(s, p) {
			return true
		}
	}
	return false
}

var _ = types.Typ

// ---- range loops ----

// RangeLoop describes a lowered `for ... := range X` loop.
type RangeLoop struct {
	Header *ssa.BasicBlock
	Body   *ssa.BasicBlock
	Done   *ssa.BasicBlock
	Ranged ssa.Value // the slice/array/map/string value ranged over
	IsMap  bool
	Elem   []ssa.Value // values that denote "the current element" (IndexAddr / Extract of next)
}

// rangeLoops finds range loops in fn by structure (len-compare header or Range/Next).
func rangeLoops(fn *ssa.Function) []*RangeLoop {
	var out []*RangeLoop
	for _, b := range fn.Blocks {
		if len(b.Instrs) == 0 {
			continue
		}
		iff, ok := b.Instrs[len(b.Instrs)-1].(*ssa.If)
		if !ok {
			continue
		}
		// index form: if (phi+1) < len(X)
		if cmp, ok := iff.Cond.(*ssa.BinOp); ok && cmp.Op == token.LSS {
			if lc, ok := cmp.Y.(*ssa.Call); ok {
				if bi, ok := lc.Call.Value.(*ssa.Builtin); ok && bi.Name() == "len" {
					if inc, ok := cmp.X.(*ssa.BinOp); ok && inc.Op == token.ADD {
						if phi, ok := inc.X.(*ssa.Phi); ok && phi.Block() == b {
							l := &RangeLoop{Header: b, Body: b.Succs[0], Done: b.Succs[1], Ranged: lc.Call.Args[0]}
							// element addresses: IndexAddr(X, inc) / Index
							for _, r := range *inc.Referrers() {
								switch x := r.(type) {
								case *ssa.IndexAddr:
									l.Elem = append(l.Elem, x)
								case *ssa.Index:
									l.Elem = append(l.Elem, x)
								}
							}
							out = append(out, l)
						}
					}
				}
			}
		}
		// explicit index form: for i := 0; i < len(X); i++ { … X[i] … }
		if cmp, ok := iff.Cond.(*ssa.BinOp); ok && cmp.Op == token.LSS {
			if phi, ok := cmp.X.(*ssa.Phi); ok && phi.Block() == b && len(phi.Edges) == 2 {
				if lc, ok := cmp.Y.(*ssa.Call); ok {
					if bi, ok := lc.Call.Value.(*ssa.Builtin); ok && bi.Name() == "len" {
						fromZero, byOne := false, false
						for _, e := range phi.Edges {
							if isConstZero(e) {
								fromZero = true
							}
							if inc, isB := e.(*ssa.BinOp); isB && inc.Op == token.ADD && inc.X == ssa.Value(phi) {
								if k, isK := intConst(inc.Y); isK && k == 1 {
									byOne = true
								}
							}
						}
						if fromZero && byOne {
							l := &RangeLoop{Header: b, Body: b.Succs[0], Done: b.Succs[1], Ranged: lc.Call.Args[0]}
							for _, r := range *phi.Referrers() {
								switch x := r.(type) {
								case *ssa.IndexAddr:
									if x.Index == ssa.Value(phi) && sameIndexValue(x.X, l.Ranged) {
										l.Elem = append(l.Elem, x)
									}
								case *ssa.Index:
									if x.Index == ssa.Value(phi) && sameIndexValue(x.X, l.Ranged) {
										l.Elem = append(l.Elem, x)
									}
								}
							}
							out = append(out, l)
						}
					}
				}
			}
		}
		// map/string form: t = next(range X); if extract t #0
		if ex, ok := iff.Cond.(*ssa.Extract); ok && ex.Index == 0 {
			if nx, ok := ex.Tuple.(*ssa.Next); ok {
				if rg, ok := nx.Iter.(*ssa.Range); ok {
					l := &RangeLoop{Header: b, Body: b.Succs[0], Done: b.Succs[1], Ranged: rg.X, IsMap: true}
					for _, r := range *nx.Referrers() {
						if e2, ok := r.(*ssa.Extract); ok && e2.Index > 0 {
							l.Elem = append(l.Elem, e2)
						}
					}
					out = append(out, l)
				}
			}
		}
	}
	return out
}

// inLoop: block b belongs to the loop (dominated by body and can reach header).
func (l *RangeLoop) contains(b *ssa.BasicBlock) bool {
	if b == l.Header {
		return true
	}
	return (b == l.Body || l.Body.Dominates(b)) && (reaches(b, l.Header))
}

// everyIteration: instruction in executes on every iteration that reaches the back edge.
func (l *RangeLoop) everyIteration(in ssa.Instruction) bool {
	s := in.Block()
	if !(s == l.Body || l.Body.Dominates(s)) {
		return false
	}
	any := false
	for _, p := range l.Header.Preds {
		if p == l.Header || l.Header.Dominates(p) { // latch
			any = true
			if !(s == p || s.Dominates(p)) {
				return false
			}
		}
	}
	return any
}

// completedBefore: the loop has run to completion on every path reaching site
// (site is dominated by the header and is not inside the loop).
func (l *RangeLoop) completedBefore(site ssa.Instruction) bool {
	b := site.Block()
	if l.contains(b) && b != l.Header {
		return false
	}
	if b == l.Header {
		return false
	}
	return l.Header.Dominates(b)
}

// rangedMentions: the ranged value is (a load of) the given field.
func (l *RangeLoop) rangesOverField(field string) bool {
	return mentions(l.Ranged, func(v ssa.Value) bool { return isFieldRef(v, field) }, 4)
}

// derivesFromElem: v is computed from the loop's current element.
func (l *RangeLoop) derivesFromElem(v ssa.Value) bool {
	return mentions(v, func(x ssa.Value) bool {
		for _, e := range l.Elem {
			if x == e {
				return true
			}
		}
		return false
	}, 6)
}
