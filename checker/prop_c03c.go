package main

import "golang.org/x/tools/go/ssa"

// c03RecorderSites: the instructions that record a piece as complete (calls of the
// status recorder, or the persisting call itself when the recorder is inline);
// filled by C03.R1 and reused by C03.R8.
var c03RecorderSites []ssa.CallInstruction
