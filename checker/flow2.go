package main

import (
	"go/constant"
	"go/token"

	"golang.org/x/tools/go/ssa"
)

// regionByEdges returns the set of blocks reachable ONLY through CFG edges on
// which exemptEdge(cond, value) holds: a block is in the region if every
// incoming edge is either an exempt edge or comes from a block of the region
// (least fixpoint; the entry block is never in the region).
func regionByEdges(fn *ssa.Function, exemptEdge func(cond ssa.Value, val bool) bool) map[*ssa.BasicBlock]bool {
	ex := map[Edge]bool{}
	for _, b := range fn.Blocks {
		if len(b.Instrs) == 0 {
			continue
		}
		iff, ok := b.Instrs[len(b.Instrs)-1].(*ssa.If)
		if !ok || b.Succs[0] == b.Succs[1] {
			continue
		}
		if exemptEdge(iff.Cond, true) {
			ex[Edge{b, b.Succs[0]}] = true
		}
		if exemptEdge(iff.Cond, false) {
			ex[Edge{b, b.Succs[1]}] = true
		}
	}
	reg := map[*ssa.BasicBlock]bool{}
	for changed := true; changed; {
		changed = false
		for _, b := range fn.Blocks {
			if reg[b] || len(b.Preds) == 0 {
				continue
			}
			all := true
			for _, p := range b.Preds {
				if !ex[Edge{p, b}] && !reg[p] {
					all = false
					break
				}
			}
			if all {
				reg[b] = true
				changed = true
			}
		}
	}
	return reg
}

// mentionsField: the bounded backward slice of v contains a reference to field.
func mentionsField(v ssa.Value, field string) bool {
	return mentions(v, func(w ssa.Value) bool { return isFieldRef(w, field) }, 6)
}

// isPureLoadOf: v is exactly a load of the field (through conversions), with no
// arithmetic or other computation in between.
func isPureLoadOf(v ssa.Value, field string) bool {
	for i := 0; i < 6; i++ {
		switch x := v.(type) {
		case *ssa.Convert:
			v = x.X
		case *ssa.ChangeType:
			v = x.X
		case *ssa.UnOp:
			return x.Op == token.MUL && isFieldRef(x.X, field)
		case *ssa.Field:
			n, ok := fieldName(x)
			return ok && n == field
		default:
			return false
		}
	}
	return false
}

// mentionsCall: the bounded backward slice of v contains a call to one of names.
func mentionsCall(v ssa.Value, names ...string) bool {
	return mentions(v, func(w ssa.Value) bool { return isCallTo(w, names...) }, 6)
}

// instrsOf iterates all instructions of fn.
func instrsOf(fn *ssa.Function, f func(ssa.Instruction)) {
	for _, b := range fn.Blocks {
		for _, in := range b.Instrs {
			f(in)
		}
	}
}

// storesToField lists Store instructions whose address is the named field.
func storesToField(fn *ssa.Function, field string) []*ssa.Store {
	var out []*ssa.Store
	instrsOf(fn, func(in ssa.Instruction) {
		if st, ok := in.(*ssa.Store); ok {
			if fa, ok := st.Addr.(*ssa.FieldAddr); ok {
				if n, _ := fieldName(fa); n == field {
					out = append(out, st)
				}
			}
		}
	})
	return out
}

// callsInNamed lists the call sites in fn whose callee is one of names.
func callsInNamed(fn *ssa.Function, names ...string) []*CallSite {
	var out []*CallSite
	for _, cs := range callsIn(fn) {
		for _, n := range names {
			if cs.Callee == n {
				out = append(out, cs)
			}
		}
	}
	return out
}

// FactFn classifies a branch: +1 if taking the edge on which cond==val
// establishes the wanted fact, -1 if it establishes its negation, 0 if unrelated.
// cond has had leading negations stripped.
type FactFn func(cond ssa.Value, val bool) int

// guardedBy: instruction site executes only when the fact holds. Recognised forms:
// (a) an edge establishing the fact dominates the site (if/else, switch case);
// (b) early exit: an If that dominates the site has an edge establishing the
// negation whose target cannot reach the site (`if !fact { return }`).
func guardedBy(site ssa.Instruction, fact0 FactFn) bool {
	b := site.Block()
	// a condition that is a call to a small boolean helper of the same package is
	// looked through: the helper returning true (false) establishes whatever every
	// one of its paths returning that value establishes
	fact := func(cond ssa.Value, val bool) int {
		if r := fact0(cond, val); r != 0 {
			return r
		}
		if r := helperFact(b.Parent(), cond, val, fact0, 0); r != 0 {
			return r
		}
		// a boolean built with && / || and tested later (`known := ok && x == y; if !known {…}`)
		return phiFact(cond, val, fact0, 0)
	}
	for _, cf := range dominatingConds(b) {
		cond, val := stripNot(cf.Cond, cf.Val)
		if fact(cond, val) > 0 {
			return true
		}
	}
	for _, blk := range b.Parent().Blocks {
		if len(blk.Instrs) == 0 || !(blk == b || blk.Dominates(b)) {
			continue
		}
		iff, ok := blk.Instrs[len(blk.Instrs)-1].(*ssa.If)
		if !ok || blk == b {
			continue
		}
		for i, val := range []bool{true, false} {
			cond, v := stripNot(iff.Cond, val)
			if fact(cond, v) < 0 {
				neg := blk.Succs[i]
				pos := blk.Succs[1-i]
				if neg != b && !reaches(neg, b) && (pos == b || reaches(pos, b)) {
					return true
				}
			}
			// the same seen from the staying side: this edge establishes the fact and
			// the other edge cannot reach the site (needed when the leaving side only
			// says "not all of a && b", which refutes nothing by itself)
			if fact(cond, v) > 0 {
				stay := blk.Succs[i]
				leave := blk.Succs[1-i]
				if leave != b && !reaches(leave, b) && (stay == b || reaches(stay, b)) {
					return true
				}
			}
		}
	}
	return false
}

// intConst returns the integer value of a constant operand.
func intConst(v ssa.Value) (int64, bool) {
	k, ok := v.(*ssa.Const)
	if !ok || k.Value == nil || k.Value.Kind() != constant.Int {
		return 0, false
	}
	n, ok := constant.Int64Val(k.Value)
	return n, ok
}

// eqFact builds a FactFn for "X == Y" style comparisons: match(b) says whether
// the BinOp compares the wanted things; the fact is equality (want=true) or
// inequality (want=false).
func eqFact(match func(b *ssa.BinOp) bool, wantEqual bool) FactFn {
	return func(cond ssa.Value, val bool) int {
		b, ok := cond.(*ssa.BinOp)
		if !ok || (b.Op != token.EQL && b.Op != token.NEQ) || !match(b) {
			return 0
		}
		eq := (b.Op == token.EQL) == val // this edge means "equal"
		if eq == wantEqual {
			return 1
		}
		return -1
	}
}

// reachesExitAvoiding: some path from s reaches a function exit without entering b.
func reachesExitAvoiding(s, b *ssa.BasicBlock) bool {
	seen := map[*ssa.BasicBlock]bool{}
	st := []*ssa.BasicBlock{s}
	for len(st) > 0 {
		x := st[len(st)-1]
		st = st[:len(st)-1]
		if x == b || seen[x] {
			continue
		}
		seen[x] = true
		if len(x.Succs) == 0 {
			return true
		}
		st = append(st, x.Succs...)
	}
	return false
}

// controlConds returns the If instructions block b is control dependent on:
// b post-dominates one successor of the If but not the If itself.
func controlConds(b *ssa.BasicBlock) []*ssa.If {
	var out []*ssa.If
	for _, blk := range b.Parent().Blocks {
		if len(blk.Instrs) == 0 || blk == b {
			continue
		}
		iff, ok := blk.Instrs[len(blk.Instrs)-1].(*ssa.If)
		if !ok {
			continue
		}
		pd := func(s *ssa.BasicBlock) bool { // b post-dominates s
			return (s == b || reaches(s, b)) && !reachesExitAvoiding(s, b)
		}
		p0, p1 := pd(blk.Succs[0]), pd(blk.Succs[1])
		if p0 != p1 {
			out = append(out, iff)
		}
	}
	return out
}

// condTrueRegion: block b is dominated by an edge on which some condition
// satisfying pred has the given value (after stripping negations).
func condRegion(b *ssa.BasicBlock, pred func(cond ssa.Value, val bool) bool) bool {
	for _, cf := range dominatingConds(b) {
		cond, val := stripNot(cf.Cond, cf.Val)
		if pred(cond, val) {
			return true
		}
	}
	return false
}
