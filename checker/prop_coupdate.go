package main

import (
	"fmt"
	"os"

	"golang.org/x/tools/go/ssa"
)

// instrAfterOnPath: b occurs on p at or after the (first) occurrence of a.
func instrAfterOnPath(p Path, a, b ssa.Instruction) bool {
	ia := -1
	for i, blk := range p {
		if blk == a.Block() {
			ia = i
			break
		}
	}
	if ia < 0 {
		return false
	}
	for i := ia; i < len(p); i++ {
		if p[i] != b.Block() {
			continue
		}
		if i > ia {
			return true
		}
		// same block occurrence: order of instructions
		for _, in := range p[i].Instrs {
			if in == a {
				return true
			}
			if in == b {
				break
			}
		}
	}
	return false
}

// rulesLRUOrderCoupdate (C13.R7): LRUCache.entries (the key set) and
// LRUCache.lruOrder (their order) describe the same keys. A key removed from
// entries whose slot stays in lruOrder comes back at its OLD position when it is
// added again, so the next overflow drops a fresh key instead of the oldest.
func rulesLRUOrderCoupdate(c *Ctx, r *Report) {
	const tLRU = "utils/cache.LRUCache"
	r7 := r.Rule("R7", "E-COUPDATE(paths)", "in every LRUCache method, each path that deletes a key from entries also rewrites lruOrder afterwards, before returning (Clear replaces both)", 3)
	n := 0
	for _, fn := range c.FuncsIn("utils/cache") {
		if c.isFixture(fn) || recvTypeName(fn) != tLRU {
			continue
		}
		var dels []ssa.Instruction
		instrsOf(fn, func(in ssa.Instruction) {
			if isMapDeleteOn(in, tLRU+".entries") {
				dels = append(dels, in)
			}
		})
		if len(dels) == 0 {
			continue
		}
		orderStores := storesToField(fn, tLRU+".lruOrder")
		var searchLoops []*RangeLoop
		for _, l := range rangeLoops(fn) {
			if !l.rangesOverField(tLRU + ".lruOrder") {
				continue
			}
			for _, st := range orderStores {
				// in the body, or in a block the body leaves the loop through (break)
				if l.Body != nil && (st.Block() == l.Body || l.Body.Dominates(st.Block())) {
					searchLoops = append(searchLoops, l)
					break
				}
			}
		}
		// does fn rewrite the order at all (directly or through an always-storing helper)?
		rewrites := len(orderStores) > 0
		for _, cs := range callsIn(fn) {
			if sf := cs.Instr.Common().StaticCallee(); sf != nil && sf.Pkg == fn.Pkg && sf != fn && alwaysStoresField(sf, tLRU+".lruOrder") {
				rewrites = true
			}
		}
		for _, d := range dels {
			n++
			np, bad := 0, 0
			complete := forEachPath(fn, 20000, func(p Path) {
				if !p.hasInstr(d) {
					return
				}
				np++
				ok := false
				for _, st := range orderStores {
					if instrAfterOnPath(p, d, st) {
						ok = true
					}
				}
				// a search loop over lruOrder that rewrites the order at the match: the
				// path on which it runs to exhaustion without a match is excluded by the
				// very correspondence this rule maintains (the key was in entries)
				for _, l := range searchLoops {
					if len(l.Header.Instrs) > 0 && instrAfterOnPath(p, d, l.Header.Instrs[0]) {
						ok = true
					}
				}
				// the same through helpers of the type: a call that always rewrites the
				// order, or a search helper (ranges over the order, returns a position)
				// whose result decides a rewriting call
				for _, cs := range callsIn(fn) {
					sf := cs.Instr.Common().StaticCallee()
					if sf == nil || sf.Pkg != fn.Pkg || sf == fn || !instrAfterOnPath(p, d, cs.Instr) {
						continue
					}
					if alwaysStoresField(sf, tLRU+".lruOrder") {
						ok = true
					}
					if rewrites && isOrderSearchHelper(sf, tLRU+".lruOrder") {
						ok = true
					}
				}
				if !ok {
					bad++
				}
			})
			r.Check(complete && np > 0 && bad == 0, r7, fn, "delete(entries) ⇒ lruOrder rewritten", d, fmt.Sprintf("%d path(s), order updated on each", np),
				fmt.Sprintf("%d of %d paths remove a key from entries and leave its slot in lruOrder (complete=%v): when the key is added again it keeps its old position and a more recently added key is dropped first", bad, np, complete))
		}
	}
	if n == 0 {
		r.Unresolved(r7, "no delete from LRUCache.entries found")
	}
}

// rulesAccessTimeCoupdate (C10.R6): the in-memory last access time of a file map
// entry is the reference of the throttle that decides whether the ON-DISK last
// access time is rewritten, and cleanup reads the on-disk value. If the in-memory
// value moves without the disk value, a continuously used file looks idle.
func rulesAccessTimeCoupdate(c *Ctx, r *Report) {
	const pkg = "lib/store/base"
	const fLAT = pkg + ".fileEntryWithAccessTime.lastAccessTime"
	r6 := r.Rule("R6", "E-COUPDATE(paths)", "every store to fileEntryWithAccessTime.lastAccessTime with a fresh clock reading is followed on every path by SetMetadata(NewLastAccessTime(that value)); other stores take the value read from the sidecar (stores into an entry built in the same function are construction)", 1)
	n := 0
	for _, fn := range c.FuncsIn(pkg) {
		if c.isFixture(fn) {
			continue
		}
		for _, st := range storesToField(fn, fLAT) {
			if fa, ok := st.Addr.(*ssa.FieldAddr); ok {
				if _, fresh := fa.X.(*ssa.Alloc); fresh {
					continue // construction
				}
			}
			n++
			if os.Getenv("KVET_DEBUG") != "" {
				fmt.Fprintf(os.Stderr, "C10.R6 store in %s at %s\n", funcName(fn), c.posStr(st.Pos()))
			}
			// value loaded from the sidecar (GetMetadata result) is the disk value itself
			if mentionsCall(st.Val, "(lib/store/base.FileEntry).GetMetadata") || mentionsField(st.Val, "lib/store/metadata.LastAccessTime.Time") {
				r.OK(r6, fn, "store lastAccessTime", st, true, "value read back from the sidecar")
				continue
			}
			var sets []ssa.Instruction
			for _, cs := range callsInNamed(fn, "(lib/store/base.FileEntry).SetMetadata") {
				arg := cs.Instr.Common().Args[0]
				if mentions(arg, func(v ssa.Value) bool {
					cl, ok := v.(*ssa.Call)
					return ok && calleeName(cl.Common()) == "lib/store/metadata.NewLastAccessTime" && cl.Call.Args[0] == st.Val
				}, 5) {
					sets = append(sets, cs.Instr)
				}
			}
			np, bad := 0, 0
			complete := forEachPath(fn, 20000, func(p Path) {
				if !p.hasInstr(st) {
					return
				}
				np++
				ok := false
				for _, s := range sets {
					if instrAfterOnPath(p, st, s) {
						ok = true
					}
				}
				if !ok {
					bad++
				}
			})
			r.Check(complete && np > 0 && bad == 0, r6, fn, "store lastAccessTime", st, fmt.Sprintf("%d path(s), sidecar written with the same value", np),
				fmt.Sprintf("%d of %d paths advance the in-memory last access time without writing the same value to the sidecar: the throttle then compares against a time the disk never saw, so a file read continuously keeps a stale on-disk access time and cleanup removes it as idle", bad, np))
		}
	}
	if n == 0 {
		r.Unresolved(r6, "no store to lastAccessTime found")
	}
}
