package main

import (
	"fmt"
	"go/token"
	"strings"

	"golang.org/x/tools/go/ssa"
)

func init() { register("C01", checkC01) }

const (
	tCAStore  = "lib/store.CAStore"
	fnVerify  = "(*lib/store.CAStore).verify"
	fnMemAdd  = "(*utils/cache.BlobMemoryCache).Add"
	tMemEntry = "utils/cache.MemoryEntry"
)

// nameRoot normalises a value that denotes a blob name: d.Hex() → d;
// NewSHA256DigestFromHex(x) result → x; e.Name field load → "entry e"; conversions
// and loads of single-store locals are looked through.
func nameRoot(v ssa.Value) ssa.Value {
	for i := 0; i < 12; i++ {
		switch x := v.(type) {
		case *ssa.Call:
			n := calleeName(x.Common())
			switch {
			case n == "(core.Digest).Hex" || n == "(core.Digest).String":
				v = x.Call.Args[0]
				continue
			case n == "core.NewSHA256DigestFromHex" || n == "core.ParseSHA256Digest":
				v = x.Call.Args[0]
				continue
			}
			return v
		case *ssa.Extract:
			if c, ok := x.Tuple.(*ssa.Call); ok && x.Index == 0 {
				v = c
				continue
			}
			return v
		case *ssa.UnOp:
			if x.Op == token.MUL {
				if al, ok := x.X.(*ssa.Alloc); ok {
					var st *ssa.Store
					n := 0
					for _, r := range *al.Referrers() {
						if s, ok := r.(*ssa.Store); ok && s.Addr == al {
							st = s
							n++
						}
					}
					if n == 1 {
						v = st.Val
						continue
					}
				}
				if fa, ok := x.X.(*ssa.FieldAddr); ok {
					if fn, _ := fieldName(fa); fn == tMemEntry+".Name" {
						v = fa.X // the entry object stands for its name
						continue
					}
				}
			}
			return v
		case *ssa.ChangeType:
			v = x.X
		case *ssa.MakeInterface:
			v = x.X
		default:
			return v
		}
	}
	return v
}

func sameName(a, b ssa.Value) bool { return nameRoot(a) == nameRoot(b) }

// entryFieldStores: for a composite literal &MemoryEntry{...} (alloc), the value stored in field f.
func entryFieldStore(al ssa.Value, field string) ssa.Value {
	refs := al.Referrers()
	if refs == nil {
		return nil
	}
	for _, r := range *refs {
		if fa, ok := r.(*ssa.FieldAddr); ok {
			if n, _ := fieldName(fa); n == field {
				for _, r2 := range *fa.Referrers() {
					if st, ok := r2.(*ssa.Store); ok && st.Addr == fa {
						return st.Val
					}
				}
			}
		}
	}
	return nil
}

func checkC01(c *Ctx, r *Report) {
	r.Explain = "Content-addressed publication discipline of the origin/proxy store: (R1) every publication of digest-named content — the rename of an upload file into the cache state by a CAStore method, and every BlobMemoryCache.Add — lies in the success region of a digest verification of the SAME bytes under the SAME name; no CAStore method creates or opens for writing a file in the cache state; (R2) the verification returns nil only after the computed digest compared equal to the digest parsed from the name, or under the explicit SkipHashVerification switch; (R3) memory entries are immutable after construction; (R4) every stored torrent metainfo was computed from the content and the digest of the same name; (R5) the read overrides serve memory entries obtained only from the cache's Get."
	r.NotDecided = "That SHA-256 and io are computed correctly; corruption of files after commit; behaviour under SkipHashVerification=true (documented escape hatch)."
	r.Assump = append(r.Assump, "CAStoreConfig.SkipHashVerification is false in deployments that rely on this property")

	// R1a
	r1 := r.Rule("R1", "E-ORDER/ok+identity", "publication (MoveFileFrom into the cache state; BlobMemoryCache.Add) only in the success region of CAStore.verify applied to the same bytes and the same name; CAStore has no other way to put a file into the cache state", 2)
	creators := map[string]bool{"MoveFileFrom": true, "MoveFile": true, "CreateFile": true, "GetFileReadWriter": true, "LinkFileTo": true}
	for _, fn := range c.FuncsIn(pkgStore) {
		if c.isFixture(fn) || recvTypeName(topFunc(fn)) != tCAStore {
			continue
		}
		for _, cs := range callsIn(fn) {
			if !strings.HasPrefix(cs.Callee, "(lib/store/base.FileOp).") || !creators[lastSeg(cs.Callee)] {
				continue
			}
			// op derived from the cache store?
			onCache := mentions(cs.Instr.Common().Value, func(v ssa.Value) bool {
				return isFieldRef(v, tCAStore+".cacheStore") || isCallTo(v, "(*lib/store.cacheStore).newFileOp")
			}, 6)
			if !onCache {
				continue
			}
			if lastSeg(cs.Callee) != "MoveFileFrom" {
				r.Bad(r1, fn, "cache-state "+lastSeg(cs.Callee), cs.Instr, "a CAStore method creates/opens a file for writing directly in the cache state, bypassing upload+verify+rename")
				continue
			}
			args := cs.Instr.Common().Args // name, state, sourcePath
			ok, why := false, "no verify call dominates"
			for _, vf := range callsInNamed(fn, fnVerify) {
				if !inSuccessRegion(vf.Instr, cs.Instr) {
					continue
				}
				vargs := vf.Instr.Common().Args // recv, reader, name
				if !sameName(vargs[2], args[0]) {
					why = "verify is applied to another name than the one committed"
					continue
				}
				// reader from GetFileReader(u), source path from GetFilePath(u), same u
				var ru, pu ssa.Value
				mentions(vargs[1], func(v ssa.Value) bool {
					if cl, isC := v.(*ssa.Call); isC && lastSeg(calleeName(cl.Common())) == "GetFileReader" {
						ru = cl.Call.Args[0]
						return true
					}
					return false
				}, 6)
				mentions(args[2], func(v ssa.Value) bool {
					if cl, isC := v.(*ssa.Call); isC && lastSeg(calleeName(cl.Common())) == "GetFilePath" {
						pu = cl.Call.Args[0]
						return true
					}
					return false
				}, 6)
				if ru == nil || pu == nil || !sameName(ru, pu) {
					why = "the verified reader and the renamed path are not derived from the same upload file"
					continue
				}
				ok = true
			}
			r.Check(ok, r1, fn, "MoveFileFrom(cache)", cs.Instr, "verified same file, same name", "an upload file is renamed into the cache without a successful digest verification of that file under that name: "+why)
		}
	}
	// R1b
	nAdd := 0
	for _, cs := range c.CallsTo(fnMemAdd) {
		fn := cs.Caller
		if c.isFixture(fn) {
			continue
		}
		nAdd++
		entry := cs.Instr.Common().Args[1]
		data := entryFieldStore(entry, tMemEntry+".Data")
		name := entryFieldStore(entry, tMemEntry+".Name")
		mi := entryFieldStore(entry, tMemEntry+".MetaInfo")
		if data == nil || name == nil {
			r.Undecided(r1, fn, "BlobMemoryCache.Add", cs.Instr, "the entry is not a composite literal built in this function")
			continue
		}
		ok, why := false, "no verify call dominates"
		for _, vf := range callsInNamed(fn, fnVerify) {
			if !inSuccessRegion(vf.Instr, cs.Instr) {
				continue
			}
			vargs := vf.Instr.Common().Args
			if !sameName(vargs[2], name) {
				why = "verify is applied to another name"
				continue
			}
			if !mentions(vargs[1], func(v ssa.Value) bool { return v == data }, 6) {
				why = "verify reads other bytes than the ones published"
				continue
			}
			ok = true
		}
		if !ok {
			// the bytes come from a helper that returns them only after verifying them
			// under the name it was given ("verified-bytes wrapper")
			if ex, isEx := data.(*ssa.Extract); isEx {
				if wc, isC := ex.Tuple.(*ssa.Call); isC {
					w := wc.Common().StaticCallee()
					if w != nil && w.Pkg == fn.Pkg && len(w.Blocks) > 0 && inSuccessRegion(wc, cs.Instr) {
						// which parameter of w receives the name?
						all, n := true, 0
						for _, ret := range returnsOf(w) {
							if classifyReturn(ret) == RetFailure || ex.Index >= len(ret.Results) {
								continue
							}
							n++
							d := unspill(ret.Results[ex.Index])
							verified := false
							for _, vf := range callsInNamed(w, fnVerify) {
								va := vf.Instr.Common().Args
								if !inSuccessRegion(vf.Instr, ret) || !mentions(va[1], func(v ssa.Value) bool { return v == d }, 6) {
									continue
								}
								for i, prm := range w.Params {
									if va[2] == ssa.Value(prm) && i < len(wc.Common().Args) && sameName(wc.Common().Args[i], name) {
										verified = true
									}
								}
							}
							if !verified {
								all = false
							}
						}
						if all && n > 0 {
							ok = true
						}
					}
				}
			}
		}
		r.Check(ok, r1, fn, "BlobMemoryCache.Add", cs.Instr, "verified same bytes, same name", "bytes are published in the memory cache (served to readers before the drain) without a successful digest verification: "+why)
		// metainfo of the entry computed from the same name and bytes
		r4 := r.Rule("R4", "E-ORDER+identity", "every torrent metainfo stored or published for a name was computed by core.NewMetaInfo* from the content and the digest of that same name (or is the metainfo of the memory entry being drained)", 4)
		okm := false
		if mi != nil {
			mentions(mi, func(v ssa.Value) bool {
				cl, isC := v.(*ssa.Call)
				if !isC {
					return false
				}
				switch calleeName(cl.Common()) {
				case "(*lib/store.CAStore).generateMetadataFromBytes":
					if sameName(cl.Call.Args[1], name) && cl.Call.Args[2] == data {
						okm = true
					}
				case "core.NewMetaInfoFromBytes":
					if sameName(cl.Call.Args[0], name) && cl.Call.Args[1] == data {
						okm = true
					}
				}
				return false
			}, 6)
		}
		r.Check(okm, r4, fn, "entry.MetaInfo", cs.Instr, "metainfo from same name and bytes", "the metainfo published with a memory entry is not computed from that entry's name and bytes")
	}
	if nAdd == 0 {
		r.Unresolved(r1, "no call of BlobMemoryCache.Add")
	}

	// R2: verify effective
	r2 := r.Rule("R2", "E-PAIR(paths)", "every nil-returning path of CAStore.verify parsed the expected digest from the name and either compared the computed digest equal to it after a successful FromReader, or took the SkipHashVerification branch", 1)
	if vf := r.MustFunc(r2, fnVerify); vf != nil {
		n, bad := 0, 0
		complete := forEachPath(vf, 5000, func(p Path) {
			ret := p.ret()
			if ret == nil || classifyReturn(ret) != RetSuccess {
				return
			}
			n++
			parsed := false
			for _, cs := range callsInNamed(vf, "core.NewSHA256DigestFromHex") {
				if p.succeeded(cs.Instr) && cs.Instr.Common().Args[0] == vf.Params[2] {
					parsed = true
				}
			}
			skipped, compared := false, false
			instrsOf(vf, func(in ssa.Instruction) {
				iff, ok := in.(*ssa.If)
				if !ok {
					return
				}
				cond, val := stripNot(iff.Cond, true)
				if mentionsField(cond, "lib/store.CAStoreConfig.SkipHashVerification") {
					for _, e := range condEdges(cond, val) { // cond true => skipping
						if p.hasEdge(e) {
							skipped = true
						}
					}
				}
				if b, isB := cond.(*ssa.BinOp); isB && (b.Op == token.NEQ || b.Op == token.EQL) &&
					mentionsCall(b.X, "(*core.Digester).FromReader", "(core.Digester).FromReader") && mentionsCall(b.Y, "core.NewSHA256DigestFromHex") ||
					isB && (b.Op == token.NEQ || b.Op == token.EQL) && mentionsCall(b.Y, "(*core.Digester).FromReader", "(core.Digester).FromReader") && mentionsCall(b.X, "core.NewSHA256DigestFromHex") {
					for _, e := range condEdges(b, b.Op == token.EQL) {
						if p.hasEdge(e) {
							for _, fr := range callsIn(vf) {
								if strings.HasSuffix(fr.Callee, "Digester).FromReader") && p.succeeded(fr.Instr) && fr.Instr.Common().Args[1] == vf.Params[1] {
									compared = true
								}
							}
						}
					}
				}
			})
			if !(parsed && (skipped || compared)) {
				bad++
			}
		})
		r.Check(complete && n > 0 && bad == 0, r2, vf, "nil-return paths", nil, fmt.Sprintf("%d paths", n), fmt.Sprintf("%d of %d nil-returning paths of verify neither compared the computed digest of the reader with the digest parsed from the name nor took the configured skip", bad, n))
	}

	// R3: memory entries immutable
	r3 := r.Rule("R3", "E-OWN", "fields Data/MetaInfo/Name of cache.MemoryEntry are stored only while the entry is being constructed (fresh allocation in the same function)", 1)
	nst := 0
	for _, fn := range c.Funcs {
		if c.isFixture(fn) {
			continue
		}
		for _, f := range []string{".Data", ".MetaInfo", ".Name"} {
			for _, st := range storesToField(fn, tMemEntry+f) {
				nst++
				fa := st.Addr.(*ssa.FieldAddr)
				_, fresh := fa.X.(*ssa.Alloc)
				r.Check(fresh, r3, fn, "store MemoryEntry"+f, st, "construction", "a published memory entry's "+f[1:]+" is overwritten after construction: readers can be served bytes that were never verified")
			}
		}
	}
	if nst == 0 {
		r.Unresolved(r3, "no construction of cache.MemoryEntry found")
	}
	// R3b: the published byte slice is only ever read. Readers are handed slices
	// that alias entry.Data, so recycling or writing the backing array changes what
	// an open reader returns under the digest.
	r3b := r.Rule("R3b", "E-OWN(flow)", "a value loaded from MemoryEntry.Data flows only into read-only uses (len, slicing, range, io.Writer.Write argument, reader constructors, copy source); it is never a copy/append destination, never stored elsewhere and never handed to a pool", 2)
	readOnlyCallees := map[string]bool{
		"lib/store.NewBufferFileReader": true, "bytes.NewReader": true, "bytes.NewBuffer": false,
		"(lib/store.FileReadWriter).Write": true, "(io.Writer).Write": true, "(lib/store/base.FileReadWriter).Write": true,
		"builtin.len": true, "builtin.cap": true,
	}
	nld := 0
	for _, fn := range c.Funcs {
		if c.isFixture(fn) {
			continue
		}
		instrsOf(fn, func(in ssa.Instruction) {
			ld, ok := in.(*ssa.UnOp)
			if !ok || ld.Op != token.MUL || !isFieldRef(ld.X, tMemEntry+".Data") {
				return
			}
			nld++
			// follow slices of the loaded value
			vals := []ssa.Value{ld}
			for i := 0; i < len(vals); i++ {
				for _, rf := range *vals[i].Referrers() {
					switch x := rf.(type) {
					case *ssa.Slice:
						vals = append(vals, x)
					case *ssa.DebugRef, *ssa.IndexAddr, *ssa.Range:
						// element reads; IndexAddr stores are checked below
						if ia, isIA := x.(*ssa.IndexAddr); isIA {
							for _, r2 := range *ia.Referrers() {
								if st, isSt := r2.(*ssa.Store); isSt && st.Addr == ia {
									r.Bad(r3b, fn, "write through entry.Data", st, "an element of a published memory entry's data is overwritten")
								}
							}
						}
					case ssa.CallInstruction:
						cn := calleeName(x.Common())
						if cn == "builtin.copy" {
							if x.Common().Args[0] == vals[i] {
								r.Bad(r3b, fn, "copy into entry.Data", x, "a published memory entry's data is the destination of a copy")
							} else {
								r.OK(r3b, fn, "copy from entry.Data", x, true, "read-only")
							}
							continue
						}
						if readOnlyCallees[cn] {
							r.OK(r3b, fn, "entry.Data → "+cn, x, true, "read-only use")
							continue
						}
						r.Bad(r3b, fn, "entry.Data → "+cn, x, "the byte slice of a published memory entry is passed to "+cn+", which is not a known read-only use: readers alias this array, so retaining/recycling/writing it changes bytes served under the digest")
					case *ssa.Store:
						if x.Val == vals[i] {
							r.Bad(r3b, fn, "entry.Data stored elsewhere", x, "the byte slice of a published memory entry is stored into another location (aliasing)")
						}
					case *ssa.Return:
						if fn.Name() != "Bytes" {
							r.OK(r3b, fn, "entry.Data returned", x, false, "returned to caller")
						}
					case *ssa.MakeInterface:
						vals = append(vals, x)
					case *ssa.ChangeType:
						vals = append(vals, x)
					case *ssa.Phi:
						if len(vals) < 32 {
							vals = append(vals, x)
						}
					case *ssa.BinOp:
					default:
						_ = x
					}
				}
			}
		})
	}
	if nld == 0 {
		r.Unresolved(r3b, "no load of MemoryEntry.Data found")
	}

	// R4: SetCacheFileMetadata(TorrentMeta)
	r4 := r.Rule("R4", "E-ORDER+identity", "every torrent metainfo stored or published for a name was computed by core.NewMetaInfo* from the content and the digest of that same name (or is the metainfo of the memory entry being drained)", 4)
	for _, cs := range c.CallsTo("lib/store/metadata.NewTorrentMeta") {
		fn := cs.Caller
		if c.isFixture(fn) || pkgOf(fn) == "lib/store/metadata" {
			continue
		}
		tm := cs.Instr.Value()
		// where is it stored?
		var set *CallSite
		for _, s2 := range callsIn(fn) {
			if strings.HasSuffix(s2.Callee, "SetCacheFileMetadata") {
				a := s2.Instr.Common().Args
				if mentions(a[len(a)-1], func(v ssa.Value) bool { return v == tm }, 4) {
					set = s2
				}
			}
		}
		if set == nil {
			// not stored by this function: fine (e.g. serialisation for a response)
			continue
		}
		sa := set.Instr.Common().Args
		nameArg := sa[len(sa)-2]
		mi := cs.Instr.Common().Args[0]
		ok, why := false, "metainfo is not produced by core.NewMetaInfo* in this function"
		mentions(mi, func(v ssa.Value) bool {
			switch x := v.(type) {
			case *ssa.Call:
				switch calleeName(x.Common()) {
				case "core.NewMetaInfo":
					d, rd := x.Call.Args[0], x.Call.Args[1]
					if !sameName(d, nameArg) {
						why = "metainfo digest and the name it is stored under differ"
						return false
					}
					rdOK := mentions(rd, func(w ssa.Value) bool {
						if cl, isC := w.(*ssa.Call); isC && lastSeg(calleeName(cl.Common())) == "GetCacheFileReader" {
							a := cl.Call.Args
							return sameName(a[len(a)-1], nameArg)
						}
						return false
					}, 6)
					if !rdOK {
						why = "metainfo content reader is not the cache file of the same name"
						return false
					}
					ok = true
				case "core.NewMetaInfoFromBytes":
					ok = sameName(x.Call.Args[0], nameArg)
				}
			case *ssa.UnOp:
				if fa, isFA := x.X.(*ssa.FieldAddr); isFA && x.Op == token.MUL {
					if n, _ := fieldName(fa); n == tMemEntry+".MetaInfo" && nameRoot(nameArg) == nameRoot(fa.X) {
						ok = true // drain: entry.MetaInfo stored under entry.Name
					}
				}
			}
			return false
		}, 6)
		r.Check(ok, r4, fn, "SetCacheFileMetadata(TorrentMeta)", set.Instr, "computed from same name and content", "torrent metainfo is stored under a name whose content/digest it was not computed from: "+why)
	}

	// R5: read overrides
	r5 := r.Rule("R5", "flow", "CAStore read overrides return memory data only from an entry returned by memCache.Get(name) for the requested name", 3)
	for _, m := range []string{"GetCacheFileReader", "GetCacheFileMetadata", "GetCacheFileStat"} {
		fn := r.MustFunc(r5, "(*"+tCAStore+")."+m)
		if fn == nil {
			continue
		}
		// sources: memCache.Get(name), or a helper of the package that only returns
		// nil or memCache.Get of one of its own parameters (called with name there)
		var srcs []ssa.Value
		ok := true
		for _, cs := range callsIn(fn) {
			cc := cs.Instr.Common()
			if cs.Callee == "(*utils/cache.BlobMemoryCache).Get" {
				if cc.Args[1] != fn.Params[1] {
					ok = false
				}
				srcs = append(srcs, cs.Instr.Value())
				continue
			}
			sf := cc.StaticCallee()
			if sf == nil || sf.Pkg != fn.Pkg {
				continue
			}
			if pi := memGetLike(sf); pi >= 0 {
				if pi >= len(cc.Args) || cc.Args[pi] != fn.Params[1] {
					ok = false
				}
				srcs = append(srcs, cs.Instr.Value())
			}
		}
		if len(srcs) == 0 {
			ok = false
		}
		fromSrc := func(v ssa.Value) bool {
			return mentions(v, func(w ssa.Value) bool {
				for _, s := range srcs {
					if w == s {
						return true
					}
				}
				return false
			}, 6)
		}
		// any MemoryEntry field load must derive from a source
		instrsOf(fn, func(in ssa.Instruction) {
			if fa, isFA := in.(*ssa.FieldAddr); isFA {
				if n, _ := fieldName(fa); strings.HasPrefix(n, tMemEntry+".") {
					if !fromSrc(fa.X) {
						ok = false
					}
				}
			}
		})
		r.Check(ok, r5, fn, "memory read", nil, "entry from Get(name)", "a read override serves memory data that does not come from memCache.Get of the requested name")
	}
}

// memGetLike: fn returns, on every path, nil or the result of
// BlobMemoryCache.Get applied to one of fn's own parameters; returns that
// parameter's index (in Params, receiver included) or -1.
func memGetLike(fn *ssa.Function) int {
	idx := -1
	for _, ret := range returnsOf(fn) {
		if len(ret.Results) != 1 {
			return -1
		}
		v := unspill(ret.Results[0])
		if isNilConst(v) {
			continue
		}
		cl, ok := v.(*ssa.Call)
		if !ok || calleeName(cl.Common()) != "(*utils/cache.BlobMemoryCache).Get" {
			return -1
		}
		p, isP := cl.Call.Args[1].(*ssa.Parameter)
		if !isP {
			return -1
		}
		for i, q := range fn.Params {
			if q == p {
				if idx >= 0 && idx != i {
					return -1
				}
				idx = i
			}
		}
	}
	return idx
}
