package main

import (
	"fmt"

	"golang.org/x/tools/go/ssa"
)

func init() {
	register("C32", checkC32)
	register("C33", checkC33)
}

const (
	pkgTagSrv   = "build-index/tagserver"
	pkgTagStore = "build-index/tagstore"
)

// depLoopBefore: site is reached only after a range loop over `deps` in which, on
// every iteration, the call named callee is made with the loop element and any
// non-nil error leaves the function (so the loop completes only if all succeeded).
func depLoopBefore(fn *ssa.Function, site ssa.Instruction, ranged func(ssa.Value) bool, callee string, argIdx int) (bool, string) {
	for _, l := range rangeLoops(fn) {
		if !ranged(l.Ranged) || !l.completedBefore(site) {
			continue
		}
		for _, cs := range callsInNamed(fn, callee) {
			if !l.contains(cs.Instr.Block()) || !l.everyIteration(cs.Instr) {
				continue
			}
			if argIdx >= len(cs.Instr.Common().Args) || !l.derivesFromElem(cs.Instr.Common().Args[argIdx]) {
				continue
			}
			// every non-nil edge of the error must leave without reaching the site or the loop header
			leaks := false
			errs := errResults(cs.Instr)
			if len(errs) == 0 {
				return false, "the per-dependency call returns no error"
			}
			tested := false
			for _, e0 := range errs {
				for _, e := range errAliases(e0) {
					for _, ed := range nilEdges(e, false) {
						tested = true
						if reachesPathSensitive(ed, site.Block(), e) || reachesPathSensitive(ed, l.Header, e) {
							leaks = true
						}
					}
					// comparisons with sentinel errors: err == ErrX ... else if err != nil
					for _, rf := range *e.Referrers() {
						if b, ok := rf.(*ssa.BinOp); ok && !isNilConst(b.X) && !isNilConst(b.Y) {
							tested = true
						}
					}
				}
			}
			if !tested {
				return false, "the error of the per-dependency call is not tested"
			}
			if leaks {
				return false, "a failed per-dependency call can continue to the next dependency or to the store"
			}
			return true, "all dependencies checked, any failure returns"
		}
	}
	// the loop extracted into a helper of the package: the site lies in the success
	// region of a call to a function whose every success return follows such a loop
	if fn.Parent() == nil {
		for _, hc := range callsIn(fn) {
			h := hc.Instr.Common().StaticCallee()
			if h == nil || h.Pkg != fn.Pkg || h == fn || len(h.Blocks) == 0 || len(callsInNamed(h, callee)) == 0 || !inSuccessRegion(hc.Instr, site) {
				continue
			}
			all, n := true, 0
			for _, ret := range returnsOf(h) {
				if classifyReturn(ret) == RetFailure {
					continue
				}
				n++
				if ok, _ := depLoopBefore(h, ret, ranged, callee, argIdx); !ok {
					all = false
				}
			}
			if all && n > 0 {
				return true, "dependency loop in " + funcName(h) + ", site in its success region"
			}
		}
	}
	return false, "no completed loop over the dependencies performing the check precedes it"
}

// reachesPathSensitive: from the non-nil edge ed of error e, can control reach
// target? Branches comparing e with a sentinel (e == ErrX) do not help — both
// sides are explored — but later nil tests of e take only the non-nil side.
func reachesPathSensitive(ed Edge, target *ssa.BasicBlock, e ssa.Value) bool {
	aliases := map[ssa.Value]bool{}
	for _, a := range errAliases(e) {
		aliases[a] = true
	}
	seen := map[*ssa.BasicBlock]bool{}
	st := []*ssa.BasicBlock{ed.To}
	for len(st) > 0 {
		b := st[len(st)-1]
		st = st[:len(st)-1]
		if seen[b] {
			continue
		}
		seen[b] = true
		if b == target {
			return true
		}
		if len(b.Instrs) > 0 {
			if iff, ok := b.Instrs[len(b.Instrs)-1].(*ssa.If); ok {
				cond, pol := stripNot(iff.Cond, true)
				if bo, isB := cond.(*ssa.BinOp); isB && (aliases[bo.X] && isNilConst(bo.Y) || aliases[bo.Y] && isNilConst(bo.X)) {
					nonNilTrue := (bo.Op.String() == "!=") == pol
					if nonNilTrue {
						st = append(st, b.Succs[0])
					} else {
						st = append(st, b.Succs[1])
					}
					continue
				}
			}
		}
		st = append(st, b.Succs...)
	}
	return false
}

func checkC32(c *Ctx, r *Report) {
	r.Explain = "Tag put discipline of the build-index: (R1) the store Put of the public path is dominated by a completed loop over the tag's dependencies that Stats each one in the origin cluster and returns on any error, and the handler acknowledges only after putTag succeeded (tabled exception: the internal duplicate endpoint used by replicas); (R2) tagStore.Put writes the tag file, then sets the persist flag, then hands the write-back task to the configured strategy, each step in the success region of the previous one, and the strategy is assigned on both configuration branches with write-through = SyncExec; (R3) tag files are created only through the create-only CreateCacheFile (an existing file is tolerated, never overwritten), which is the structural basis of 'tags do not change once stored on a node'; (R4) resolution consults the disk before the backend."
	r.NotDecided = "That the backend eventually holds the digest (liveness; rests on C30); equality of digests across build-index replicas."
	r1 := r.Rule("R1", "E-ORDER/loop", "every Store.Put in the tag server is dominated by a completed dependency loop (ClusterClient.Stat per dependency, any error returns), except in the internal duplicate handler; the public handler returns success only after putTag returned nil", 2)
	for _, cs := range c.CallsTo("(" + pkgTagStore + ".Store).Put") {
		fn := cs.Caller
		if c.isFixture(fn) || pkgOf(fn) != pkgTagSrv {
			continue
		}
		if funcName(fn) == "(*"+pkgTagSrv+".Server).duplicatePutTagHandler" {
			r.OK(r1, fn, "Store.Put (internal duplicate)", cs.Instr, false, "tabled exception: replica endpoint, dependencies were checked by the sending build-index")
			continue
		}
		ok, why := depLoopBefore(fn, cs.Instr, func(v ssa.Value) bool {
			_, isP := v.(*ssa.Parameter)
			return isP && typeName(v.Type()) == "core.DigestList" || mentions(v, func(w ssa.Value) bool { p, isP := w.(*ssa.Parameter); return isP && typeName(p.Type()) == "core.DigestList" }, 3)
		}, "(origin/blobclient.ClusterClient).Stat", 1)
		if !ok {
			// the dependency loop extracted into a helper of the server: Put must lie in
			// the success region of a call that hands the dependencies to a function
			// whose every success return follows such a completed loop
			isDeps := func(v ssa.Value) bool {
				p, isP := v.(*ssa.Parameter)
				return isP && typeName(p.Type()) == "core.DigestList"
			}
			for _, hc := range callsIn(fn) {
				sf := hc.Instr.Common().StaticCallee()
				if sf == nil || sf.Pkg != fn.Pkg || len(sf.Blocks) == 0 || !inSuccessRegion(hc.Instr, cs.Instr) {
					continue
				}
				passes := false
				for _, a := range hc.Instr.Common().Args {
					if isDeps(a) {
						passes = true
					}
				}
				if !passes {
					continue
				}
				all, n := true, 0
				for _, ret := range returnsOf(sf) {
					if classifyReturn(ret) == RetFailure {
						continue
					}
					n++
					if okh, _ := depLoopBefore(sf, ret, func(v ssa.Value) bool {
						return isDeps(v) || mentions(v, isDeps, 3)
					}, "(origin/blobclient.ClusterClient).Stat", 1); !okh {
						all = false
					}
				}
				if all && n > 0 {
					ok, why = true, "dependency loop in "+funcName(sf)+", Put in its success region"
				}
			}
		}
		r.Check(ok, r1, fn, "Store.Put after dependency check", cs.Instr, why, "a tag is stored although not every dependency blob was confirmed present in the origin cluster: "+why)
	}
	if h := r.MustFunc(r1, "(*"+pkgTagSrv+".Server).putTagHandler"); h != nil {
		pts := callsInNamed(h, "(*"+pkgTagSrv+".Server).putTag")
		okh := len(pts) == 1
		for _, ret := range returnsOf(h) {
			if classifyReturn(ret) == RetFailure {
				continue
			}
			if !okh || !inSuccessRegion(pts[0].Instr, ret) {
				okh = false
			}
		}
		// deps passed to putTag are the resolver's
		if okh {
			a := pts[0].Instr.Common().Args
			okh = mentionsCall(a[len(a)-1], "("+pkgTagSrv+"/../tagtype.DependencyResolver).Resolve") || mentions(a[len(a)-1], func(v ssa.Value) bool {
				cl, isC := v.(*ssa.Call)
				return isC && lastSeg(calleeName(cl.Common())) == "Resolve"
			}, 4)
		}
		r.Check(okh, r1, h, "acknowledge after putTag", nil, "success only after putTag(deps from the resolver) returned nil", "the tag PUT is acknowledged on a path where putTag did not succeed, or with dependencies that do not come from the dependency resolver")
	}

	r2 := r.Rule("R2", "E-ORDER/ok", "tagStore.Put: disk write → persist flag (NewPersist(true)) → write-back strategy, each in the success region of the previous; the strategy field is assigned on both configuration branches and the write-through one calls SyncExec", 2)
	inlineStrategy := false
	if put := r.MustFunc(r2, "(*"+pkgTagStore+".tagStore).Put"); put != nil {
		wr := callsInNamed(put, "(*"+pkgTagStore+".tagStore).writeTagToDisk")
		var sets []*CallSite
		for _, cs := range callsIn(put) {
			if lastSeg(cs.Callee) == "SetCacheFileMetadata" && mentionsCall(cs.Instr.Common().Args[len(cs.Instr.Common().Args)-1], "lib/store/metadata.NewPersist") {
				sets = append(sets, cs)
			}
		}
		// strategy call: call through the function-valued field
		var strat []ssa.CallInstruction
		instrsOf(put, func(in ssa.Instruction) {
			if ci, ok := in.(ssa.CallInstruction); ok && ci.Common().StaticCallee() == nil && !ci.Common().IsInvoke() && mentionsField(ci.Common().Value, pkgTagStore+".tagStore.writeBackStrategy") {
				strat = append(strat, ci)
			}
		})
		if len(wr) == 0 {
			// the disk write written inline: the create-only call itself
			for _, cs := range callsIn(put) {
				if lastSeg(cs.Callee) == "CreateCacheFile" {
					wr = append(wr, cs)
				}
			}
		}
		if len(strat) == 0 && len(wr) == 1 && len(sets) == 1 {
			// the strategy written inline: SyncExec on the write-through side, Add on
			// the other, both after the persist flag; success only after one succeeded
			inlineStrategy = true
			se := callsInNamed(put, "(lib/persistedretry.Manager).SyncExec")
			ad := callsInNamed(put, "(lib/persistedretry.Manager).Add")
			okI := len(se) == 1 && len(ad) == 1 && inSuccessRegion(wr[0].Instr, sets[0].Instr, "os.IsExist")
			wt := func(want bool) FactFn {
				return func(cond ssa.Value, val bool) int {
					if isPureLoadOf(cond, pkgTagStore+".Config.WriteThrough") {
						return tern(val == want, 1, -1)
					}
					return 0
				}
			}
			if okI {
				okI = inSuccessRegion(sets[0].Instr, se[0].Instr) && inSuccessRegion(sets[0].Instr, ad[0].Instr) &&
					guardedBy(se[0].Instr, wt(true)) && guardedBy(ad[0].Instr, wt(false))
			}
			if okI {
				n, bad := 0, 0
				forEachPath(put, 5000, func(p Path) {
					ret := p.ret()
					if ret == nil || classifyReturn(ret) == RetFailure {
						return
					}
					n++
					if !(p.succeeded(se[0].Instr) || p.succeeded(ad[0].Instr)) {
						bad++
					}
				})
				okI = n > 0 && bad == 0
			}
			r.Check(okI, r2, put, "write → persist → write-back", nil, "ordered and error-checked (strategy inline)", "tagStore.Put does not perform disk write, persist flag and write-back scheduling in this order with each step checked")
			r.Check(okI, r2, nil, "strategy on both branches", nil, "SyncExec on the write-through side, Add on the other", "the inline write-back strategy does not cover both configuration branches")
		}
		ok := len(wr) == 1 && len(sets) == 1 && len(strat) == 1 &&
			inSuccessRegion(wr[0].Instr, sets[0].Instr, "os.IsExist") && inSuccessRegion(sets[0].Instr, strat[0])
		if inlineStrategy {
			ok = false
		}
		if ok {
			// success return is the strategy's result
			for _, ret := range returnsOf(put) {
				if classifyReturn(ret) == RetFailure {
					continue
				}
				if errOperand(ret) != strat[0].Value() {
					ok = false
				}
			}
		}
		if !inlineStrategy {
			r.Check(ok, r2, put, "write → persist → write-back", nil, "ordered and error-checked", "tagStore.Put does not perform disk write, persist flag and write-back scheduling in this order with each step checked")
		}
	}
	// strategy assignment
	nst := 0
	for _, fn := range c.FuncsIn(pkgTagStore) {
		if c.isFixture(fn) {
			continue
		}
		for _, st := range storesToField(fn, pkgTagStore+".tagStore.writeBackStrategy") {
			nst++
			_ = st
		}
	}
	okWT := false
	if wt := c.Func("(*" + pkgTagStore + ".tagStore).writeThroughStrategy"); wt != nil {
		okWT = len(callsInNamed(wt, "(lib/persistedretry.Manager).SyncExec")) == 1
		for _, ret := range returnsOf(wt) {
			if classifyReturn(ret) != RetFailure {
				for _, cs := range callsInNamed(wt, "(lib/persistedretry.Manager).SyncExec") {
					if !inSuccessRegion(cs.Instr, ret) {
						okWT = false
					}
				}
			}
		}
	}
	okAS := false
	if as := c.Func("(*" + pkgTagStore + ".tagStore).asyncWriteBackStrategy"); as != nil {
		okAS = len(callsInNamed(as, "(lib/persistedretry.Manager).Add")) == 1
	}
	if !inlineStrategy {
		r.Check(nst == 2 && okWT && okAS, r2, nil, "strategy on both branches", nil, "assigned twice; write-through = SyncExec (success only if it succeeded); async = Add",
		fmt.Sprintf("write-back strategy is not assigned on both configuration branches (stores=%d) or write-through is not a checked SyncExec (%v) / async not an Add (%v)", nst, okWT, okAS))
	}

	r3 := r.Rule("R3", "E-OWN", "the tag store creates tag files only through CreateCacheFile and tolerates 'exists' without overwriting; no other creating/moving store call is made with a tag name", 1)
	// the function of the tag store that creates the tag file (a helper, or Put itself)
	var wd *ssa.Function
	for _, fn := range c.FuncsIn(pkgTagStore) {
		if c.isFixture(fn) {
			continue
		}
		for _, cs := range callsIn(fn) {
			if lastSeg(cs.Callee) == "CreateCacheFile" {
				wd = fn
			}
		}
	}
	if wd == nil {
		r.Unresolved(r3, "no function of the tag store calls CreateCacheFile")
	} else {
		r.Analysed(wd)
		creates := 0
		ok := true
		for _, cs := range callsIn(wd) {
			switch lastSeg(cs.Callee) {
			case "CreateCacheFile":
				creates++
			case "MoveUploadFileToCache", "DeleteCacheFile", "WriteCacheFile":
				ok = false
			}
		}
		r.Check(ok && creates == 1, r3, wd, "create-only", nil, "single CreateCacheFile", "the tag file is written by something else than a single create-only CreateCacheFile: an existing tag could be overwritten")
	}
	for _, fn := range c.FuncsIn(pkgTagStore) {
		if c.isFixture(fn) {
			continue
		}
		for _, cs := range callsIn(fn) {
			switch lastSeg(cs.Callee) {
			case "DeleteCacheFile", "MoveUploadFileToCache", "WriteCacheFile":
				r.Bad(r3, fn, lastSeg(cs.Callee), cs.Instr, "the tag store deletes or replaces a cached tag file: a stored tag can change")
			}
		}
	}

	r4 := r.Rule("R4", "flow", "tagStore.Get tries the disk resolver before the backend resolver", 1)
	if get := r.MustFunc(r4, "(*"+pkgTagStore+".tagStore).Get"); get != nil {
		// the slice literal's element 0 is resolveFromDisk, element 1 resolveFromBackend
		order := map[int64]string{}
		instrsOf(get, func(in ssa.Instruction) {
			st, ok := in.(*ssa.Store)
			if !ok {
				return
			}
			ia, ok := st.Addr.(*ssa.IndexAddr)
			if !ok {
				return
			}
			k, ok := intConst(ia.Index)
			if !ok {
				return
			}
			mentions(st.Val, func(v ssa.Value) bool {
				if f, isF := v.(*ssa.Function); isF {
					order[k] = f.Name()
				}
				if mc, isMC := v.(*ssa.MakeClosure); isMC {
					order[k] = mc.Fn.Name()
				}
				return false
			}, 3)
		})
		ok := len(order) == 2 && containsStr(order[0], "resolveFromDisk") && containsStr(order[1], "resolveFromBackend")
		if !ok && len(order) == 0 {
			// written as direct calls: every call that reaches the backend is
			// preceded by a call that reads the local cache
			isDisk := func(f *ssa.Function) bool {
				if f == nil {
					return false
				}
				hit := false
				instrsDeep(f, 1, func(_ *ssa.Function, in ssa.Instruction) {
					if ci, isC := in.(ssa.CallInstruction); isC && lastSeg(calleeName(ci.Common())) == "GetCacheFileReader" {
						hit = true
					}
				})
				return hit
			}
			isBackend := func(f *ssa.Function) bool {
				if f == nil {
					return false
				}
				hit := false
				instrsDeep(f, 1, func(_ *ssa.Function, in ssa.Instruction) {
					if ci, isC := in.(ssa.CallInstruction); isC && lastSeg(calleeName(ci.Common())) == "Download" {
						hit = true
					}
				})
				return hit
			}
			var disk, back []ssa.Instruction
			for _, cs := range callsIn(get) {
				sf := cs.Instr.Common().StaticCallee()
				if sf == nil || sf.Pkg != get.Pkg {
					continue
				}
				switch {
				case isBackend(sf):
					back = append(back, cs.Instr)
				case isDisk(sf):
					disk = append(disk, cs.Instr)
				}
			}
			ok = len(disk) > 0 && len(back) > 0
			for _, b := range back {
				pre := false
				for _, d := range disk {
					if precedes(d, b) {
						pre = true
					}
				}
				if !pre {
					ok = false
				}
			}
			if ok {
				order = map[int64]string{0: "disk resolver call", 1: "backend resolver call"}
			}
		}
		r.Check(ok, r4, get, "disk before backend", nil, fmt.Sprintf("%v", order), fmt.Sprintf("resolver order is not disk then backend: %v", order))
	}
}

func containsStr(s, sub string) bool {
	return len(s) >= len(sub) && (s == sub || len(s) > len(sub) && (indexOf(s, sub) >= 0))
}

func indexOf(s, sub string) int {
	for i := 0; i+len(sub) <= len(s); i++ {
		if s[i:i+len(sub)] == sub {
			return i
		}
	}
	return -1
}

func checkC33(c *Ctx, r *Report) {
	const pkg = "lib/persistedretry/tagreplication"
	r.Explain = "Ordering of remote tag replication: (R1) in the replication executor the remote PutAndReplicate is dominated by a completed loop over the task's dependencies in which ReplicateToRemote is called for each and any error returns; the only earlier nil return is on the side where the remote already has the tag; every failure returns an error so the persisted retry manager retries (C30); (R2) on the origin, replicateToRemote returns nil only after the remote cluster's UploadBlob returned nil (or started a refresh that reports 202/an error, never nil)."
	r.NotDecided = "That the remote origin cluster keeps the blob afterwards; eventual success of retries."
	r1 := r.Rule("R1", "E-ORDER/loop", "PutAndReplicate only after a completed loop calling ClusterClient.ReplicateToRemote for every dependency with errors returned; the early nil return requires remote Has(tag)==true with nil error", 2)
	ex := r.MustFunc(r1, "(*"+pkg+".Executor).Exec")
	if ex != nil {
		for _, cs := range callsInNamed(ex, "(build-index/tagclient.Client).PutAndReplicate") {
			ok, why := depLoopBefore(ex, cs.Instr, func(v ssa.Value) bool { return mentionsField(v, pkg+".Task.Dependencies") },
				"(origin/blobclient.ClusterClient).ReplicateToRemote", 1)
			// tag and digest are the task's
			a := cs.Instr.Common().Args
			sameTask := mentionsField(a[0], pkg+".Task.Tag") && mentionsField(a[1], pkg+".Task.Digest")
			r.Check(ok && sameTask, r1, ex, "PutAndReplicate after blobs", cs.Instr, why, "the remote build-index is asked to store the tag although not every dependency blob was confirmed replicated to the remote origin cluster: "+why)
		}
		if len(callsInNamed(ex, "(build-index/tagclient.Client).PutAndReplicate")) == 0 {
			r.Bad(r1, ex, "PutAndReplicate", nil, "the executor never stores the tag remotely")
		}
		put := callsInNamed(ex, "(build-index/tagclient.Client).PutAndReplicate")
		for _, ret := range returnsOf(ex) {
			if classifyReturn(ret) != RetSuccess {
				continue
			}
			afterPut := false
			for _, p := range put {
				if inSuccessRegion(p.Instr, ret) {
					afterPut = true
				}
			}
			hasTag := false
			for _, h := range callsInNamed(ex, "(build-index/tagclient.Client).Has") {
				okv := resultN(h.Instr, 0)
				for _, v := range okv {
					if guardedBy(ret, func(cond ssa.Value, val bool) int {
						if cond == v {
							return tern(val, 1, -1)
						}
						return 0
					}) && inSuccessRegion(h.Instr, ret) {
						hasTag = true
					}
				}
			}
			r.Check(afterPut || hasTag, r1, ex, "nil return", ret, "after successful PutAndReplicate, or remote already has the tag", "the replication task reports success (and is removed from the retry store) although the tag was neither stored remotely nor already present there")
		}
	}
	r2 := r.Rule("R2", "E-ORDER/ok", "origin replicateToRemote returns a nil error only in the success region of the remote cluster's UploadBlob", 1)
	if rr := r.MustFunc(r2, "(*origin/blobserver.Server).replicateToRemote"); rr != nil {
		ups := callsInNamed(rr, "(origin/blobclient.ClusterClient).UploadBlob")
		n := 0
		for _, ret := range returnsOf(rr) {
			k := classifyReturn(ret)
			if k == RetFailure {
				continue
			}
			v := errOperand(ret)
			if v != nil && isCallTo(v, "(*origin/blobserver.Server).startRemoteBlobDownload") {
				continue // decided below: never nil
			}
			n++
			ok := false
			for _, up := range ups {
				if inSuccessRegion(up.Instr, ret) {
					ok = true
				}
			}
			r.Check(ok, r2, rr, "nil return", ret, "after successful remote upload", "replicateToRemote reports success although the blob was not uploaded to the remote cluster")
		}
		if sr := c.Func("(*origin/blobserver.Server).startRemoteBlobDownload"); sr != nil {
			okNever := true
			for _, ret := range returnsOf(sr) {
				if classifyReturn(ret) == RetSuccess {
					okNever = false
				}
			}
			r.Check(okNever, r2, sr, "refresh path never reports success", nil, "returns 202/404/503 or the error", "the blob-not-cached path of replicateToRemote can report success without the blob having been uploaded")
		}
		if n == 0 {
			r.Undecided(r2, rr, "nil return", nil, "no success return recognised")
		}
	}
}
