package main

import (
	"fmt"
	"go/constant"
	"regexp"
	"sort"
	"strings"

	"golang.org/x/tools/go/ssa"
)

func init() {
	register("C04", checkC04)
	register("C05", checkC05)
	register("C06", checkC06)
}

// importRules runs another property's check into a scratch report and copies the
// obligations of the named rules (same engine, same run) under this property.
func importRules(c *Ctx, r *Report, from string, f PropFunc, rules map[string]string) {
	sub := NewReport(c, from, r.Tier)
	f(c, sub)
	for _, o := range sub.Obls {
		short := strings.TrimPrefix(o.Rule, from+".")
		newID, ok := rules[short]
		if !ok {
			continue
		}
		ri := sub.Rules[o.Rule]
		id := r.Rule(newID, ri.Engine, "(shared with "+o.Rule+") "+ri.Text, 1)
		n := *o
		n.Property = r.Prop
		n.Rule = id
		n.Key = strings.Replace(o.Key, o.Rule, id, 1)
		r.Obls = append(r.Obls, &n)
		r.Rules[id].Instances++
	}
	for f := range sub.funcs {
		r.funcs[f] = true
	}
}

// registeredMetadataPatterns collects the regexp sources passed to
// metadata.Register(regexp.MustCompile(...)) anywhere in the repository.
func registeredMetadataPatterns(c *Ctx) []string {
	globalInit := map[*ssa.Global]string{}
	for _, fn := range c.Funcs {
		if fn.Name() != "init" && !strings.HasPrefix(fn.Name(), "init#") {
			continue
		}
		instrsOf(fn, func(in ssa.Instruction) {
			if st, ok := in.(*ssa.Store); ok {
				if g, isG := st.Addr.(*ssa.Global); isG {
					if s, isS := constString(st.Val); isS {
						globalInit[g] = s
					}
				}
			}
		})
	}
	seen := map[string]bool{}
	for _, cs := range c.CallsTo("lib/store/metadata.Register") {
		mentions(cs.Instr.Common().Args[0], func(v ssa.Value) bool {
			cl, ok := v.(*ssa.Call)
			if !ok || calleeName(cl.Common()) != "regexp.MustCompile" {
				return false
			}
			a := cl.Call.Args[0]
			if s, isS := constString(a); isS {
				seen[s] = true
			}
			if u, isU := a.(*ssa.UnOp); isU {
				if g, isG := u.X.(*ssa.Global); isG {
					if s, has := globalInit[g]; has {
						seen[s] = true
					}
				}
			}
			return true
		}, 4)
	}
	var out []string
	for s := range seen {
		out = append(out, s)
	}
	sort.Strings(out)
	return out
}

// rulesSidecarAtomic (C04.R2 / C05.R3): metadata sidecars of the file-entry layer
// appear under their final name only by rename of a fully written temporary file.
func rulesSidecarAtomic(c *Ctx, r *Report, id string) {
	rule := r.Rule(id, "E-CODEC/E-ORDER", "in lib/store/base a sidecar is created only by writing a temporary file (constant name pattern that matches no registered metadata suffix) and renaming it into place after write and close succeeded; no create-then-write on a final name (os.WriteFile, os.Create, O_CREATE) outside the data-file creation", 3)
	pats := registeredMetadataPatterns(c)
	r.Extra["registered_metadata_patterns"] = pats
	if len(pats) < 3 {
		r.Unresolved(rule, fmt.Sprintf("registered metadata patterns (found %d)", len(pats)))
	}
	nTemp := 0
	for _, fn := range c.FuncsIn(pkgBase) {
		if c.isFixture(fn) {
			continue
		}
		top := funcName(topFunc(fn))
		for _, cs := range callsIn(fn) {
			switch cs.Callee {
			case "os.WriteFile", "io/ioutil.WriteFile":
				r.Bad(rule, fn, "os.WriteFile", cs.Instr, "a file is created and then written under its final name: a crash in between leaves an empty/partial sidecar that readers treat as fatal")
			case "os.Create":
				r.Check(top == "(*lib/store/base.localFileEntry).Create", rule, fn, "os.Create", cs.Instr, "data file creation (size set by truncate; not a parsed sidecar)", "os.Create on a final name outside the data-file creation")
			case "os.OpenFile":
				flags := cs.Instr.Common().Args[1]
				if k, ok := intConst(flags); ok && k&0x40 != 0 { // O_CREATE on linux
					r.Bad(rule, fn, "os.OpenFile(O_CREATE)", cs.Instr, "a file is created in place and written afterwards")
				} else if !ok {
					r.Undecided(rule, fn, "os.OpenFile flags", cs.Instr, "open flags are not constant")
				} else {
					r.OK(rule, fn, "os.OpenFile(existing)", cs.Instr, false, "opens an existing file only")
				}
			case "os.CreateTemp":
				nTemp++
				pat, isConst := constString(cs.Instr.Common().Args[1])
				okPat := isConst
				why := "temporary name pattern is not a constant (it may embed the final sidecar name)"
				if isConst {
					name := strings.ReplaceAll(pat, "*", "1234567890")
					for _, p := range pats {
						re, err := regexp.Compile(p)
						if err != nil {
							continue
						}
						if re.MatchString(name) {
							okPat = false
							why = fmt.Sprintf("temporary name %q matches the registered metadata pattern %q: a leftover after a crash is taken for that sidecar and fails the reload of the whole entry", name, p)
						}
					}
				}
				r.Check(okPat, rule, fn, "temp name", cs.Instr, "constant, matches no metadata pattern", why)
				// rename after successful write+close
				tmp := cs.Instr.Value()
				okSeq := false
				for _, rn := range callsInNamed(fn, "os.Rename") {
					if !mentions(rn.Instr.Common().Args[0], func(v ssa.Value) bool {
						return isCallTo(v, "(*os.File).Name") && mentions(v, func(w ssa.Value) bool { ex, isEx := w.(*ssa.Extract); return isEx && ex.Tuple == tmp }, 4)
					}, 5) {
						continue
					}
					wOK, cOK := false, false
					for _, w := range callsInNamed(fn, "(*os.File).Write", "(*os.File).WriteString") {
						if renameAfterOK(w.Instr, rn.Instr) {
							wOK = true
						}
					}
					for _, cl := range callsInNamed(fn, "(*os.File).Close") {
						if !cl.IsDefer && renameAfterOK(cl.Instr, rn.Instr) {
							cOK = true
						}
					}
					if wOK && cOK {
						okSeq = true
					}
				}
				r.Check(okSeq, rule, fn, "write, close, then rename", cs.Instr, "rename only after the temp file was written and closed without error", "the temporary file is renamed into place on a path where its write or close did not (provably) succeed")
			}
		}
	}
	if nTemp == 0 {
		r.Bad(rule, nil, "sidecar creation", nil, "no temp-file-and-rename creation of sidecars found in lib/store/base")
	}
	// the writer of new sidecars goes through the atomic helper
	if cw := r.MustFunc(rule, "lib/store/base.compareAndWriteFile"); cw != nil {
		ok := false
		for _, cs := range callsIn(cw) {
			if g := c.Func(cs.Callee); g != nil && len(callsInNamed(g, "os.CreateTemp")) > 0 {
				ok = guardedBy(cs.Instr, func(cond ssa.Value, val bool) int {
					if isCallTo(cond, "os.IsNotExist") {
						return tern(val, 1, -1)
					}
					return 0
				})
			}
		}
		r.Check(ok, rule, cw, "missing sidecar ⇒ atomic creation", nil, "not-exist branch uses the temp+rename helper", "the not-exist branch of compareAndWriteFile does not create the sidecar atomically")
	}
	// readers ignore files that are not metadata
	if rl := r.MustFunc(rule, "(*lib/store/base.localFileEntry).Reload"); rl != nil {
		ok := false
		for _, cs := range callsInNamed(rl, "(*lib/store/base.localFileEntry).AddMetadata") {
			if guardedBy(cs.Instr, func(cond ssa.Value, val bool) int {
				if b, isB := cond.(*ssa.BinOp); isB && isNilConst(b.Y) && mentionsCall(b.X, "lib/store/metadata.CreateFromSuffix") {
					nonNil := (b.Op.String() == "!=") == val
					return tern(nonNil, 1, -1)
				}
				return 0
			}) {
				ok = true
			}
		}
		r.Check(ok, rule, rl, "reload ignores unknown files", nil, "AddMetadata only for names a factory recognises", "Reload adds metadata for files no factory recognises")
	}
}

// renameAfterOK: the rename happens only if call a returned a nil error. Handles
// the accumulated-error idiom (`_, err = a(); if err == nil { err = next() } ...;
// if err == nil { rename }`) by requiring that no path from a's non-nil edge, nor
// from a non-nil result merged into the tested variable, reaches the rename.
func renameAfterOK(a ssa.CallInstruction, rn ssa.CallInstruction) bool {
	if inSuccessRegion(a, rn) {
		return true
	}
	// accumulated error: a's error flows into a phi chain whose nil-test guards the rename
	errs := errResults(a)
	if len(errs) == 0 || !precedes(a, rn) {
		return false
	}
	if fnOf := a.Parent(); fnOf != nil && succeededOnEveryPathTo(fnOf, a, rn) {
		return true
	}
	for _, e := range errs {
		// find phis (transitively) that merge e
		merged := map[ssa.Value]bool{e: true}
		for changed := true; changed; {
			changed = false
			for v := range merged {
				if v.Referrers() == nil {
					continue
				}
				for _, rf := range *v.Referrers() {
					if phi, ok := rf.(*ssa.Phi); ok && !merged[phi] {
						merged[phi] = true
						changed = true
					}
				}
			}
		}
		for v := range merged {
			for _, ed := range nilEdges(v, true) {
				if edgeDominates(ed, rn.Block()) {
					return true
				}
			}
		}
	}
	return false
}

func checkC04(c *Ctx, r *Report) {
	r.Explain = "Crash-atomicity discipline of the agent's download state (process-crash model: completed system calls persist): every state that readers act upon becomes visible only through a single atomic step whose predecessors are complete — the status byte of a piece is written after its data (shared with C03.R1); metadata sidecars appear under their final name only by rename of a fully written temporary file whose name no reader mistakes for a sidecar; the restored status vector is trusted only if its length is the piece count; the blob is committed by one rename, after its movable metadata was copied, and only when every restored piece is complete."
	r.NotDecided = "Power-loss durability (there is no fsync; outside the stated model); that recovery succeeds for every crash prefix (would need enumeration of prefixes); ordering guarantees of directory entries in the file system."
	importRules(c, r, "C03", checkC03, map[string]string{"R1": "R1", "R5": "R5", "R7": "R3"})
	rulesSidecarAtomic(c, r, "R2")
	// R4 commit by rename in Move
	r4 := r.Rule("R4", "E-ORDER/ok", "localFileEntry.Move copies movable metadata, then renames the data file, then removes the source directory, each step in the success region of the previous one; download files are opened for writing only in the download state", 2)
	if mv := r.MustFunc(r4, "(*lib/store/base.localFileEntry).Move"); mv != nil {
		rng := callsInNamed(mv, "(*lib/store/base.localFileEntry).RangeMetadata")
		ren := callsInNamed(mv, "os.Rename")
		rem := callsInNamed(mv, "os.RemoveAll")
		ok := len(rng) == 1 && len(ren) == 1 && len(rem) == 1 &&
			inSuccessRegion(rng[0].Instr, ren[0].Instr) && inSuccessRegion(ren[0].Instr, rem[0].Instr)
		r.Check(ok, r4, mv, "copy metadata → rename → remove source", nil, "ordered, each after the previous succeeded", "Move does not copy the movable metadata before the data rename, or removes the source although the rename did not succeed")
	}
	if rw := r.MustFunc(r4, "(*lib/store.CADownloadStore).GetDownloadFileReadWriter"); rw != nil {
		ok := false
		for _, cs := range callsInNamed(rw, "(lib/store/base.FileOp).AcceptState") {
			if mentionsField(cs.Instr.Common().Args[0], "lib/store.CADownloadStore.downloadState") {
				ok = true
			}
		}
		n := len(callsInNamed(rw, "(lib/store/base.FileOp).AcceptState"))
		r.Check(ok && n == 1, r4, rw, "writer accepts the download state only", nil, "AcceptState(downloadState)", "the download writer accepts files outside the download state: a committed cache file could be rewritten")
	}
	rulesPieceStatusSource(c, r)
}

func checkC05(c *Ctx, r *Report) {
	r.Explain = "Crash consistency of the origin/proxy blob cache: uploads are staged in a directory that is wiped at start-up; a blob appears in the cache only by a rename that follows digest verification (shared with C01.R1), so every listed blob is whole; metadata sidecars appear only by rename of a fully written temporary file that no reader mistakes for a sidecar (shared with C04.R2), so metainfo is either absent or complete; an absent metainfo sends the request to the refresh/generation path instead of failing."
	r.NotDecided = "Power-loss durability; that every crash prefix was enumerated; content of files written by other processes."
	r1 := r.Rule("R1", "E-ORDER", "the upload-store constructor removes the upload directory before creating and using it", 1)
	if us := r.MustFunc(r1, "lib/store.newUploadStore"); us != nil {
		rm := callsInNamed(us, "os.RemoveAll")
		mk := callsInNamed(us, "os.MkdirAll")
		ok := len(rm) == 1 && len(mk) == 1 && precedes(rm[0].Instr, mk[0].Instr) &&
			rm[0].Instr.Common().Args[0] == us.Params[0] && mk[0].Instr.Common().Args[0] == us.Params[0]
		r.Check(ok, r1, us, "wipe before use", nil, "RemoveAll(dir) precedes MkdirAll(dir)", "the upload directory is not wiped before use: partial uploads of a crashed process survive the restart")
	}
	importRules(c, r, "C01", checkC01, map[string]string{"R1": "R2", "R4": "R2b"})
	rulesSidecarAtomic(c, r, "R3")
	r4 := r.Rule("R4", "E-GUARD", "a metainfo request whose sidecar is absent (NotExist) is routed to the refresh/generation path; only other errors are reported as failures", 1)
	if gm := r.MustFunc(r4, "(*origin/blobserver.Server).getMetaInfo"); gm != nil {
		ok := false
		for _, cs := range callsInNamed(gm, "(*origin/blobserver.Server).startRemoteBlobDownload") {
			if guardedBy(cs.Instr, func(cond ssa.Value, val bool) int {
				if isCallTo(cond, "os.IsNotExist") {
					return tern(val, 1, -1)
				}
				return 0
			}) {
				ok = true
			}
		}
		r.Check(ok, r4, gm, "absent metainfo ⇒ regenerate", nil, "NotExist branch starts the refresh", "an absent metainfo sidecar is not regenerated on demand")
	}
	if sr := c.Func("(*origin/blobserver.Server).startRemoteBlobDownload"); sr != nil {
		r.Check(len(callsInNamed(sr, "(*lib/blobrefresh.Refresher).Refresh")) == 1, r4, sr, "refresh", nil, "calls the refresher", "the on-demand path no longer reaches the blob refresher")
	}
	rulesRegenWritesMetadata(c, r)
}

func checkC06(c *Ctx, r *Report) {
	const pkg = "lib/store/disk"
	const tStore = pkg + ".store"
	r.Explain = "Recovery discipline of the disk blob store: (R1) every fatal return of the reboot code stems from an I/O error, never from the content of a sidecar that is written non-atomically (such content fails open: the blob is dropped and its directory removed so the key can be created again); (R2) metadata is written to a temporary file and renamed after the write succeeded; (R3) a blob is marked complete in memory only after the directory rename succeeded (shared with C07.R6); (R4) Create registers the blob only after its file exists and releases the reservation on every error exit (shared with C07.R2); (R5) sidecars are removed individually only by the tabled operations — the size sidecar of an incomplete blob is never removed on its own."
	r.NotDecided = "Equality of the restored state with the pre-crash state for every crash prefix; sharded/unsharded path arithmetic; power-loss durability."
	defer rulesFreshStoreDecision(c, r)
	r1 := r.Rule("R1", "E-GUARD(classification)", "every error return of the reboot functions carries an error produced by an os/io call (or by a reboot callee), not by parsing sidecar content; an unrestorable incomplete blob is removed from disk before it is skipped", 6)
	parseCalls := []string{"strconv.Atoi", "strconv.ParseInt", "strconv.ParseUint", "strconv.ParseBool", "encoding/json.Unmarshal"}
	for _, n := range []string{pkg + ".rebootPersistedStore", pkg + ".rebootBlob", pkg + ".rebootIncompleteBlobSize"} {
		fn := r.MustFunc(r1, n)
		if fn == nil {
			continue
		}
		for _, ret := range returnsOf(fn) {
			if classifyReturn(ret) != RetFailure {
				continue
			}
			ev := errOperand(ret)
			fromParse := mentions(ev, func(v ssa.Value) bool {
				ex, isEx := v.(*ssa.Extract)
				if !isEx || !isCallTo(ex.Tuple, parseCalls...) {
					return false
				}
				// flow-sensitivity: the parse must be able to execute before this return
				pc := ex.Tuple.(*ssa.Call)
				return pc.Block() == ret.Block() || reaches(pc.Block(), ret.Block())
			}, 8)
			r.Check(!fromParse, r1, fn, "fatal return", ret, "I/O error", "reopening the store fails because of the CONTENT of a sidecar that is created and then written (a crash in between leaves it empty): the store can never be opened again")
		}
	}
	if rb := c.Func(pkg + ".rebootBlob"); rb != nil {
		// the !ok (unrestorable) branch removes the directory
		ok := false
		for _, cs := range callsInNamed(rb, pkg+".rebootIncompleteBlobSize") {
			oks := resultN(cs.Instr, 1)
			for _, rm := range callsInNamed(rb, "os.RemoveAll") {
				for _, okv := range oks {
					if guardedBy(rm.Instr, func(cond ssa.Value, val bool) int {
						if cond == okv {
							return tern(val, -1, 1)
						}
						return 0
					}) && mentionsCall(rm.Instr.Common().Args[0], "(*"+pkg+".pather).dirPath") {
						ok = true
					}
				}
			}
		}
		r.Check(ok, r1, rb, "unrestorable incomplete blob removed", nil, "directory removed on the !ok side", "an incomplete blob that cannot be restored is skipped but left on disk: its key can never be created again (O_EXCL fails)")
		// every path on which rebootBlob reports "skip this blob" (ok=false, err=nil)
		// removed the blob's directory successfully
		n, bad := 0, 0
		var where ssa.Instruction
		forEachPath(rb, 5000, func(p Path) {
			ret := p.ret()
			if ret == nil || classifyReturn(ret) == RetFailure || len(ret.Results) != 3 || !isBoolConst(resolveOnPath(unspill(ret.Results[1]), p), false) {
				return
			}
			n++
			removed := false
			for _, rm := range callsInNamed(rb, "os.RemoveAll") {
				if mentionsCall(rm.Instr.Common().Args[0], "(*"+pkg+".pather).dirPath") && p.succeeded(rm.Instr) {
					removed = true
				}
			}
			if !removed {
				bad++
				where = ret
			}
		})
		r.Check(n > 0 && bad == 0, r1, rb, "skipped blob leaves nothing on disk", where, fmt.Sprintf("%d skip path(s), all after RemoveAll(dirPath) succeeded", n),
			fmt.Sprintf("%d of %d paths skip a blob found on disk without removing its directory: the remains (e.g. sidecars left by a crash inside Delete) stay, and completing the same key again fails on the directory rename", bad, n))
	}
	r2 := r.Rule("R2", "E-ORDER/ok", "disk.SetMetadata renames the temporary file into place only in the success region of the write to it", 1)
	if sm := r.MustFunc(r2, "(*"+tStore+").SetMetadata"); sm != nil {
		// in SetMetadata itself or in a helper of the package it delegates to
		cands := []*ssa.Function{sm}
		for _, cs := range callsIn(sm) {
			if sf := cs.Instr.Common().StaticCallee(); sf != nil && sf.Pkg == sm.Pkg && len(callsInNamed(sf, "os.Rename")) > 0 {
				cands = append(cands, sf)
			}
		}
		ok, nrn := true, 0
		for _, f := range cands {
			for _, rn := range callsInNamed(f, "os.Rename") {
				nrn++
				after := false
				for _, w := range callsInNamed(f, "(*os.File).Write") {
					if inSuccessRegion(w.Instr, rn.Instr) {
						after = true
					}
				}
				if !after {
					ok = false
				}
			}
		}
		ok = ok && nrn > 0
		r.Check(ok, r2, sm, "write then rename", nil, "rename after successful write", "metadata is renamed into place although the write to the temporary file did not succeed")
	}
	importRules(c, r, "C07", func(c *Ctx, r *Report) { checkLRUStore(c, r, pkg, true) }, map[string]string{"R6": "R3", "R2": "R4"})
	r4 := r.Rule("R4b", "E-ORDER/ok", "Create inserts the blob into the table only after the blob file was created successfully", 1)
	if cr := r.MustFunc(r4, "(*"+tStore+").Create"); cr != nil {
		ok := false
		instrsOf(cr, func(in ssa.Instruction) {
			mu, isMU := in.(*ssa.MapUpdate)
			if !isMU || !isPureLoadOf(mu.Map, tStore+".blobs") {
				return
			}
			for _, of := range callsInNamed(cr, "os.OpenFile") {
				if inSuccessRegion(of.Instr, mu) {
					ok = true
				}
			}
		})
		r.Check(ok, r4, cr, "register after file exists", nil, "table insert in success region of OpenFile", "a blob is registered in memory although its file was not created")
	}
	r5 := r.Rule("R5", "E-OWN", "individual sidecar removal (os.Remove) in the disk store only in the tabled operations, and never of the size sidecar", 3)
	table := map[string]string{
		"(*" + tStore + ").UnbanEviction":               "eviction-ban flag file",
		"(*" + tStore + ").tryDeleteImmovableMetadata":  "non-movable metadata on completion",
		"(*" + tStore + ").DeleteMetadata":              "one metadata file on request",
	}
	for _, cs := range c.CallsTo("os.Remove") {
		fn := cs.Caller
		if pkgOf(fn) != pkg || c.isFixture(fn) {
			continue
		}
		why, ok := table[funcName(topFunc(fn))]
		sizeSide := mentions(cs.Instr.Common().Args[0], func(v ssa.Value) bool {
			s, isS := constString(v)
			return isS && s == "_size"
		}, 6)
		r.Check(ok && !sizeSide, r5, fn, "os.Remove", cs.Instr, why, "a sidecar is removed individually outside the tabled operations (removing the size sidecar of an incomplete blob makes the reboot drop the blob)")
	}
	_ = constant.Int
}
