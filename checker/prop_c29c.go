package main

import (
	"golang.org/x/tools/go/ssa"
)

// pendingClearers: methods of the request cache that delete a key from the
// pending set on every path.
func pendingClearers(c *Ctx, pkg, tRC string) []*ssa.Function {
	var out []*ssa.Function
	for _, fn := range c.FuncsIn(pkg) {
		if c.isFixture(fn) || fn.Parent() != nil || recvTypeName(fn) != tRC {
			continue
		}
		var dels []ssa.Instruction
		instrsOf(fn, func(in ssa.Instruction) {
			if isMapDeleteOn(in, tRC+".pending") {
				dels = append(dels, in)
			}
		})
		if len(dels) == 0 {
			continue
		}
		always := true
		for _, ret := range returnsOf(fn) {
			ok := false
			for _, d := range dels {
				if d.Block() == ret.Block() || d.Block().Dominates(ret.Block()) {
					ok = true
				}
			}
			if !ok {
				always = false
			}
		}
		if always {
			out = append(out, fn)
		}
	}
	return out
}

// requestWorker: the function that runs a reserved request — the target of the
// `go` statement in Start if it calls a clearer itself, otherwise the function of
// the package it calls that does (one level).
func requestWorker(c *Ctx, tRC string, clearerNames []string) *ssa.Function {
	st := c.Func("(*" + tRC + ").Start")
	if st == nil {
		return nil
	}
	var target *ssa.Function
	instrsOf(st, func(in ssa.Instruction) {
		g, ok := in.(*ssa.Go)
		if !ok {
			return
		}
		if mc, isMC := g.Call.Value.(*ssa.MakeClosure); isMC {
			target, _ = mc.Fn.(*ssa.Function)
		} else if sf := g.Call.StaticCallee(); sf != nil {
			target = sf
		}
	})
	if target == nil {
		return nil
	}
	if len(callsInNamed(target, clearerNames...)) > 0 {
		return target
	}
	for _, cs := range callsIn(target) {
		if _, isDefer := cs.Instr.(*ssa.Defer); isDefer {
			continue
		}
		if sf := cs.Instr.Common().StaticCallee(); sf != nil && sf.Pkg == st.Pkg && len(callsInNamed(sf, clearerNames...)) > 0 {
			return sf
		}
	}
	return nil
}
