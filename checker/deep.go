package main

import (
	"golang.org/x/tools/go/ssa"
)

// instrsDeep visits the instructions of fn and of the functions of the same
// package it calls statically, up to the given depth — the view of a function
// that does not change when part of its body is moved into a private helper.
func instrsDeep(fn *ssa.Function, depth int, f func(owner *ssa.Function, in ssa.Instruction)) {
	seen := map[*ssa.Function]bool{}
	var visit func(g *ssa.Function, d int)
	visit = func(g *ssa.Function, d int) {
		if seen[g] || len(g.Blocks) == 0 {
			return
		}
		seen[g] = true
		instrsOf(g, func(in ssa.Instruction) {
			f(g, in)
			if d >= depth {
				return
			}
			if ci, ok := in.(ssa.CallInstruction); ok {
				if sf := ci.Common().StaticCallee(); sf != nil && sf.Pkg != nil && sf.Pkg == fn.Pkg {
					visit(sf, d+1)
				}
			}
		})
	}
	visit(fn, 0)
}

// callsDeep: calls to the named callees in fn or its same-package helpers.
func callsDeep(fn *ssa.Function, depth int, names ...string) []ssa.CallInstruction {
	want := map[string]bool{}
	for _, n := range names {
		want[n] = true
	}
	var out []ssa.CallInstruction
	instrsDeep(fn, depth, func(_ *ssa.Function, in ssa.Instruction) {
		if ci, ok := in.(ssa.CallInstruction); ok && want[calleeName(ci.Common())] {
			out = append(out, ci)
		}
	})
	return out
}

// allSepFreeConsts: v is a string constant without ':' or a phi of such constants.
func allSepFreeConsts(v ssa.Value) bool {
	switch x := v.(type) {
	case *ssa.Const:
		s, ok := constString(x)
		if !ok {
			return false
		}
		for _, ch := range s {
			if ch == ':' {
				return false
			}
		}
		return true
	case *ssa.Phi:
		for _, e := range x.Edges {
			if !allSepFreeConsts(e) {
				return false
			}
		}
		return len(x.Edges) > 0
	}
	return false
}
