package main

import (
	"golang.org/x/tools/go/ssa"
)

// lockHeldDeep: at instruction in of fn, a mutex "mu" of an object of type rtype
// is held in write mode — locally, or at every place fn is invoked from: its
// static call sites for a helper, the call of the function literal for a
// closure (two levels).
func lockHeldDeep(c *Ctx, fn *ssa.Function, in ssa.Instruction, rtype string, depth int) bool {
	sets := locksets(fn, lockState{})
	for k, m := range sets[in] {
		if k.mutex == "mu" && m >= 2 && k.rtype == rtype {
			return true
		}
	}
	if depth >= 2 {
		return false
	}
	n := 0
	if parent := fn.Parent(); parent != nil {
		// closure: find where it is called (or deferred) in the parent
		ok := true
		instrsOf(parent, func(pin ssa.Instruction) {
			ci, isC := pin.(ssa.CallInstruction)
			if !isC {
				return
			}
			mc, isMC := ci.Common().Value.(*ssa.MakeClosure)
			if !isMC || mc.Fn != ssa.Value(fn) {
				return
			}
			n++
			if !lockHeldDeep(c, parent, pin, rtype, depth+1) {
				ok = false
			}
		})
		return n > 0 && ok
	}
	for _, cs := range c.CallsTo(funcName(fn)) {
		if c.isFixture(cs.Caller) {
			continue
		}
		n++
		if !lockHeldDeep(c, cs.Caller, cs.Instr.(ssa.Instruction), rtype, depth+1) {
			return false
		}
	}
	return n > 0
}

// guardedDeep: the fact guards in locally, or guards every invocation of fn (see
// lockHeldDeep).
func guardedDeep(c *Ctx, fn *ssa.Function, in ssa.Instruction, fact FactFn, depth int) bool {
	if guardedBy(in, fact) {
		return true
	}
	if depth >= 2 {
		return false
	}
	n := 0
	if parent := fn.Parent(); parent != nil {
		ok := true
		instrsOf(parent, func(pin ssa.Instruction) {
			ci, isC := pin.(ssa.CallInstruction)
			if !isC {
				return
			}
			mc, isMC := ci.Common().Value.(*ssa.MakeClosure)
			if !isMC || mc.Fn != ssa.Value(fn) {
				return
			}
			n++
			if !guardedDeep(c, parent, pin, fact, depth+1) {
				ok = false
			}
		})
		return n > 0 && ok
	}
	for _, cs := range c.CallsTo(funcName(fn)) {
		if c.isFixture(cs.Caller) {
			continue
		}
		n++
		if !guardedDeep(c, cs.Caller, cs.Instr.(ssa.Instruction), fact, depth+1) {
			return false
		}
	}
	return n > 0
}
