package main

import (
	"fmt"
	"go/token"
	"go/types"
	"strings"

	"golang.org/x/tools/go/ssa"
)

func init() { register("C03", checkC03) }

const (
	pkgAgentSt = "lib/torrent/storage/agentstorage"
	fPieces    = pkgAgentSt + ".Torrent.pieces"
	fStatus    = pkgAgentSt + ".piece.status"
)

// ---- index-bounds engine (shared with C14) ----

// boundFacts: which bounds on value idx are established at instruction site in
// its own function: lower (idx >= 0 / !(idx < 0)) and upper (idx < X / !(idx >= X)).
func boundFacts(site ssa.Instruction, idx ssa.Value) (lower, upper bool) {
	same := func(v ssa.Value) bool { return sameIndexValue(v, idx) }
	lower = guardedBy(site, func(cond ssa.Value, val bool) int {
		b, ok := cond.(*ssa.BinOp)
		if !ok {
			return 0
		}
		// idx < 0  (true => negative)
		if same(b.X) {
			if k, isK := intConst(b.Y); isK && k == 0 {
				switch b.Op {
				case token.LSS:
					return tern(val, -1, 1)
				case token.GEQ:
					return tern(val, 1, -1)
				}
			}
		}
		if same(b.Y) {
			if k, isK := intConst(b.X); isK && k == 0 {
				switch b.Op {
				case token.GTR: // 0 > idx
					return tern(val, -1, 1)
				case token.LEQ: // 0 <= idx
					return tern(val, 1, -1)
				}
			}
		}
		return 0
	})
	upper = guardedBy(site, func(cond ssa.Value, val bool) int {
		b, ok := cond.(*ssa.BinOp)
		if !ok {
			return 0
		}
		if same(b.X) && !isConstZero(b.Y) && !peerControlled(b.Y) {
			switch b.Op {
			case token.GEQ, token.GTR: // idx >= n (true => out of range)
				return tern(val, -1, 1)
			case token.LSS, token.LEQ:
				return tern(val, 1, -1)
			}
		}
		if same(b.Y) && !isConstZero(b.X) && !peerControlled(b.X) {
			switch b.Op {
			case token.LEQ, token.LSS: // n <= idx
				return tern(val, -1, 1)
			case token.GTR, token.GEQ:
				return tern(val, 1, -1)
			}
		}
		return 0
	})
	return
}

func isConstZero(v ssa.Value) bool { k, ok := intConst(v); return ok && k == 0 }

// peerControlled: the value is computed from something a remote peer chooses (a
// field of a wire message, or the length/content of a peer's bitfield). Such a
// value is not an acceptable bound for an index.
func peerControlled(v ssa.Value) bool {
	return mentions(v, func(w ssa.Value) bool {
		if n, ok := fieldName(w); ok {
			if strings.HasPrefix(n, "gen/go/proto/p2p.") || n == "lib/torrent/scheduler/dispatch.peer.bitfield" {
				return true
			}
		}
		if cl, ok := w.(*ssa.Call); ok {
			switch calleeName(cl.Common()) {
			case "(*github.com/willf/bitset.BitSet).Len", "(*lib/torrent/scheduler/dispatch.syncBitfield).Len":
				return true
			}
		}
		return false
	}, 6)
}

func tern(c bool, a, b int) int {
	if c {
		return a
	}
	return b
}

// sameIndexValue: v and idx denote the same integer (through int conversions).
func sameIndexValue(v, idx ssa.Value) bool {
	strip := func(x ssa.Value) ssa.Value {
		for i := 0; i < 4; i++ {
			switch y := x.(type) {
			case *ssa.Convert:
				x = y.X
			case *ssa.ChangeType:
				x = y.X
			default:
				return x
			}
		}
		return x
	}
	a, b := strip(v), strip(idx)
	if a == b {
		return true
	}
	// two loads of the same field of the same object (go/ssa does no CSE): equal
	// as long as the object is not written in between — message objects handed to
	// a handler are owned by it.
	la, ok1 := a.(*ssa.UnOp)
	lb, ok2 := b.(*ssa.UnOp)
	if ok1 && ok2 && la.Op == token.MUL && lb.Op == token.MUL {
		fa, ok3 := la.X.(*ssa.FieldAddr)
		fb, ok4 := lb.X.(*ssa.FieldAddr)
		if ok3 && ok4 && fa.Field == fb.Field && types.Identical(fa.X.Type(), fb.X.Type()) && rootOf(fa.X) == rootOf(fb.X) {
			return true
		}
		// two loads of one address-taken local (e.g. filled in by binary.Read(&n)):
		// equal if everything that can write the local — stores, and calls that
		// receive its address — happens before both loads and cannot happen again
		if al, isAl := la.X.(*ssa.Alloc); isAl && lb.X == ssa.Value(al) && al.Referrers() != nil {
			stable := true
			var check func(v ssa.Value)
			seenV := map[ssa.Value]bool{}
			check = func(v ssa.Value) {
				if seenV[v] || v.Referrers() == nil {
					return
				}
				seenV[v] = true
				for _, rf := range *v.Referrers() {
					switch w := rf.(type) {
					case *ssa.UnOp, *ssa.DebugRef:
					case *ssa.Store:
						if w.Addr == v {
							if !(precedes(w, la) && precedes(w, lb)) || reaches(la.Block(), w.Block()) || reaches(lb.Block(), w.Block()) {
								stable = false
							}
						} else {
							stable = false // the address itself is stored somewhere
						}
					case *ssa.MakeInterface:
						check(w)
					case *ssa.ChangeType:
						check(w)
					case ssa.CallInstruction:
						if !(precedes(w, la) && precedes(w, lb)) || reaches(la.Block(), w.Block()) || reaches(lb.Block(), w.Block()) {
							stable = false
						}
						if _, isGo := w.(*ssa.Go); isGo {
							stable = false
						}
					default:
						stable = false
					}
				}
			}
			check(al)
			if stable {
				return true
			}
		}
	}
	return false
}

// validatesIndexParam: fn returns a nil error only where both bounds of its
// parameter p are established (summary used to lift bounds across calls).
func validatesIndexParam(fn *ssa.Function, p *ssa.Parameter) bool {
	return validatesIndexParamD(nil, fn, p, 0)
}

// validatesIndexParamD also accepts success returns that lie in the success
// region of a call passing p to a callee that validates it — a static callee, or
// an interface method all of whose repository implementations validate it.
func validatesIndexParamD(c *Ctx, fn *ssa.Function, p *ssa.Parameter, depth int) bool {
	n := 0
	for _, ret := range returnsOf(fn) {
		if k := classifyReturn(ret); k == RetFailure || k == RetNoError {
			if k == RetNoError {
				return false
			}
			continue
		}
		n++
		lo, up := boundFacts(ret, p)
		if lo && up {
			continue
		}
		if c == nil || depth > 2 {
			return false
		}
		via := false
		for _, cs := range callsIn(fn) {
			if len(errResults(cs.Instr)) == 0 {
				continue
			}
			if !inSuccessRegion(cs.Instr, ret) {
				// pass-through: the function returns exactly the callee's error, so its
				// own success implies the callee's
				same := false
				if ev := errOperand(ret); ev != nil {
					for _, e0 := range errResults(cs.Instr) {
						for _, al := range errAliases(e0) {
							if al == ev {
								same = true
							}
						}
					}
				}
				if !same {
					continue
				}
			}
			cc := cs.Instr.Common()
			args := cc.Args
			off := 0
			if cc.IsInvoke() {
				off = 1 // implementations have the receiver as Params[0]
			}
			for i, a := range args {
				if !sameIndexValue(a, p) {
					continue
				}
				var targets []*ssa.Function
				if cc.IsInvoke() {
					targets = implementationsOf(c, cc)
				} else if g := c.Func(cs.Callee); g != nil {
					targets = []*ssa.Function{g}
				}
				if len(targets) == 0 {
					continue
				}
				all := true
				nt := 0
				for _, g := range targets {
					if g == fn {
						continue // a wrapper delegating to the interface it implements: not its own target
					}
					nt++
					if i+off >= len(g.Params) || !validatesIndexParamD(c, g, g.Params[i+off], depth+1) {
						all = false
					}
				}
				if all && nt > 0 {
					via = true
				}
			}
		}
		if !via {
			return false
		}
	}
	return n > 0
}

// implementationsOf lists the repository methods (outside mocks/fixtures) that an
// interface method call can dispatch to.
func implementationsOf(c *Ctx, cc *ssa.CallCommon) []*ssa.Function {
	iface, ok := cc.Value.Type().Underlying().(*types.Interface)
	if !ok {
		return nil
	}
	var out []*ssa.Function
	for _, fn := range c.Funcs {
		if fn.Name() != cc.Method.Name() || fn.Signature.Recv() == nil || fn.Parent() != nil || c.isFixture(fn) {
			continue
		}
		rt := fn.Signature.Recv().Type()
		if types.Implements(rt, iface) || types.Implements(types.NewPointer(rt), iface) {
			out = append(out, fn)
		}
	}
	return out
}

// indexBounded: at site (in fn), idx has both bounds, directly, via the success
// region of a validating call on the same value, or — when idx is a parameter —
// at every static call site (depth-limited).
func indexBounded(c *Ctx, fn *ssa.Function, site ssa.Instruction, idx ssa.Value, depth int) (bool, string) {
	lo, up := boundFacts(site, idx)
	if lo && up {
		return true, "both bounds tested"
	}
	for _, cs := range callsIn(fn) {
		if len(errResults(cs.Instr)) == 0 {
			continue
		}
		cc := cs.Instr.Common()
		var targets []*ssa.Function
		off := 0
		if cc.IsInvoke() {
			targets, off = implementationsOf(c, cc), 1
		} else if g := c.Func(cs.Callee); g != nil {
			targets = []*ssa.Function{g}
		}
		if len(targets) == 0 {
			continue
		}
		for i, a := range cc.Args {
			if !sameIndexValue(a, idx) {
				continue
			}
			all := true
			for _, g := range targets {
				if i+off >= len(g.Params) || !validatesIndexParamD(c, g, g.Params[i+off], 0) {
					all = false
				}
			}
			if all && inSuccessRegion(cs.Instr, site) {
				return true, "validated by " + lastSeg(cs.Callee)
			}
		}
	}
	var base ssa.Value = idx
	for i := 0; i < 3; i++ {
		if cv, ok := base.(*ssa.Convert); ok {
			base = cv.X
		}
	}
	if p, ok := base.(*ssa.Parameter); ok && depth < 3 {
		pi := -1
		for i, q := range fn.Params {
			if q == p {
				pi = i
			}
		}
		calls := c.CallsTo(funcName(fn))
		if pi >= 0 && len(calls) > 0 {
			for _, cs := range calls {
				if c.isFixture(cs.Caller) {
					continue
				}
				a := cs.Instr.Common().Args
				if pi >= len(a) {
					return false, "caller arity"
				}
				ok, _ := indexBounded(c, cs.Caller, cs.Instr, a[pi], depth+1)
				if !ok {
					return false, fmt.Sprintf("bounds missing (lower=%v upper=%v) and caller %s passes an unbounded value", lo, up, funcName(cs.Caller))
				}
			}
			return true, "bounded at every call site"
		}
	}
	return false, fmt.Sprintf("lower bound established=%v, upper bound established=%v", lo, up)
}

// fromRangeLoop: the index is the induction variable of a range loop.
func fromRangeLoop(fn *ssa.Function, idx ssa.Value) bool {
	for _, l := range rangeLoops(fn) {
		for _, e := range l.Elem {
			if ia, ok := e.(*ssa.IndexAddr); ok && ia.Index == idx {
				return true
			}
		}
	}
	// classic for i := 0; i < n; i++ loop: phi with constant 0 edge and +1 edge, compared < something
	if phi, ok := idx.(*ssa.Phi); ok {
		zero, inc := false, false
		for _, e := range phi.Edges {
			if isConstZero(e) {
				zero = true
			}
			if b, ok := e.(*ssa.BinOp); ok && b.Op == token.ADD && b.X == phi {
				inc = true
			}
		}
		return zero && inc
	}
	if b, ok := idx.(*ssa.BinOp); ok && b.Op == token.ADD {
		if phi, ok := b.X.(*ssa.Phi); ok { // range index form: t = phi + 1
			for _, e := range phi.Edges {
				if k, isK := intConst(e); isK && k == -1 {
					return true
				}
			}
		}
	}
	return false
}

func checkC03(c *Ctx, r *Report) {
	r.Explain = "Commit-after-verification discipline of the agent torrent: a piece is marked complete (in memory and in the on-disk status vector) only on the equal side of the comparison between the running checksum of the bytes just copied and the metainfo's sum for the same piece index, after the copy succeeded; the write happens only after the piece index was bounds-checked (both bounds) and the payload length compared with the piece length, and only by the goroutine that moved the piece empty→dirty, which resets it on failure; the download file is moved to the cache only where the completed-piece count equals the number of pieces, and 'committed' is set only after that move; a restored status vector is used only if its length is the piece count."
	r.NotDecided = "Byte identity of the committed file as such (semantics of io.Copy, Seek and the file system); fairness among concurrent writers."

	r1 := r.Rule("R1", "E-GUARD+E-ORDER/ok", "the function that records a piece as complete is called only on the equal side of (checksum of copied bytes == metainfo sum of the same index) and in the success region of the copy, whose source is teed into that checksum and whose destination offset is computed from the same index", 1)
	// the status recorder: the function that persists a piece's complete status —
	// a method of its own, or the write function itself when that code is inline
	type recSite struct {
		Caller *ssa.Function
		Instr  ssa.CallInstruction
		pi     ssa.Value
	}
	var recSites []recSite
	mpc := c.Func("(*" + pkgAgentSt + ".Torrent).markPieceComplete")
	if mpc != nil {
		r.Analysed(mpc)
		for _, cs := range c.CallsTo(funcName(mpc)) {
			if !c.isFixture(cs.Caller) {
				recSites = append(recSites, recSite{cs.Caller, cs.Instr, cs.Instr.Common().Args[1]})
			}
		}
	} else {
		for _, fn := range c.FuncsIn(pkgAgentSt) {
			if c.isFixture(fn) || recvTypeName(fn) != pkgAgentSt+".Torrent" {
				continue
			}
			for _, cs := range callsIn(fn) {
				if lastSeg(cs.Callee) != "SetMetadataAt" {
					continue
				}
				a := cs.Instr.Common().Args
				pi := a[len(a)-1]
				for i := 0; i < 3; i++ {
					if cv, isCv := pi.(*ssa.Convert); isCv {
						pi = cv.X
					}
				}
				mpc = fn
				recSites = append(recSites, recSite{fn, cs.Instr, pi})
			}
		}
		if mpc == nil {
			r.Unresolved(r1, "no function of the agent torrent persists the piece status (SetMetadataAt)")
		} else {
			r.Analysed(mpc)
		}
	}
	c03RecorderSites = nil
	for _, s := range recSites {
		c03RecorderSites = append(c03RecorderSites, s.Instr)
	}
	if mpc != nil {
		for _, cs := range recSites {
			fn := cs.Caller
			pi := cs.pi
			var sumCall *ssa.Call
			okSum := guardedBy(cs.Instr, eqFact(func(b *ssa.BinOp) bool {
				var s, g ssa.Value
				if mentionsCall(b.X, "(hash.Hash32).Sum32") && mentionsCall(b.Y, "(*core.MetaInfo).GetPieceSum") {
					s, g = b.X, b.Y
				} else if mentionsCall(b.Y, "(hash.Hash32).Sum32") && mentionsCall(b.X, "(*core.MetaInfo).GetPieceSum") {
					s, g = b.Y, b.X
				} else {
					return false
				}
				gc, _ := g.(*ssa.Call)
				if gc == nil || !sameIndexValue(gc.Call.Args[1], pi) {
					return false
				}
				sumCall, _ = s.(*ssa.Call)
				return true
			}, true))
			okCopy, okTee, okSeek := false, false, false
			for _, cp := range callsInNamed(fn, "io.Copy", "io.CopyN", "io.CopyBuffer") {
				if !inSuccessRegion(cp.Instr, cs.Instr) {
					continue
				}
				okCopy = true
				// source teed into the hash whose Sum32 is compared
				if sumCall != nil {
					h := sumCall.Call.Value
					mentions(cp.Instr.Common().Args[1], func(v ssa.Value) bool {
						if t, isC := v.(*ssa.Call); isC && calleeName(t.Common()) == "io.TeeReader" {
							if mentions(t.Call.Args[1], func(w ssa.Value) bool { return w == h }, 4) || t.Call.Args[1] == h ||
								mentions(h, func(w ssa.Value) bool { return mentions(t.Call.Args[1], func(z ssa.Value) bool { return z == w && isCallTo(w, "core.PieceHash") }, 4) }, 4) {
								okTee = true
							}
						}
						return false
					}, 6)
				}
			}
			for _, sk := range callsIn(fn) {
				if lastSeg(sk.Callee) == "Seek" && precedes(sk.Instr, cs.Instr) {
					if mentions(sk.Instr.Common().Args[len(sk.Instr.Common().Args)-2], func(v ssa.Value) bool { return sameIndexValue(v, pi) }, 6) {
						okSeek = true
					}
				}
			}
			r.Check(okSum && okCopy && okTee && okSeek, r1, fn, "mark piece complete", cs.Instr, "checksum equal ∧ copy ok ∧ teed ∧ offset from same index",
				fmt.Sprintf("a piece is recorded complete without all of: checksum==metainfo sum of the same index (%v), successful copy (%v), checksum fed by the copied stream (%v), write offset derived from the same index (%v)", okSum, okCopy, okTee, okSeek))
		}
		// inside: status byte written to disk successfully before in-memory mark and counter
		sets := []*CallSite{}
		for _, cs := range callsIn(mpc) {
			if lastSeg(cs.Callee) == "SetMetadataAt" {
				sets = append(sets, cs)
			}
		}
		ok := len(sets) == 1
		for _, cs := range callsInNamed(mpc, "(*"+pkgAgentSt+".piece).markComplete", "(*go.uber.org/atomic.Int32).Inc") {
			if !ok || !inSuccessRegion(sets[0].Instr, cs.Instr) {
				ok = false
			}
		}
		if ok {
			// the offset written is the piece index
			a := sets[0].Instr.Common().Args
			ok = mentions(a[len(a)-1], func(v ssa.Value) bool {
				p, isP := v.(*ssa.Parameter)
				return isP && p.Parent() == mpc && p.Type().String() == "int"
			}, 4)
		}
		r.Check(ok, r1, mpc, "status byte then memory", nil, "on-disk status written (same index) before in-memory mark and counter", "the in-memory completion mark / counter is updated without the on-disk status byte of the same piece having been written successfully")
	}

	// R2: ownership
	r2 := r.Rule("R2", "E-OWN", "piece.status is stored only by the piece's own transition methods and at (re)construction; markComplete is called only by the status recorder; the completed counter is incremented only there", 4)
	statusWriters := map[string]bool{"tryMarkDirty": true, "markEmpty": true, "markComplete": true}
	for _, fn := range c.FuncsIn(pkgAgentSt) {
		if c.isFixture(fn) {
			continue
		}
		for _, st := range storesToField(fn, fStatus) {
			fa := st.Addr.(*ssa.FieldAddr)
			_, fresh := fa.X.(*ssa.Alloc)
			okw := statusWriters[fn.Name()] && recvTypeName(fn) == pkgAgentSt+".piece" || fresh ||
				fn.Name() == "restorePieces" // in-cache shortcut: every piece complete because the file is already committed
			r.Check(okw, r2, fn, "store piece.status", st, "transition method or construction", "piece.status is written outside the piece's transition methods")
		}
	}
	for _, cs := range c.CallsTo("(*" + pkgAgentSt + ".piece).markComplete") {
		if !c.isFixture(cs.Caller) {
			r.Check(mpc != nil && cs.Caller == mpc, r2, cs.Caller, "markComplete", cs.Instr, "only from the status recorder", "piece.markComplete is called outside the function that first writes the on-disk status")
		}
	}
	for _, fn := range c.FuncsIn(pkgAgentSt) {
		if c.isFixture(fn) {
			continue
		}
		for _, cs := range callsInNamed(fn, "(*go.uber.org/atomic.Int32).Inc", "(*go.uber.org/atomic.Int32).Add", "(*go.uber.org/atomic.Int32).Store") {
			if mentionsField(cs.Instr.Common().Args[0], pkgAgentSt+".Torrent.numComplete") {
				r.Check(mpc != nil && fn == mpc, r2, fn, "numComplete update", cs.Instr, "only in the status recorder", "the completed-piece counter is changed outside the status recorder")
			}
		}
	}

	// R3/R4: WritePiece
	r3 := r.Rule("R3", "E-PAIR(paths)", "the piece write is reached only after tryMarkDirty reported (not dirty, not complete); every path on which the write then fails resets the piece to empty", 1)
	r4 := r.Rule("R4", "E-GUARD", "the piece write is reached only after the index was validated (both bounds) and the payload length compared equal with the piece length of the same index; every index of Torrent.pieces is bounded", 3)
	if wp := r.MustFunc(r3, "(*"+pkgAgentSt+".Torrent).WritePiece"); wp != nil {
		for _, cs := range callsInNamed(wp, "(*"+pkgAgentSt+".Torrent).writePiece") {
			pi := cs.Instr.Common().Args[2]
			tmd := callsInNamed(wp, "(*"+pkgAgentSt+".piece).tryMarkDirty")
			okExcl := len(tmd) == 1
			if okExcl {
				for i := 0; i < 2; i++ {
					res := resultN(tmd[0].Instr, i)
					g := false
					for _, rv := range res {
						if guardedBy(cs.Instr, func(cond ssa.Value, val bool) int {
							if cond == rv {
								return tern(val, -1, 1)
							}
							return 0
						}) {
							g = true
						}
					}
					if !g {
						okExcl = false
					}
				}
			}
			// failure ⇒ markEmpty
			n, bad := 0, 0
			forEachPath(wp, 5000, func(p Path) {
				if !p.hasInstr(cs.Instr) || !p.failedOn(cs.Instr) {
					return
				}
				n++
				hit := false
				for _, me := range callsInNamed(wp, "(*"+pkgAgentSt+".piece).markEmpty") {
					if p.hasInstr(me.Instr) {
						hit = true
					}
				}
				if !hit {
					bad++
				}
			})
			r.Check(okExcl && n > 0 && bad == 0, r3, wp, "exclusive writer / reset on failure", cs.Instr, "empty→dirty won, reset on every failing path",
				fmt.Sprintf("exclusive-writer discipline broken (guarded by tryMarkDirty results=%v; %d of %d failing paths do not reset the piece)", okExcl, bad, n))
			// R4
			okB, why := indexBounded(c, wp, cs.Instr, pi, 0)
			okLen := guardedBy(cs.Instr, eqFact(func(b *ssa.BinOp) bool {
				l := func(v ssa.Value) bool { return mentionsCall(v, "(lib/torrent/storage.PieceReader).Length") }
				pl := func(v ssa.Value) bool {
					return mentions(v, func(w ssa.Value) bool {
						if cl, isC := w.(*ssa.Call); isC && (lastSeg(calleeName(cl.Common())) == "PieceLength" || lastSeg(calleeName(cl.Common())) == "GetPieceLength") {
							return sameIndexValue(cl.Call.Args[len(cl.Call.Args)-1], pi)
						}
						return false
					}, 5)
				}
				return l(b.X) && pl(b.Y) || l(b.Y) && pl(b.X)
			}, true))
			r.Check(okB && okLen, r4, wp, "index and length validated before write", cs.Instr, why,
				fmt.Sprintf("the piece write is reachable without validated index (%v: %s) or without payload length == piece length (%v): an over-long payload would overwrite the following piece on disk", okB, why, okLen))
		}
	}
	// R8: WritePiece resets the piece to empty whenever writePiece fails, so a
	// failure must not be reported once the piece was recorded complete (status
	// persisted, counter incremented): the piece would be empty but still counted,
	// its retry counted twice, and the commit would fire one piece early.
	r8 := r.Rule("R8", "E-ORDER(paths)", "in writePiece every path on which the status recorder (markPieceComplete) returned nil ends in a return that is provably nil (no later failure, no deferred closure that can overwrite the result)", 1)
	if wpi := r.MustFunc(r8, "(*"+pkgAgentSt+".Torrent).writePiece"); wpi != nil {
		var recInWrite []*CallSite
		for _, ri := range c03RecorderSites {
			if ri.Parent() == wpi {
				recInWrite = append(recInWrite, &CallSite{Caller: wpi, Instr: ri})
			}
		}
		for _, mc := range recInWrite {
			n, bad := 0, 0
			var where ssa.Instruction = mc.Instr
			forEachPath(wpi, 5000, func(p Path) {
				if !p.hasInstr(mc.Instr) || !p.succeeded(mc.Instr) {
					return
				}
				n++
				ret := p.ret()
				if ret == nil || classifyReturn(ret) != RetSuccess {
					bad++
					if ret != nil {
						where = ret
					}
				}
			})
			r.Check(n > 0 && bad == 0, r8, wpi, "no failure after the piece is recorded complete", where, fmt.Sprintf("%d path(s) after the recorder succeeded, all return nil", n),
				fmt.Sprintf("%d of %d paths on which the piece was already recorded complete can still report failure (e.g. through a deferred close that overwrites the result): WritePiece then marks a counted piece empty, its retry is counted twice and the torrent commits one piece early", bad, n))
		}
	}
	// all indexings of Torrent.pieces
	for _, fn := range c.FuncsIn(pkgAgentSt) {
		if c.isFixture(fn) {
			continue
		}
		instrsOf(fn, func(in ssa.Instruction) {
			ia, ok := in.(*ssa.IndexAddr)
			if !ok || !isPureLoadOf(ia.X, fPieces) {
				return
			}
			if fromRangeLoop(fn, ia.Index) {
				return
			}
			okB, why := indexBounded(c, fn, ia, ia.Index, 0)
			r.Check(okB, r4, fn, "index Torrent.pieces", ia, why, "Torrent.pieces is indexed with a value whose bounds are not both established: "+why)
		})
	}

	// R5: commit
	r5 := r.Rule("R5", "E-GUARD+E-ORDER/ok", "MoveDownloadFileToCache is called by the agent torrent only where the completed-piece count equals the number of pieces; committed becomes true only after that move returned nil or 'already exists'", 3)
	for _, cs := range agentMoveSites(c) {
		fn := cs.Fn
		ok := guardedBy(cs.Instr, eqFact(func(b *ssa.BinOp) bool {
			cnt := func(v ssa.Value) bool {
				return mentionsField(v, pkgAgentSt+".Torrent.numComplete") || mentions(v, func(w ssa.Value) bool {
					ex, isEx := w.(*ssa.Extract)
					return isEx && ex.Index == 1 && isCallTo(ex.Tuple, pkgAgentSt+".restorePieces")
				}, 4)
			}
			total := func(v ssa.Value) bool {
				return mentions(v, func(w ssa.Value) bool {
					if cl, isC := w.(*ssa.Call); isC {
						if bi, isB := cl.Call.Value.(*ssa.Builtin); isB && bi.Name() == "len" {
							return mentionsField(cl.Call.Args[0], fPieces) || mentionsCall(cl.Call.Args[0], pkgAgentSt+".restorePieces")
						}
					}
					return false
				}, 4)
			}
			return cnt(b.X) && total(b.Y) || cnt(b.Y) && total(b.X)
		}, true))
		r.Check(ok, r5, fn, "MoveDownloadFileToCache", cs.Instr, "all pieces complete", "the download file is moved to the cache on a path where the completed-piece count was not compared equal to the number of pieces")
	}
	for _, fn := range c.FuncsIn(pkgAgentSt) {
		if c.isFixture(fn) {
			continue
		}
		for _, cs := range callsInNamed(fn, "(*go.uber.org/atomic.Bool).Store") {
			if !mentionsField(cs.Instr.Common().Args[0], pkgAgentSt+".Torrent.committed") {
				continue
			}
			if !isBoolConst(cs.Instr.Common().Args[1], true) {
				continue
			}
			ok := false
			for _, mv := range agentMoveSitesIn(c, fn) {
				if inSuccessRegion(mv.Instr, cs.Instr, mv.Tolerated...) {
					ok = true
				}
			}
			r.Check(ok, r5, fn, "committed=true", cs.Instr, "after the move succeeded", "the torrent is reported complete although the move into the cache did not succeed")
		}
		// constructor: committed value true only on that branch
		instrsOf(fn, func(in ssa.Instruction) {
			cl, ok := in.(*ssa.Call)
			if !ok || calleeName(cl.Common()) != "go.uber.org/atomic.NewBool" {
				return
			}
			arg := cl.Call.Args[0]
			if isBoolConst(arg, false) {
				return
			}
			okc := false
			if phi, isPhi := arg.(*ssa.Phi); isPhi {
				okc = true
				for i, e := range phi.Edges {
					if isBoolConst(e, false) {
						continue
					}
					if !isBoolConst(e, true) {
						okc = false
						continue
					}
					pred := phi.Block().Preds[i]
					hit := false
					for _, mv := range agentMoveSitesIn(c, fn) {
						last := pred.Instrs[len(pred.Instrs)-1]
						if inSuccessRegion(mv.Instr, last, mv.Tolerated...) {
							hit = true
						}
					}
					if !hit {
						okc = false
					}
				}
			}
			r.Check(okc, r5, fn, "committed initial value", cl, "true only after the move", "a new torrent starts as committed on a path where the file was not moved to the cache")
		})
	}

	// R7: restored vector length
	r7 := r.Rule("R7", "E-GUARD", "the piece-status vector read back from disk is used only where its length was compared equal with the torrent's piece count", 1)
	if rp := r.MustFunc(r7, pkgAgentSt+".restorePieces"); rp != nil {
		const fMdPieces = pkgAgentSt + ".pieceStatusMetadata.pieces"
		n := 0
		for _, ret := range returnsOf(rp) {
			if classifyReturn(ret) == RetFailure || !mentionsField(ret.Results[0], fMdPieces) {
				continue
			}
			n++
			ok := guardedBy(ret, eqFact(func(b *ssa.BinOp) bool {
				ln := func(v ssa.Value) bool {
					cl, isC := v.(*ssa.Call)
					if !isC {
						return false
					}
					bi, isB := cl.Call.Value.(*ssa.Builtin)
					return isB && bi.Name() == "len" && mentionsField(cl.Call.Args[0], fMdPieces)
				}
				np := func(v ssa.Value) bool { return v == rp.Params[2] }
				return ln(b.X) && np(b.Y) || ln(b.Y) && np(b.X)
			}, true))
			r.Check(ok, r7, rp, "return restored vector", ret, "length == piece count", "the status vector deserialised from disk is returned without checking that its length is the piece count: an empty or foreign sidecar makes 0 of 0 pieces 'complete'")
		}
		if n == 0 {
			r.Undecided(r7, rp, "restored vector", nil, "no return of the deserialised vector recognised")
		}
	}
	_ = strings.TrimSpace
}
