package main

import (
	"fmt"
	"go/constant"
	"strings"

	"golang.org/x/tools/go/ssa"
)

func init() { register("C28", checkC28) }

func constString(v ssa.Value) (string, bool) {
	k, ok := v.(*ssa.Const)
	if !ok || k.Value == nil || k.Value.Kind() != constant.String {
		return "", false
	}
	return constant.StringVal(k.Value), true
}

// sprintfOperands returns the variadic operands of a fmt.Sprintf call.
func sprintfOperands(call ssa.CallInstruction) []ssa.Value {
	args := call.Common().Args
	if len(args) < 2 {
		return nil
	}
	sl, ok := args[1].(*ssa.Slice)
	if !ok {
		return nil
	}
	al, ok := sl.X.(*ssa.Alloc)
	if !ok {
		return nil
	}
	type iv struct {
		idx int64
		v   ssa.Value
	}
	var items []iv
	for _, r := range *al.Referrers() {
		ia, ok := r.(*ssa.IndexAddr)
		if !ok {
			continue
		}
		k, ok := ia.Index.(*ssa.Const)
		if !ok {
			continue
		}
		idx, _ := constant.Int64Val(k.Value)
		for _, r2 := range *ia.Referrers() {
			if st, ok := r2.(*ssa.Store); ok && st.Addr == ia {
				items = append(items, iv{idx, st.Val})
			}
		}
	}
	out := make([]ssa.Value, len(items))
	for _, it := range items {
		if int(it.idx) < len(out) {
			out[it.idx] = it.v
		}
	}
	return out
}

// separator-free producers (by type/format): hex encoders and decimal formatting.
var sepFreeCalls = []string{"(core.PeerID).String", "(core.InfoHash).Hex", "(core.InfoHash).String", "(core.Digest).Hex", "encoding/hex.EncodeToString", "strconv.Itoa", "strconv.FormatInt"}

func checkC28(c *Ctx, r *Report) {
	r.Explain = "Writer/reader agreement of the Redis peer record: the record is formatted with a constant separator; every %s operand is either separator-free by construction (hex id) or free-form (address). A parser that splits on every separator needs zero free-form operands; a parser anchored from both ends (Index for the fields before, LastIndex for the fields after) tolerates exactly one free-form operand in that position. Verb count and parser arity agree."
	r.NotDecided = "Round-trip equality of the separator-free fields (numeric parsing), Redis semantics, TTL windows."
	rule := r.Rule("R1", "E-CODEC", "peer record formatter and parser agree on arity, and every free-form string operand is parsed by anchoring, not by splitting on the separator", 1)
	const pkg = "tracker/peerstore"
	var ser ssa.CallInstruction
	var serFn *ssa.Function
	var format string
	for _, fn := range c.FuncsIn(pkg) {
		if c.isFixture(fn) {
			continue
		}
		for _, cs := range callsInNamed(fn, "fmt.Sprintf") {
			f, ok := constString(cs.Instr.Common().Args[0])
			if !ok || strings.Count(f, ":") < 2 {
				continue
			}
			ops := sprintfOperands(cs.Instr)
			usesPeer := false
			for _, o := range ops {
				if o != nil && mentions(o, func(v ssa.Value) bool {
					n, ok := fieldName(v)
					return ok && strings.HasPrefix(n, "core.PeerInfo.")
				}, 6) {
					usesPeer = true
				}
			}
			if usesPeer {
				ser, serFn, format = cs.Instr, fn, f
			}
		}
	}
	// the same record written with strings.Join([]string{…}, ":"): modelled as a
	// format of %s fields
	var joinOps []ssa.Value
	if ser == nil {
		for _, fn := range c.FuncsIn(pkg) {
			if c.isFixture(fn) {
				continue
			}
			for _, cs := range callsInNamed(fn, "strings.Join") {
				sep, ok := constString(cs.Instr.Common().Args[1])
				if !ok || sep != ":" {
					continue
				}
				elems := varargElems(cs.Instr.Common().Args[0])
				usesPeer := false
				for _, o := range elems {
					if mentions(o, func(v ssa.Value) bool {
						n, ok := fieldName(v)
						return ok && strings.HasPrefix(n, "core.PeerInfo.")
					}, 6) {
						usesPeer = true
					}
				}
				if usesPeer && len(elems) >= 3 {
					ser, serFn, joinOps = cs.Instr, fn, elems
					format = strings.TrimSuffix(strings.Repeat("%s:", len(elems)), ":")
				}
			}
		}
	}
	if ser == nil {
		r.Unresolved(rule, "no fmt.Sprintf / strings.Join of core.PeerInfo fields with ':' as the constant separator in "+pkg)
		return
	}
	var parser *ssa.Function
	for _, fn := range c.FuncsIn(pkg) {
		if c.isFixture(fn) {
			continue
		}
		if len(callsInNamed(fn, "core.NewPeerID")) > 0 && len(callsInNamed(fn, "strconv.Atoi")) > 0 {
			parser = fn
		}
	}
	if parser == nil {
		r.Unresolved(rule, "no peer record parser (core.NewPeerID + strconv.Atoi) in "+pkg)
		return
	}
	r.Analysed(serFn, parser)
	// verbs
	var verbs []byte
	for i := 0; i < len(format); i++ {
		if format[i] == '%' && i+1 < len(format) {
			if format[i+1] == '%' {
				i++
				continue
			}
			verbs = append(verbs, format[i+1])
			i++
		}
	}
	fields := strings.Split(format, ":")
	ops := sprintfOperands(ser)
	if joinOps != nil {
		ops = joinOps
	}
	if len(ops) != len(verbs) || len(fields) != len(verbs) {
		r.Undecided(rule, serFn, "format", ser, fmt.Sprintf("format %q: %d verbs, %d operands, %d fields", format, len(verbs), len(ops), len(fields)))
		return
	}
	var free []int
	for i, vb := range verbs {
		switch vb {
		case 'd', 'x', 't':
			continue
		case 's', 'v':
			if mentions(ops[i], func(v ssa.Value) bool { return isCallTo(v, sepFreeCalls...) }, 5) {
				continue
			}
			// a value that is one of a few string constants without the separator
			if allSepFreeConsts(ops[i]) {
				continue
			}
			free = append(free, i)
		default:
			free = append(free, i)
		}
	}
	// the parser and the private helpers it delegates the splitting to
	isSep := func(v ssa.Value) bool {
		if s, ok := constString(v); ok {
			return s == ":"
		}
		if k, ok := intConst(v); ok {
			return k == ':'
		}
		return true
	}
	nSplit := len(callsDeep(parser, 1, "strings.Split"))
	nIdx, nLast := 0, 0
	for _, ci := range callsDeep(parser, 1, "strings.Index", "strings.IndexByte", "strings.IndexRune") {
		if isSep(ci.Common().Args[1]) {
			nIdx++
		}
	}
	for _, ci := range callsDeep(parser, 1, "strings.LastIndex", "strings.LastIndexByte") {
		if isSep(ci.Common().Args[1]) {
			nLast++
		}
	}
	switch {
	case nSplit > 0 && nIdx+nLast == 0:
		// arity constant
		arityOK := false
		instrsOf(parser, func(in ssa.Instruction) {
			if b, ok := in.(*ssa.BinOp); ok {
				if k, ok := b.Y.(*ssa.Const); ok && k.Value != nil && k.Value.Kind() == constant.Int {
					if n, _ := constant.Int64Val(k.Value); int(n) == len(verbs) && mentionsCall(b.X, "strings.Split") {
						arityOK = true
					}
				}
			}
		})
		r.Check(arityOK, rule, parser, "arity", nil, fmt.Sprintf("parser expects %d parts", len(verbs)), "parser's part count does not match the formatter's field count")
		r.Check(len(free) == 0, rule, parser, "split parser vs free-form operands", ser, "all operands separator-free",
			fmt.Sprintf("the record is split on every ':' but operand(s) %v of format %q are free-form strings (an IPv6 address or any value containing ':' cannot be read back)", free, format))
	case nIdx+nLast > 0 && nSplit == 0:
		ok := len(free) <= 1
		if ok && len(free) == 1 {
			ok = nIdx == free[0] && nLast == len(verbs)-1-free[0]
		}
		if ok && len(free) == 0 {
			ok = nIdx+nLast == len(verbs)-1
		}
		r.Check(ok, rule, parser, "anchored parser vs free-form operands", ser, fmt.Sprintf("free-form operand %v between %d leading and %d trailing anchored fields", free, nIdx, nLast),
			fmt.Sprintf("anchored parser (Index×%d, LastIndex×%d) does not match format %q with free-form operands %v", nIdx, nLast, format, free))
	default:
		r.Undecided(rule, parser, "parser form", nil, fmt.Sprintf("unrecognised parser idiom (Split=%d Index=%d LastIndex=%d)", nSplit, nIdx, nLast))
	}
	// each parsed component feeds the right constructor: id through NewPeerID, port through Atoi
	r2 := r.Rule("R2", "flow", "the parsed identity is built from NewPeerID(first field), the free-form address slice and Atoi(port field); the complete flag compares the last field with the same literal the formatter writes", 1)
	okc := false
	instrsOf(parser, func(in ssa.Instruction) {
		if b, ok := in.(*ssa.BinOp); ok {
			if s, ok := constString(b.Y); ok && s == "1" {
				okc = true
			}
		}
	})
	// formatter writes 1 for complete: a store of const 1 guarded by PeerInfo.Complete
	ser1 := false
	isOne := func(v ssa.Value) bool {
		if k, ok := v.(*ssa.Const); ok && k.Value != nil {
			if k.Value.Kind() == constant.Int {
				n, _ := constant.Int64Val(k.Value)
				return n == 1
			}
			if k.Value.Kind() == constant.String {
				return constant.StringVal(k.Value) == "1"
			}
		}
		return false
	}
	instrsDeep(serFn, 1, func(_ *ssa.Function, in ssa.Instruction) {
		switch x := in.(type) {
		case *ssa.Phi:
			for _, e := range x.Edges {
				if isOne(e) {
					ser1 = true
				}
			}
		case *ssa.Return:
			// a helper that encodes the flag: `return 1` on the complete side
			for _, rv := range x.Results {
				if isOne(rv) && x.Parent() != serFn {
					ser1 = true
				}
			}
		}
	})
	r.Check(okc && ser1, r2, parser, "complete flag literal", nil, "writer emits 1 / reader compares with \"1\"", "complete flag literal differs between writer and reader")
}
