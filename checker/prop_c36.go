package main

import (
	"fmt"
	"go/constant"
	"go/token"
	"go/types"
	"regexp"
	"sort"
	"strings"

	"golang.org/x/tools/go/ssa"
)

func init() { register("C36", checkC36) }

const pkgNP = "lib/backend/namepath"

// varargElems returns the elements stored into the array behind a variadic slice.
func varargElems(v ssa.Value) []ssa.Value {
	sl, ok := v.(*ssa.Slice)
	if !ok {
		return nil
	}
	al, ok := sl.X.(*ssa.Alloc)
	if !ok {
		return nil
	}
	m := map[int64]ssa.Value{}
	max := int64(-1)
	for _, r := range *al.Referrers() {
		ia, ok := r.(*ssa.IndexAddr)
		if !ok {
			continue
		}
		k, ok := ia.Index.(*ssa.Const)
		if !ok {
			return nil
		}
		idx, _ := constant.Int64Val(k.Value)
		for _, r2 := range *ia.Referrers() {
			if st, ok := r2.(*ssa.Store); ok && st.Addr == ia {
				m[idx] = st.Val
				if idx > max {
					max = idx
				}
			}
		}
	}
	out := make([]ssa.Value, max+1)
	for i, v := range m {
		out[i] = v
	}
	for _, v := range out {
		if v == nil {
			return nil
		}
	}
	return out
}

// patherSeg is one "/"-separated segment of a path scheme.
type patherSeg struct {
	lit   string    // literal text, or ""
	v     ssa.Value // variable part (builder side)
	pat   string    // pattern text (parser side, non-literal)
	group int       // capture group number (parser side), 0 if none
}

// pathers returns the concrete pather types of the namepath package by name -> methods.
func patherImpls(c *Ctx) map[string]map[string]*ssa.Function {
	out := map[string]map[string]*ssa.Function{}
	for _, fn := range c.FuncsIn(pkgNP) {
		if c.isFixture(fn) || fn.Signature.Recv() == nil || fn.Parent() != nil {
			continue
		}
		switch fn.Name() {
		case "BlobPath", "NameFromBlobPath", "BasePath":
			t := typeName(fn.Signature.Recv().Type())
			if out[t] == nil {
				out[t] = map[string]*ssa.Function{}
			}
			out[t][fn.Name()] = fn
		}
	}
	return out
}

// normalisedRoot: v is the configured root (or something built from it) in the
// cleaned form path.Join produces: a path.Join/path.Clean result, a BasePath() call
// of a type whose BasePath returns only such results, that value passed through
// regexp.QuoteMeta, or such a value extended by constants / by a phi of such values.
func normalisedRoot(v ssa.Value, impls map[string]map[string]*ssa.Function, depth int) bool {
	if depth > 6 {
		return false
	}
	switch x := v.(type) {
	case *ssa.Call:
		cn := calleeName(x.Common())
		switch cn {
		case "path.Join", "path.Clean":
			return true
		case "regexp.QuoteMeta":
			return normalisedRoot(x.Call.Args[0], impls, depth+1)
		}
		if sf := x.Common().StaticCallee(); sf != nil && sf.Name() == "BasePath" && sf.Signature.Recv() != nil {
			if m := impls[typeName(sf.Signature.Recv().Type())]; m != nil && m["BasePath"] == sf {
				for _, ret := range returnsOf(sf) {
					if !normalisedRoot(unspill(ret.Results[0]), impls, depth+1) {
						return false
					}
				}
				return true
			}
		}
	case *ssa.BinOp:
		if x.Op == token.ADD {
			_, cy := constString(x.Y)
			return cy && normalisedRoot(x.X, impls, depth+1)
		}
	case *ssa.Phi:
		for _, e := range x.Edges {
			if !normalisedRoot(e, impls, depth+1) {
				return false
			}
		}
		return true
	}
	return false
}

// rawRootUses lists the uses of the receiver's root field (or of a BasePath() that
// is not in cleaned form) in fn that are not an argument of path.Join/path.Clean.
func rawRootUses(fn *ssa.Function, rootField string, impls map[string]map[string]*ssa.Function) []ssa.Instruction {
	var bad []ssa.Instruction
	var follow func(v ssa.Value, at ssa.Instruction, depth int)
	follow = func(v ssa.Value, at ssa.Instruction, depth int) {
		refs := v.Referrers()
		if refs == nil || depth > 4 {
			return
		}
		for _, rf := range *refs {
			switch y := rf.(type) {
			case *ssa.DebugRef:
			case *ssa.Store:
				// into a variadic array: follow the slice to its call
				if ia, ok := y.Addr.(*ssa.IndexAddr); ok && y.Val == v {
					if al, ok := ia.X.(*ssa.Alloc); ok {
						for _, r2 := range *al.Referrers() {
							if sl, ok := r2.(*ssa.Slice); ok {
								follow(sl, y, depth+1)
							}
						}
						continue
					}
				}
				bad = append(bad, y)
			case ssa.CallInstruction:
				switch calleeName(y.Common()) {
				case "path.Join", "path.Clean":
				default:
					bad = append(bad, y)
				}
			case *ssa.BinOp:
				// an emptiness test of the root cuts nothing and compares nothing
				// positional: the empty root is its own cleaned form for path.Join
				if s, isS := constString(y.X); isS && s == "" && (y.Op == token.EQL || y.Op == token.NEQ) {
					continue
				}
				if s, isS := constString(y.Y); isS && s == "" && (y.Op == token.EQL || y.Op == token.NEQ) {
					continue
				}
				bad = append(bad, rf)
			default:
				bad = append(bad, rf)
			}
		}
	}
	instrsOf(fn, func(in ssa.Instruction) {
		switch x := in.(type) {
		case *ssa.UnOp:
			if x.Op == token.MUL && isFieldRef(x.X, rootField) {
				follow(x, x, 0)
			}
		case *ssa.Field:
			if n, ok := fieldName(x); ok && n == rootField {
				follow(x, x, 0)
			}
		case *ssa.Call:
			if sf := x.Common().StaticCallee(); sf != nil && sf.Name() == "BasePath" && !normalisedRoot(x, impls, 0) {
				follow(x, x, 0)
			}
		}
	})
	return bad
}

func checkC36(c *Ctx, r *Report) {
	r.Explain = "Agreement between each path scheme's builder (BlobPath) and parser (NameFromBlobPath), decided from their own constants and dataflow: (R1) the configured root reaches the parser's prefix test, length or pattern only in the cleaned form in which path.Join puts it into built paths (so a trailing slash or an empty root cannot shift the cut); (R2) a root that is compiled into a regular expression passes through regexp.QuoteMeta; (R3) segment by segment, the literals of the built path equal the literals of the parser's pattern, every variable segment of the builder faces a non-literal pattern segment of the same width where the width is fixed, and the name is re-assembled from the capture groups facing the name's parts, in order, with the separator the builder split on; a prefix-stripping parser cuts exactly at the length of the prefix it tested; (R4) every scheme New can return has both directions."
	r.NotDecided = "Round-trip equality as such for every name (greedy matching across names that contain the scheme's own literals, names path.Join would clean); validity of names."
	impls := patherImpls(c)
	var tnames []string
	for t, m := range impls {
		if m["BlobPath"] != nil && m["NameFromBlobPath"] != nil {
			tnames = append(tnames, t)
		}
	}
	sort.Strings(tnames)

	r4 := r.Rule("R4", "E-EXHAUSTIVE", "every path scheme of the namepath package (every type with a BlobPath, NameFromBlobPath or BasePath method — whatever way New dispatches to them) has both a builder and a parser, and is analysed by R1-R3", 3)
	if nw := r.MustFunc(r4, pkgNP+".New"); nw != nil {
		var all []string
		for t := range impls {
			all = append(all, t)
		}
		sort.Strings(all)
		for _, t := range all {
			m := impls[t]
			var anchor *ssa.Function
			for _, n := range []string{"BasePath", "NameFromBlobPath", "BlobPath"} {
				if m[n] != nil {
					anchor = m[n]
				}
			}
			r.Check(m["BlobPath"] != nil && m["NameFromBlobPath"] != nil, r4, anchor, "scheme "+short(t), nil, "builder and parser found", "a path scheme has no analysable builder/parser pair")
		}
	}

	r1 := r.Rule("R1", "E-CODEC/normalisation", "in NameFromBlobPath (and the BasePath it uses) the root field is used only as an argument of path.Join/path.Clean; BlobPath's result is a path.Join whose first element is the root or BasePath()", 3)
	r2 := r.Rule("R2", "E-TAINT", "every non-constant operand of a pattern given to regexp.Compile/MustCompile in a parser passes through regexp.QuoteMeta", 2)
	r3 := r.Rule("R3", "E-CODEC", "builder segments and parser pattern segments agree (literals equal, variables face non-literal segments, fixed widths equal, captures re-assembled in order with the builder's separator); prefix parsers cut at len(tested prefix)", 3)
	{
		var parsers []*ssa.Function
		for _, t := range tnames {
			parsers = append(parsers, impls[t]["NameFromBlobPath"])
		}
		defer rulesSeparatorAtRoot(c, r, parsers)
	}
	for _, t := range tnames {
		bld, prs := impls[t]["BlobPath"], impls[t]["NameFromBlobPath"]
		// the root is the scheme's only string field, whatever it is called
		rootField := t + "." + fieldByType(c, t, "string", "root")
		// ---- builder shape
		var join *ssa.Call
		okB := true
		for _, ret := range returnsOf(bld) {
			if classifyReturn(ret) == RetFailure {
				continue
			}
			cl, ok := unspill(ret.Results[0]).(*ssa.Call)
			if !ok || calleeName(cl.Common()) != "path.Join" || (join != nil && join != cl) {
				okB = false
				continue
			}
			join = cl
		}
		var elems []ssa.Value
		if join != nil {
			elems = varargElems(join.Call.Args[0])
		}
		if !okB || join == nil || len(elems) < 2 {
			r.Undecided(r1, bld, "builder shape", nil, "BlobPath does not return a single path.Join(base, ...) with a known element list")
			continue
		}
		base := elems[0]
		baseOK := isPureLoadOf(base, rootField) || normalisedRoot(base, impls, 0)
		if f, ok := base.(*ssa.Field); ok {
			if n, ok2 := fieldName(f); ok2 && n == rootField {
				baseOK = true
			}
		}
		r.Check(baseOK, r1, bld, "builder base", join, "path.Join(root or BasePath(), ...)", "the built path does not start with the scheme's root/base path")
		// ---- R1: raw root uses in the parser
		bad := rawRootUses(prs, rootField, impls)
		if bp := impls[t]["BasePath"]; bp != nil && len(callsInNamed(prs, funcName(bp))) > 0 {
			bad = append(bad, rawRootUses(bp, rootField, impls)...)
		}
		if len(bad) == 0 {
			r.OK(r1, prs, "root only in cleaned form", nil, true, "root reaches the parser through path.Join/path.Clean only")
		}
		for _, b := range bad {
			r.Bad(r1, prs, "raw root used by the parser", b, "the parser uses the configured root as written although built paths contain it in path.Join's cleaned form: with a root ending in '/' (or an empty root) the name is cut at the wrong offset or the path is rejected")
		}
		// ---- builder segments
		nameParam := bld.Params[1]
		var bsegs []patherSeg
		var splitSep string
		for _, e := range elems[1:] {
			if s, ok := constString(e); ok {
				for _, part := range strings.Split(strings.Trim(s, "/"), "/") {
					bsegs = append(bsegs, patherSeg{lit: part})
				}
				continue
			}
			bsegs = append(bsegs, patherSeg{v: e})
		}
		// classify a builder variable: whole name, i-th part of Split(name, sep), or prefix slice of width w
		classify := func(v ssa.Value) (kind string, idx int64) {
			if v == ssa.Value(nameParam) {
				return "whole", 0
			}
			if sl, ok := v.(*ssa.Slice); ok && sl.X == ssa.Value(nameParam) && sl.Low == nil && sl.High != nil {
				if w, ok := intConst(sl.High); ok {
					return "prefix", w
				}
			}
			if u, ok := v.(*ssa.UnOp); ok && u.Op == token.MUL {
				if ia, ok := u.X.(*ssa.IndexAddr); ok {
					if cl, ok := ia.X.(*ssa.Call); ok && calleeName(cl.Common()) == "strings.Split" && cl.Call.Args[0] == ssa.Value(nameParam) {
						if sep, ok := constString(cl.Call.Args[1]); ok {
							if i, ok := intConst(ia.Index); ok {
								splitSep = sep
								return "part", i
							}
						}
					}
				}
			}
			// before/after of strings.Cut(name, sep) are parts 0 and 1
			if ex, ok := v.(*ssa.Extract); ok && ex.Index <= 1 {
				if cl, ok := ex.Tuple.(*ssa.Call); ok && calleeName(cl.Common()) == "strings.Cut" && cl.Call.Args[0] == ssa.Value(nameParam) {
					if sep, ok := constString(cl.Call.Args[1]); ok {
						splitSep = sep
						return "part", int64(ex.Index)
					}
				}
			}
			return "other", 0
		}
		// expandBase spells a base out as [root, literal segments…]: the root field,
		// path.Join(base, "lit/lit"), path.Clean(base), BasePath() of the scheme, or any
		// of these under regexp.QuoteMeta. It lets the comparison start at the root on
		// both sides, however the literals are distributed between BasePath and the
		// builder/parser themselves.
		var expandBase func(v ssa.Value, d int) ([]patherSeg, bool)
		expandBase = func(v ssa.Value, d int) ([]patherSeg, bool) {
			if d > 5 {
				return nil, false
			}
			if isPureLoadOf(v, rootField) {
				return []patherSeg{{lit: "\x00root"}}, true
			}
			cl, ok := v.(*ssa.Call)
			if !ok {
				return nil, false
			}
			switch calleeName(cl.Common()) {
			case "regexp.QuoteMeta", "path.Clean":
				return expandBase(cl.Call.Args[0], d+1)
			case "path.Join":
				es := varargElems(cl.Call.Args[0])
				if len(es) == 0 {
					return nil, false
				}
				segs, ok := expandBase(es[0], d+1)
				if !ok {
					return nil, false
				}
				for _, e := range es[1:] {
					s, isC := constString(e)
					if !isC {
						return nil, false
					}
					for _, part := range strings.Split(strings.Trim(s, "/"), "/") {
						segs = append(segs, patherSeg{lit: part})
					}
				}
				return segs, true
			}
			if sf := cl.Common().StaticCallee(); sf != nil && sf.Name() == "BasePath" && impls[t]["BasePath"] == sf {
				var out []patherSeg
				n := 0
				for _, ret := range returnsOf(sf) {
					segs, ok := expandBase(unspill(ret.Results[0]), d+1)
					if !ok || n > 0 {
						return nil, false
					}
					out = segs
					n++
				}
				return out, n == 1
			}
			return nil, false
		}
		// ---- parser shape
		var compiles []*CallSite
		compiles = append(compiles, callsInNamed(prs, "regexp.MustCompile", "regexp.Compile")...)
		if len(compiles) == 0 {
			// the pattern may be built by a helper method of the scheme that the parser calls
			for _, cs := range callsIn(prs) {
				if sf := cs.Instr.Common().StaticCallee(); sf != nil && sf.Pkg == prs.Pkg && recvTypeName(sf) == t {
					compiles = append(compiles, callsInNamed(sf, "regexp.MustCompile", "regexp.Compile")...)
				}
			}
		}
		bpParam := prs.Params[1]
		switch {
		case len(compiles) == 1:
			pat := compiles[0].Instr.Common().Args[0]
			// flatten the concatenation
			var ops []ssa.Value
			var flat func(v ssa.Value)
			flat = func(v ssa.Value) {
				if b, ok := v.(*ssa.BinOp); ok && b.Op == token.ADD {
					flat(b.X)
					flat(b.Y)
					return
				}
				ops = append(ops, v)
			}
			flat(pat)
			tail := ""
			okShape := len(ops) >= 2
			for i, o := range ops {
				s, isC := constString(o)
				if i == 0 {
					quoted := isCallTo(o, "regexp.QuoteMeta")
					r.Check(quoted || isC, r2, prs, "pattern operand", compiles[0].Instr, "root quoted before compilation", "a configured root is compiled into the parser's regular expression unquoted: a root containing a metacharacter makes the scheme reject (or panic on) its own paths")
					if !normalisedRoot(o, impls, 0) {
						okShape = false
					}
					continue
				}
				if !isC {
					r.Check(isCallTo(o, "regexp.QuoteMeta"), r2, prs, "pattern operand", compiles[0].Instr, "quoted", "a non-constant string is compiled into the parser's regular expression unquoted")
					okShape = false
					continue
				}
				tail += s
			}
			if !okShape || !strings.HasPrefix(tail, "/") {
				r.Undecided(r3, prs, "pattern shape", compiles[0].Instr, "the parser's pattern is not <base> + constant tail starting with '/'")
				continue
			}
			var psegs []patherSeg
			g := 0
			for _, part := range strings.Split(strings.TrimPrefix(strings.TrimSuffix(tail, "$"), "/"), "/") {
				if regexp.QuoteMeta(part) == part {
					psegs = append(psegs, patherSeg{lit: part})
					continue
				}
				sg := patherSeg{pat: part}
				if strings.HasPrefix(part, "(") && !strings.HasPrefix(part, "(?:") {
					g++
					sg.group = g
				}
				psegs = append(psegs, sg)
			}
			// compare from the root when both bases can be spelled out
			bsegs := append([]patherSeg{}, bsegs...)
			if bb, ok1 := expandBase(elems[0], 0); ok1 {
				if pb, ok2 := expandBase(ops[0], 0); ok2 {
					bsegs = append(bb, bsegs...)
					psegs = append(pb, psegs...)
				}
			}
			ok := len(psegs) == len(bsegs)
			why := fmt.Sprintf("builder has %d segments after the base, the pattern %d", len(bsegs), len(psegs))
			groupOf := map[string]int{} // builder variable kind/idx -> capture group
			nparts := 0
			if ok {
				for i := range bsegs {
					b, p := bsegs[i], psegs[i]
					switch {
					case b.v == nil && p.pat == "":
						if b.lit != p.lit {
							ok, why = false, fmt.Sprintf("segment %d: builder writes %q, parser expects %q", i+1, b.lit, p.lit)
						}
					case b.v == nil || p.pat == "":
						ok, why = false, fmt.Sprintf("segment %d: literal on one side, variable on the other", i+1)
					default:
						kind, idx := classify(b.v)
						switch kind {
						case "prefix":
							if strings.Trim(p.pat, ".") != "" || int64(len(p.pat)) != idx {
								ok, why = false, fmt.Sprintf("segment %d: builder writes the first %d characters of the name, the pattern %q has another width", i+1, idx, p.pat)
							}
						case "whole":
							groupOf["whole"] = p.group
						case "part":
							groupOf[fmt.Sprintf("part%d", idx)] = p.group
							nparts++
						default:
							ok, why = false, fmt.Sprintf("segment %d: unrecognised builder variable", i+1)
						}
						if (kind == "whole" || kind == "part") && p.group == 0 {
							ok, why = false, fmt.Sprintf("segment %d: the name part is not captured by the pattern", i+1)
						}
					}
					if !ok {
						break
					}
				}
			}
			// re-assembly
			if ok {
				matchIdx := func(v ssa.Value) (int64, bool) {
					u, isU := v.(*ssa.UnOp)
					if !isU || u.Op != token.MUL {
						return 0, false
					}
					ia, isIA := u.X.(*ssa.IndexAddr)
					if !isIA || !isCallTo(ia.X, "(*regexp.Regexp).FindStringSubmatch") {
						return 0, false
					}
					return intConst(ia.Index)
				}
				for _, ret := range returnsOf(prs) {
					if classifyReturn(ret) == RetFailure {
						continue
					}
					v := unspill(ret.Results[0])
					if gi, isM := matchIdx(v); isM {
						if g0, has := groupOf["whole"]; !has || int64(g0) != gi || nparts != 0 {
							ok, why = false, fmt.Sprintf("the parser returns capture %d, which does not face the whole name in the builder", gi)
						}
						continue
					}
					// plain concatenation: capture, separator, capture, …
					if _, isB := v.(*ssa.BinOp); isB {
						var parts []ssa.Value
						var flatS func(x ssa.Value)
						flatS = func(x ssa.Value) {
							if b, ok2 := x.(*ssa.BinOp); ok2 && b.Op == token.ADD {
								flatS(b.X)
								flatS(b.Y)
								return
							}
							parts = append(parts, x)
						}
						flatS(v)
						good := nparts > 0 && len(parts) == 2*nparts-1
						for i := 0; good && i < len(parts); i++ {
							if i%2 == 1 {
								s, isS := constString(parts[i])
								good = isS && s == splitSep
								continue
							}
							gi, isM := matchIdx(parts[i])
							good = isM && int64(groupOf[fmt.Sprintf("part%d", i/2)]) == gi
						}
						if !good {
							ok, why = false, "the name is re-assembled by a concatenation that does not join the capture groups of the name's parts, in order, with the builder's separator"
						}
						continue
					}
					cl, isC := v.(*ssa.Call)
					if !isC || calleeName(cl.Common()) != "fmt.Sprintf" {
						ok, why = false, "unrecognised re-assembly of the name"
						continue
					}
					f, _ := constString(cl.Call.Args[0])
					opsS := sprintfOperands(cl)
					want := strings.TrimSuffix(strings.Repeat("%s"+splitSep, nparts), splitSep)
					if nparts == 0 || f != want || len(opsS) != nparts {
						ok, why = false, fmt.Sprintf("the name is re-assembled with format %q, the builder splits %d parts on %q", f, nparts, splitSep)
						continue
					}
					for i, o := range opsS {
						if mi, isMI := o.(*ssa.MakeInterface); isMI {
							o = mi.X
						}
						gi, isM := matchIdx(o)
						if !isM || int64(groupOf[fmt.Sprintf("part%d", i)]) != gi {
							ok, why = false, fmt.Sprintf("part %d of the name is re-assembled from the wrong capture group", i)
						}
					}
				}
			}
			r.Check(ok, r3, prs, "segments agree", compiles[0].Instr, fmt.Sprintf("%d segments, literals and captures agree", len(bsegs)), "the scheme's builder and parser disagree ("+why+"): listed names differ from uploaded names")
		case len(compiles) == 0:
			// prefix-stripping parser: builder must be Join(base, name)
			kind := "other"
			if len(bsegs) == 1 && bsegs[0].v != nil {
				kind, _ = classify(bsegs[0].v)
			}
			ok := kind == "whole"
			why := "the builder is not path.Join(root, name)"
			n := 0
			for _, ret := range returnsOf(prs) {
				if classifyReturn(ret) == RetFailure {
					continue
				}
				n++
				// strings.CutPrefix(bp, x): the remainder, on the side where it reported a match
				if ex, isEx := unspill(ret.Results[0]).(*ssa.Extract); isEx && ex.Index == 0 {
					if cp, isC := ex.Tuple.(*ssa.Call); isC && calleeName(cp.Common()) == "strings.CutPrefix" && cp.Call.Args[0] == ssa.Value(bpParam) {
						found := guardedBy(ret, func(cond ssa.Value, val bool) int {
							if e2, isE2 := cond.(*ssa.Extract); isE2 && e2.Index == 1 && e2.Tuple == ex.Tuple {
								return tern(val, 1, -1)
							}
							return 0
						})
						if !found {
							ok, why = false, "the remainder of CutPrefix is returned without testing that the prefix was found"
						}
						if !mentions(cp.Call.Args[1], func(v ssa.Value) bool { return isCallTo(v, "path.Join", "path.Clean") }, 6) {
							ok, why = false, "the stripped prefix is not derived from the cleaned root"
						}
						continue
					}
				}
				sl, isS := unspill(ret.Results[0]).(*ssa.Slice)
				if !isS || sl.X != ssa.Value(bpParam) || sl.High != nil || sl.Low == nil {
					ok, why = false, "the parser does not return a suffix of the path"
					continue
				}
				ln, isL := sl.Low.(*ssa.Call)
				if !isL || calleeName(ln.Common()) != "builtin.len" {
					ok, why = false, "the cut offset is not exactly the length of a tested prefix (an added constant assumes a separator that a cleaned root may already contain or lack)"
					continue
				}
				pfx := ln.Call.Args[0]
				tested := guardedBy(ret, func(cond ssa.Value, val bool) int {
					if cl, isC := cond.(*ssa.Call); isC && calleeName(cl.Common()) == "strings.HasPrefix" && cl.Call.Args[0] == ssa.Value(bpParam) && cl.Call.Args[1] == pfx {
						return tern(val, 1, -1)
					}
					return 0
				})
				if !tested {
					ok, why = false, "the name is cut at the length of a prefix the path was not tested to start with"
				}
				if !mentions(pfx, func(v ssa.Value) bool { return isCallTo(v, "path.Join", "path.Clean") }, 6) {
					ok, why = false, "the stripped prefix is not derived from the cleaned root"
				}
			}
			r.Check(ok && n > 0, r3, prs, "prefix cut", nil, "suffix after the tested, cleaned prefix", "the prefix-stripping parser disagrees with the builder ("+why+")")
		default:
			r.Undecided(r3, prs, "parser shape", nil, "more than one pattern compiled")
		}
	}
	_ = types.Typ
}
