package main

import (
	"go/types"

	"golang.org/x/tools/go/ssa"
)

// rulesRegenWritesMetadata (C05.R5): the property tolerates a metainfo sidecar
// that is missing after a crash only because a metainfo request regenerates it,
// and that regeneration ends in CAStore.writeCacheFile with addMetadata=true.
// So: every path through writeCacheFile that can return success either is on
// the addMetadata==false side or passes the call that generates the metadata
// from the cached file — in particular the "blob already in the cache" path
// (which is exactly the post-crash situation) must not return early.
func rulesRegenWritesMetadata(c *Ctx, r *Report) {
	r5 := r.Rule("R5", "E-ORDER(path)", "every path through CAStore.writeCacheFile that may return success is on the addMetadata==false side or passes the metadata-generation call (also when the blob is already in the cache)", 1)
	wf := r.MustFunc(r5, "(*lib/store.CAStore).writeCacheFile")
	if wf == nil {
		return
	}
	var flag, plen *ssa.Parameter
	for _, p := range wf.Params {
		if b, ok := p.Type().Underlying().(*types.Basic); ok {
			switch b.Kind() {
			case types.Bool:
				flag = p
			case types.Int64:
				plen = p
			}
		}
	}
	// the generator is the call of a function of the package that receives the piece length
	var gens []ssa.CallInstruction
	if plen != nil {
		for _, cs := range callsIn(wf) {
			h := cs.Instr.Common().StaticCallee()
			if h == nil || h.Pkg != wf.Pkg {
				continue
			}
			for _, a := range cs.Instr.Common().Args {
				if a == ssa.Value(plen) {
					gens = append(gens, cs.Instr)
				}
			}
		}
	}
	if flag == nil || len(gens) == 0 {
		r.Unresolved(r5, "writeCacheFile has no bool flag / no call receiving the piece length")
		return
	}
	off := condEdges(flag, false)
	bad := ""
	n := 0
	complete := forEachPath(wf, 4000, func(p Path) {
		ret := p.ret()
		if ret == nil || classifyReturn(ret) == RetFailure {
			return
		}
		n++
		for _, g := range gens {
			if p.hasInstr(g) {
				return
			}
		}
		for _, e := range off {
			if p.hasEdge(e) {
				return
			}
		}
		bad = c.posStr(ret.Pos())
	})
	r.Check(complete && bad == "" && n > 0, r5, wf, "success ⇒ metadata generated (when asked)", nil, "every non-failing path generates the metadata or has addMetadata==false",
		"writeCacheFile can return without generating the metainfo although addMetadata is set (return at "+bad+"): after a crash between the commit of a blob and the write of its metainfo, the on-demand refresh finds the blob already cached, reports success and never writes the metainfo — the blob stays un-seedable")
}
