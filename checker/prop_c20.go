package main

import (
	"strings"

	"golang.org/x/tools/go/ssa"
)

func init() { register("C20", checkC20) }

const pkgAQ = "lib/torrent/scheduler/announcequeue"

func checkC20(c *Ctx, r *Report) {
	r.Explain = "Announce-queue move semantics over its two containers (ready list, pending set): Next moves the front element ready→pending; Ready moves pending→ready only when the torrent is pending; Eject clears both containers; Add only appends; only FIFO primitives are ever invoked on the list; Add is reached only when no control exists for the torrent; Ready is raised only by the events that end an announce (or for entries skipped in the same tick); the queue is confined to the event loop."
	r.NotDecided = "Multiset facts over histories (that the ready list never holds a hash twice) follow from these rules plus 'Add at most once per control' but are not proved inductively."
	const fReady = pkgAQ + ".QueueImpl.readyQueue"
	const fPend = pkgAQ + ".QueueImpl.pending"
	onReady := func(cs *CallSite, m string) bool {
		return cs.Callee == "(*container/list.List)."+m && len(cs.Instr.Common().Args) > 0 && mentionsField(cs.Instr.Common().Args[0], fReady)
	}
	listCalls := func(fn *ssa.Function, m string) []*CallSite {
		var out []*CallSite
		for _, cs := range callsIn(fn) {
			if onReady(cs, m) {
				out = append(out, cs)
			}
		}
		return out
	}
	pendStores := func(fn *ssa.Function) (sets []*ssa.MapUpdate, dels []ssa.Instruction) {
		instrsOf(fn, func(in ssa.Instruction) {
			switch x := in.(type) {
			case *ssa.MapUpdate:
				if mentionsField(x.Map, fPend) {
					sets = append(sets, x)
				}
			default:
				if isMapDeleteOn(in, fPend) {
					dels = append(dels, in)
				}
			}
		})
		return
	}

	r2 := r.Rule("R2", "E-OWN", "only FIFO primitives (PushBack, Front, Remove, Len, Init and element Next) are invoked on the ready list; the list and the pending set are touched only by QueueImpl methods", 4)
	allowed := map[string]bool{"PushBack": true, "Front": true, "Remove": true, "Len": true, "Init": true}
	for _, fn := range c.Funcs {
		if c.isFixture(fn) {
			continue
		}
		for _, cs := range callsIn(fn) {
			if !strings.HasPrefix(cs.Callee, "(*container/list.List).") || len(cs.Instr.Common().Args) == 0 || !mentionsField(cs.Instr.Common().Args[0], fReady) {
				continue
			}
			m := lastSeg(cs.Callee)
			r.Check(allowed[m] && recvTypeName(fn) == pkgAQ+".QueueImpl", r2, fn, "readyQueue."+m, cs.Instr, "FIFO primitive inside QueueImpl",
				"the ready list is used with a non-FIFO primitive ("+m+") or from outside QueueImpl: first-come first-served order is not guaranteed")
		}
	}

	r1 := r.Rule("R1", "E-COUPDATE/E-GUARD", "Next: Remove(front) and pending[h]=true dominate the success return; Ready: PushBack only on the pending side together with delete(pending); Eject: delete(pending) and removal of the matching list element; Add: PushBack only", 4)
	if fn := r.MustFunc(r1, "(*"+pkgAQ+".QueueImpl).Next"); fn != nil {
		fronts, removes := listCalls(fn, "Front"), listCalls(fn, "Remove")
		sets, _ := pendStores(fn)
		for _, ret := range returnsOf(fn) {
			if !isBoolConst(ret.Results[1], true) {
				if isBoolConst(ret.Results[1], false) {
					continue
				}
			}
			ok := false
			for _, rm := range removes {
				for _, st := range sets {
					// removed element is the front; pending key comes from that element's value
					fromFront := false
					for _, f := range fronts {
						if mentions(rm.Instr.Common().Args[1], func(v ssa.Value) bool { return v == f.Instr.Value() }, 3) &&
							mentions(st.Key, func(v ssa.Value) bool { return v == f.Instr.Value() }, 8) &&
							mentions(ret.Results[0], func(v ssa.Value) bool { return v == f.Instr.Value() }, 8) {
							fromFront = true
						}
					}
					if fromFront && precedes(rm.Instr, ret) && precedes(st, ret) && isBoolConst(st.Value, true) {
						ok = true
					}
				}
			}
			r.Check(ok, r1, fn, "Next success return", ret, "front removed from ready and marked pending", "Next hands out a torrent without removing it from the ready list and marking it pending (it could be handed out twice / be both ready and pending)")
		}
	}
	if fn := r.MustFunc(r1, "(*"+pkgAQ+".QueueImpl).Ready"); fn != nil {
		pend := func(cond ssa.Value, val bool) int {
			if lk, ok := cond.(*ssa.Lookup); ok && mentionsField(lk.X, fPend) {
				if val {
					return 1
				}
				return -1
			}
			return 0
		}
		_, dels := pendStores(fn)
		pbs := listCalls(fn, "PushBack")
		// or through a method of the queue that does nothing but append its argument
		// to the back of the ready list (Add)
		for _, cs := range callsIn(fn) {
			h := cs.Instr.Common().StaticCallee()
			if h == nil || h == fn || recvTypeName(h) != pkgAQ+".QueueImpl" || len(h.Blocks) == 0 || len(h.Params) != 2 {
				continue
			}
			if a := cs.Instr.Common().Args; len(a) != 2 || a[0] != ssa.Value(fn.Params[0]) || a[1] != ssa.Value(fn.Params[1]) {
				continue
			}
			hs, hd := pendStores(h)
			hp := listCalls(h, "PushBack")
			if len(hs) == 0 && len(hd) == 0 && len(hp) == 1 && mentions(hp[0].Instr.Common().Args[1], func(v ssa.Value) bool { return v == ssa.Value(h.Params[1]) }, 3) {
				always := true
				for _, ret := range returnsOf(h) {
					if !precedes(hp[0].Instr, ret) {
						always = false
					}
				}
				if always {
					pbs = append(pbs, cs)
				}
			}
		}
		if len(pbs) == 0 {
			r.Bad(r1, fn, "Ready", nil, "Ready never re-enqueues the torrent")
		}
		for _, pb := range pbs {
			ok := guardedBy(pb.Instr, pend)
			hasDel := false
			for _, d := range dels {
				if precedes(d, pb.Instr) || precedes(pb.Instr, d) {
					hasDel = true
				}
			}
			r.Check(ok && hasDel, r1, fn, "Ready PushBack", pb.Instr, "only when pending, with delete(pending)", "a torrent is re-enqueued without being pending, or stays pending after re-enqueueing: it can be queued twice")
		}
	}
	if fn := r.MustFunc(r1, "(*"+pkgAQ+".QueueImpl).Eject"); fn != nil {
		_, dels := pendStores(fn)
		removes := listCalls(fn, "Remove")
		okDel := false
		for _, d := range dels {
			if blockDominatesInstr(d.Block(), d) && d.Block() == fn.Blocks[0] {
				okDel = true
			}
		}
		okRm := false
		for _, rm := range removes {
			// removal conditioned on element value == h (parameter)
			for _, iff := range controlConds(rm.Instr.Block()) {
				if mentions(iff.Cond, func(v ssa.Value) bool { return v == fn.Params[1] }, 6) {
					okRm = true
				}
			}
		}
		r.Check(okDel && okRm, r1, fn, "Eject", nil, "clears pending and removes the matching ready element",
			"Eject does not clear both containers (pending set unconditionally, and the ready-list element equal to the torrent): an ejected torrent can resurface or be queued twice after re-adding")
	}
	if fn := r.MustFunc(r1, "(*"+pkgAQ+".QueueImpl).Add"); fn != nil {
		sets, dels := pendStores(fn)
		ok := len(listCalls(fn, "PushBack")) == 1 && len(sets) == 0 && len(dels) == 0
		r.Check(ok, r1, fn, "Add", nil, "appends to the back only", "Add does something else than appending the torrent to the back of the ready list")
	}

	// R3: who calls Add / Ready / Eject / Next
	r3 := r.Rule("R3", "E-OWN+E-GUARD", "Queue.Add only from state.addTorrent (whose callers are on the no-existing-control side, C17.R6); Queue.Ready only from the announce result/error events and for entries skipped within the same tick; Queue.Next only from the announce tick", 4)
	own := map[string]map[string]bool{
		"Add":   {"(*lib/torrent/scheduler.state).addTorrent": true},
		"Ready": {"(lib/torrent/scheduler.announceResultEvent).apply": true, "(lib/torrent/scheduler.announceErrEvent).apply": true, "(lib/torrent/scheduler.announceTickEvent).apply": true},
		"Next":  {"(lib/torrent/scheduler.announceTickEvent).apply": true},
		"Eject": {"(*lib/torrent/scheduler.state).removeTorrent": true, "(lib/torrent/scheduler.dispatcherCompleteEvent).apply": true},
	}
	for m, allowedCallers := range own {
		n := 0
		for _, cs := range c.CallsTo("(" + pkgAQ + ".Queue)." + m) {
			if c.isFixture(cs.Caller) {
				continue
			}
			n++
			r.Check(callerAllowed(c, topFunc(cs.Caller), allowedCallers, 0), r3, cs.Caller, "Queue."+m, cs.Instr, "tabled caller", "Queue."+m+" is called from "+funcName(cs.Caller)+", outside the frozen set of callers for which the once-per-torrent discipline was confirmed")
		}
		if n == 0 {
			r.Unresolved(r3, "no call of Queue."+m)
		}
	}
	// in the tick event, Ready is applied only to hashes collected from Next on a path that did not announce
	if fn := c.Func("(lib/torrent/scheduler.announceTickEvent).apply"); fn != nil {
		for _, cs := range callsInNamed(fn, "("+pkgAQ+".Queue).Ready") {
			inLoop := false
			for _, l := range rangeLoops(fn) {
				if l.contains(cs.Instr.Block()) && l.derivesFromElem(cs.Instr.Common().Args[0]) {
					inLoop = true
				}
			}
			// and no announce goroutine precedes within the same iteration path that appended
			r.Check(inLoop, r3, fn, "Ready(skipped)", cs.Instr, "re-enqueues entries of a local skip list", "the tick event marks a torrent ready that is not one of the entries it skipped in this tick")
		}
		// the go announce must be followed by leaving the Next loop (one announce per tick) and must not be on a path that appended to the skip list for the same h
		for _, b := range fn.Blocks {
			for _, in := range b.Instrs {
				if g, ok := in.(*ssa.Go); ok && calleeName(g.Common()) == "(*lib/torrent/scheduler.scheduler).announce" {
					again := false
					for _, cs := range callsInNamed(fn, "("+pkgAQ+".Queue).Next") {
						if reaches(b, cs.Instr.Block()) || b == cs.Instr.Block() && instrIndex(cs.Instr) > instrIndex(in) {
							again = true
						}
					}
					r.Check(!again, r3, fn, "announce per tick", in, "loop left after starting an announce", "after starting an announce the tick keeps pulling torrents: several announces in flight per tick")
				}
			}
		}
	}
	checkEventLoopConfinement(c, r, "R4")
}
