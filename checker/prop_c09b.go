package main

import (
	"go/token"

	"golang.org/x/tools/go/ssa"
)

// lenZeroFact: a branch fact "len(x) == 0" for the x accepted by match, in any of
// the comparison forms a programmer may write it (==0, !=0, >0, <=0, <1, >=1).
func lenZeroFact(match func(ssa.Value) bool) FactFn {
	return func(cond ssa.Value, val bool) int {
		b, ok := cond.(*ssa.BinOp)
		if !ok {
			return 0
		}
		isLen := func(v ssa.Value) bool {
			cl, isC := v.(*ssa.Call)
			if !isC {
				return false
			}
			bi, isB := cl.Call.Value.(*ssa.Builtin)
			return isB && bi.Name() == "len" && match(cl.Call.Args[0])
		}
		x, y, op := b.X, b.Y, b.Op
		if !isLen(x) && isLen(y) {
			// mirror: k op len  ==  len op' k
			x, y = y, x
			switch op {
			case token.LSS:
				op = token.GTR
			case token.GTR:
				op = token.LSS
			case token.LEQ:
				op = token.GEQ
			case token.GEQ:
				op = token.LEQ
			}
		}
		if !isLen(x) {
			return 0
		}
		k, isK := intConst(y)
		if !isK {
			return 0
		}
		zeroWhenTrue := 0 // +1: cond true ⇒ len==0; -1: cond true ⇒ len!=0
		switch {
		case op == token.EQL && k == 0, op == token.LEQ && k == 0, op == token.LSS && k == 1:
			zeroWhenTrue = 1
		case op == token.NEQ && k == 0, op == token.GTR && k == 0, op == token.GEQ && k == 1:
			zeroWhenTrue = -1
		default:
			return 0
		}
		if val {
			return zeroWhenTrue
		}
		return -zeroWhenTrue
	}
}

// recheckHelper: h looks its key up in the flusher's blob table under the
// flusher mutex, deletes the disk entry on the not-found side, and returns true
// exactly on that side.
func recheckHelper(h *ssa.Function, tFl, diskDelete string) bool {
	if len(h.Params) == 0 {
		return false
	}
	sets := locksets(h, lockState{})
	ok := false
	instrsOf(h, func(in ssa.Instruction) {
		lk, isL := in.(*ssa.Lookup)
		if !isL || !lk.CommaOk || !isPureLoadOf(lk.X, tFl+".blobs") {
			return
		}
		if sets[lk][lkey(h.Params[0], "mu")] < 2 {
			return
		}
		for _, rf := range *lk.Referrers() {
			ex, isEx := rf.(*ssa.Extract)
			if !isEx || ex.Index != 1 {
				continue
			}
			good := true
			// not-found side: deletes, returns true
			nf := condEdges(ex, false)
			fd := condEdges(ex, true)
			if len(nf) == 0 || len(fd) == 0 {
				continue
			}
			for _, e := range nf {
				deleted := false
				for _, dl := range callsInNamed(h, diskDelete) {
					if e.To == dl.Instr.Block() || e.To.Dominates(dl.Instr.Block()) {
						deleted = true
					}
				}
				if !deleted {
					good = false
				}
			}
			for _, ret := range returnsOf(h) {
				if len(ret.Results) != 1 {
					good = false
					continue
				}
				v := unspill(ret.Results[0])
				onNF, onFD := false, false
				for _, e := range nf {
					if e.To == ret.Block() || e.To.Dominates(ret.Block()) {
						onNF = true
					}
				}
				for _, e := range fd {
					if e.To == ret.Block() || e.To.Dominates(ret.Block()) {
						onFD = true
					}
				}
				switch {
				case onNF && !isBoolConst(v, true), onFD && !isBoolConst(v, false), !onNF && !onFD:
					good = false
				}
			}
			if good {
				ok = true
			}
		}
	})
	return ok
}
