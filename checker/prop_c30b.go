package main

import (
	"fmt"
	"regexp"
	"sort"
	"strings"

	"golang.org/x/tools/go/ssa"
)

// rulesTaskKeyAgreement (C30.R8): sibling cross-check inside each persisted-retry
// store. The statements that address ONE task through named parameters
// (UPDATE … WHERE k1=:k1 AND …, DELETE … WHERE …) must all select it by the same
// set of key columns: a DELETE keyed by fewer columns than the UPDATEs removes
// other tasks that share part of the key — tasks that then leave the store
// without ever having succeeded.
func rulesTaskKeyAgreement(c *Ctx, r *Report) {
	r8 := r.Rule("R8", "E-SIBLING(SQL constants)", "in each persisted-retry store, every single-task UPDATE/DELETE statement (named parameters) selects the task by the same set of key columns", 2)
	reWhere := regexp.MustCompile(`(?is)\bWHERE\b(.*)$`)
	reCol := regexp.MustCompile(`(?i)([a-z_][a-z0-9_]*)\s*=\s*:([a-z_][a-z0-9_]*)`)
	for _, pkg := range []string{"lib/persistedretry/writeback", "lib/persistedretry/tagreplication"} {
		type stmt struct {
			fn   *ssa.Function
			at   ssa.Instruction
			kind string
			cols string
		}
		var stmts []stmt
		for _, fn := range c.FuncsIn(pkg) {
			if c.isFixture(fn) {
				continue
			}
			instrsOf(fn, func(in ssa.Instruction) {
				ci, ok := in.(ssa.CallInstruction)
				if !ok {
					return
				}
				for _, a := range ci.Common().Args {
					s, isS := constString(a)
					if !isS {
						continue
					}
					up := strings.ToUpper(s)
					kind := ""
					switch {
					case strings.Contains(up, "DELETE FROM"):
						kind = "DELETE"
					case strings.Contains(up, "UPDATE "):
						kind = "UPDATE"
					default:
						continue
					}
					m := reWhere.FindStringSubmatch(s)
					if m == nil {
						continue
					}
					var cols []string
					for _, cm := range reCol.FindAllStringSubmatch(m[1], -1) {
						cols = append(cols, strings.ToLower(cm[1]))
					}
					if len(cols) == 0 {
						continue // positional / multi-row statement
					}
					sort.Strings(cols)
					stmts = append(stmts, stmt{fn, in, kind, strings.Join(cols, ",")})
				}
			})
		}
		if len(stmts) < 2 {
			r.Unresolved(r8, fmt.Sprintf("fewer than two single-task statements found in %s", pkg))
			continue
		}
		// majority key
		count := map[string]int{}
		for _, s := range stmts {
			count[s.cols]++
		}
		best, bestN := "", 0
		for k, n := range count {
			if n > bestN || n == bestN && k > best {
				best, bestN = k, n
			}
		}
		ok := true
		var where ssa.Instruction
		why := ""
		for _, s := range stmts {
			if s.cols != best {
				ok, where = false, s.at
				why = fmt.Sprintf("%s in %s selects by (%s) while the other single-task statements select by (%s)", s.kind, funcName(s.fn), s.cols, best)
			}
		}
		r.Check(ok, r8, stmts[0].fn, "task key of "+pkg, where, fmt.Sprintf("%d statements keyed by (%s)", len(stmts), best),
			"single-task statements of one store disagree on the key: "+why+" — a statement keyed by fewer columns touches other tasks (a DELETE drops tasks that never succeeded)")
	}
}
