package main

import (
	"golang.org/x/tools/go/ssa"
)

const agentMoveCallee = "(" + pkgAgentSt + ".caDownloadStore).MoveDownloadFileToCache"

// moveSite is a call that moves the download file into the cache: the store call
// itself (an "already exists" error counts as success) or a call of a wrapper of
// the package all of whose success returns lie in the success region of the move.
type moveSite struct {
	Fn        *ssa.Function
	Instr     ssa.CallInstruction
	Tolerated []string
}

func isAgentMoveWrapper(fn *ssa.Function) bool {
	mvs := callsInNamed(fn, agentMoveCallee)
	if len(mvs) == 0 || fn.Signature.Results().Len() == 0 {
		return false
	}
	n := 0
	for _, ret := range returnsOf(fn) {
		k := classifyReturn(ret)
		if k == RetFailure {
			continue
		}
		if k == RetNoError {
			return false
		}
		n++
		ok := false
		for _, mv := range mvs {
			if inSuccessRegion(mv.Instr, ret, "os.IsExist") {
				ok = true
			}
		}
		if !ok {
			return false
		}
	}
	return n > 0
}

// agentMoveSitesIn: the effective move sites inside fn.
func agentMoveSitesIn(c *Ctx, fn *ssa.Function) []moveSite {
	var out []moveSite
	for _, cs := range callsIn(fn) {
		if cs.Callee == agentMoveCallee {
			out = append(out, moveSite{fn, cs.Instr, []string{"os.IsExist"}})
			continue
		}
		if sf := cs.Instr.Common().StaticCallee(); sf != nil && sf.Pkg == fn.Pkg && sf != fn && len(sf.Blocks) > 0 && isAgentMoveWrapper(sf) {
			out = append(out, moveSite{fn, cs.Instr, nil})
		}
	}
	return out
}

// agentMoveSites: every effective move site of the agent torrent package; a
// direct call inside a wrapper is represented by the wrapper's call sites.
func agentMoveSites(c *Ctx) []moveSite {
	var out []moveSite
	for _, fn := range c.FuncsIn(pkgAgentSt) {
		if c.isFixture(fn) {
			continue
		}
		wrapper := isAgentMoveWrapper(fn)
		for _, ms := range agentMoveSitesIn(c, fn) {
			if wrapper && calleeName(ms.Instr.Common()) == agentMoveCallee && len(c.CallsTo(funcName(fn))) > 0 {
				continue // judged at the wrapper's callers
			}
			out = append(out, ms)
		}
	}
	return out
}
