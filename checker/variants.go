// variants.go: thorough-tier self-test. Each stored variant is a single textual
// edit of the real tree, applied as a go/packages overlay (never written to disk),
// that still type-checks and must be reported by the named rule. Variants test
// the checker (that its rules can fire on this code base); they never decide the
// property: a stale variant (anchor text gone) is reported and skipped.
package main

import (
	"encoding/json"
	"fmt"
	"os"
	"os/exec"
	"path/filepath"
	"sort"
	"strings"
	"sync"
)

type Variant struct {
	Name   string `json:"name"`
	File   string `json:"file"` // relative to repo root
	Old    string `json:"old"`
	New    string `json:"new"`
	Expect string `json:"expect"` // rule id prefix that must report, e.g. "C17.R1"
	Why    string `json:"why"`
	// optional additional edits
	More []struct {
		File string `json:"file"`
		Old  string `json:"old"`
		New  string `json:"new"`
	} `json:"more,omitempty"`
	// alternatively: a unified diff (path relative to the verif root), applied
	// forwards (a seeded change) or in reverse (a `fix:` commit undone)
	Patch   string `json:"patch,omitempty"`
	Reverse bool   `json:"reverse,omitempty"`
}

type variantResult struct {
	Name     string   `json:"name"`
	Outcome  string   `json:"outcome"` // detected | missed | stale | broken
	Expect   string   `json:"expect"`
	Reported []string `json:"reported,omitempty"`
	Note     string   `json:"note,omitempty"`
}

func loadVariants(verif, id string) ([]Variant, error) {
	files, _ := filepath.Glob(filepath.Join(verif, "variants", id, "*.json"))
	sort.Strings(files)
	var out []Variant
	for _, f := range files {
		b, err := os.ReadFile(f)
		if err != nil {
			return nil, err
		}
		var v Variant
		if err := json.Unmarshal(b, &v); err != nil {
			return nil, fmt.Errorf("%s: %v", f, err)
		}
		if v.Name == "" {
			v.Name = strings.TrimSuffix(filepath.Base(f), ".json")
		}
		out = append(out, v)
	}
	return out, nil
}

func (v *Variant) overlay(repo string) (map[string][]byte, string) {
	if v.Patch != "" {
		b, err := os.ReadFile(filepath.Join(envOr("KVET_VERIF", "/verif"), v.Patch))
		if err != nil {
			return nil, "patch file missing: " + v.Patch
		}
		ov, err := applyUnifiedDiff(repo, string(b), v.Reverse)
		if err != nil {
			return nil, err.Error()
		}
		return ov, ""
	}
	ov := map[string][]byte{}
	apply := func(file, old, new string) string {
		p := filepath.Join(repo, file)
		src, ok := ov[p]
		if !ok {
			b, err := os.ReadFile(p)
			if err != nil {
				return "file missing: " + file
			}
			src = b
		}
		if strings.Count(string(src), old) != 1 {
			return fmt.Sprintf("anchor text occurs %d times in %s", strings.Count(string(src), old), file)
		}
		ov[p] = []byte(strings.Replace(string(src), old, new, 1))
		return ""
	}
	if s := apply(v.File, v.Old, v.New); s != "" {
		return nil, s
	}
	for _, m := range v.More {
		if s := apply(m.File, m.Old, m.New); s != "" {
			return nil, s
		}
	}
	return ov, ""
}

// runOneVariant: subprocess entry. Prints one JSON variantResult.
func runOneVariant(repo, id, vfile string) int {
	b, err := os.ReadFile(vfile)
	if err != nil {
		fmt.Println(`{"outcome":"broken","note":"cannot read variant"}`)
		return 0
	}
	var v Variant
	json.Unmarshal(b, &v)
	if v.Name == "" {
		v.Name = strings.TrimSuffix(filepath.Base(vfile), ".json")
	}
	res := variantResult{Name: v.Name, Expect: v.Expect}
	ov, stale := v.overlay(repo)
	if stale != "" {
		res.Outcome, res.Note = "stale", stale
	} else {
		c, err := Load(repo, ov)
		if err != nil {
			res.Outcome, res.Note = "broken", "variant does not type-check: "+err.Error()
		} else {
			r := NewReport(c, id, "quick")
			runProp(props[id], c, r)
			for _, ri := range r.ruleOrder {
				_ = ri
			}
			// floors
			hit := false
			for _, o := range r.Obls {
				if o.Status != Discharged {
					res.Reported = append(res.Reported, o.Key)
					if strings.HasPrefix(o.Rule, v.Expect) {
						hit = true
					}
				}
			}
			// compare with the baseline set of non-discharged keys given in env (known findings etc.)
			base := map[string]bool{}
			for _, k := range strings.Split(os.Getenv("KVET_BASE_KEYS"), "\n") {
				base[k] = true
			}
			var fresh []string
			hit = false
			for _, k := range res.Reported {
				if !base[k] {
					fresh = append(fresh, k)
					if strings.HasPrefix(k, v.Expect) {
						hit = true
					}
				}
			}
			res.Reported = fresh
			switch {
			case v.Expect == "SILENT":
				// behaviour-preserving variant: any fresh report is a false alarm
				if len(fresh) == 0 {
					res.Outcome = "silent"
				} else {
					res.Outcome = "false-alarm"
				}
			case hit:
				res.Outcome = "detected"
			default:
				res.Outcome = "missed"
			}
		}
	}
	out, _ := json.Marshal(res)
	fmt.Println(string(out))
	return 0
}

// runVariants runs every stored variant of the property in subprocesses and adds
// one obligation per variant to the report (rule <ID>.SELFTEST).
func runVariants(c *Ctx, r *Report, id, repo string) {
	verif := envOr("KVET_VERIF", "/verif")
	vs, err := loadVariants(verif, id)
	if err != nil {
		r.add(id+".SELFTEST", Undecided, nil, "variants", "?", false, err.Error())
		return
	}
	if len(vs) == 0 {
		r.Extra["variants_total"] = 0
		return
	}
	rule := r.Rule("SELFTEST", "variant self-test", "each stored single-edit variant of the real tree (go/packages overlay) must be reported by the expected rule", 0)
	var base []string
	for _, o := range r.Obls {
		if o.Status != Discharged {
			base = append(base, o.Key)
		}
	}
	exe, _ := os.Executable()
	results := make([]variantResult, len(vs))
	sem := make(chan struct{}, 4)
	var wg sync.WaitGroup
	files, _ := filepath.Glob(filepath.Join(verif, "variants", id, "*.json"))
	sort.Strings(files)
	for i := range vs {
		wg.Add(1)
		go func(i int) {
			defer wg.Done()
			sem <- struct{}{}
			defer func() { <-sem }()
			cmd := exec.Command(exe, "variant", id, files[i], "--repo", repo)
			cmd.Env = append(os.Environ(), "KVET_BASE_KEYS="+strings.Join(base, "\n"))
			out, err := cmd.Output()
			var res variantResult
			if err != nil || json.Unmarshal(lastLine(out), &res) != nil {
				res = variantResult{Name: vs[i].Name, Outcome: "broken", Note: fmt.Sprintf("subprocess: %v %s", err, string(out))}
			}
			results[i] = res
		}(i)
	}
	wg.Wait()
	det, stale, miss, silent := 0, 0, 0, 0
	for i, res := range results {
		switch res.Outcome {
		case "detected":
			det++
			r.add(rule, Discharged, nil, "variant "+vs[i].Name, vs[i].File, true, "reported as "+strings.Join(res.Reported, ", "))
		case "silent":
			silent++
			r.add(rule, Discharged, nil, "benign variant "+vs[i].Name, vs[i].File, true, "behaviour-preserving refactoring: nothing reported")
		case "stale":
			stale++
		default:
			// a missed variant is a weakness of the checker, not a violation of the
			// property by the tree: it is printed and recorded, and fails only `kvet selftest`.
			miss++
			fmt.Printf("SELFTEST-MISS property=%s variant=%s expected=%s outcome=%s %s %v\n", id, vs[i].Name, vs[i].Expect, res.Outcome, res.Note, res.Reported)
		}
	}
	r.Extra["variants_total"] = len(vs)
	r.Extra["variants_detected"] = det
	r.Extra["variants_stale"] = stale
	r.Extra["variants_silent"] = silent
	r.Extra["variants_missed"] = miss
	r.Extra["variant_results"] = results
}

func lastLine(b []byte) []byte {
	s := strings.TrimSpace(string(b))
	if i := strings.LastIndex(s, "\n"); i >= 0 {
		s = s[i+1:]
	}
	return []byte(s)
}
