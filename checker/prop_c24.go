package main

import (
	"go/token"

	"golang.org/x/tools/go/ssa"
)

func init() { register("C24", checkC24) }

func checkC24(c *Ctx, r *Report) {
	const tPF = pkgHC + ".passiveFilter"
	// the two maps are found by their types, so that renaming them does not move the anchors
	fUnhealthy := fieldByType(c, tPF, "map[string]time.Time", "unhealthy")
	fFailures := fieldByType(c, tPF, "map[string][]time.Time", "failures")
	r.Explain = "Structural clauses of passive health filtering (narrow claim): (R1) a passively checked list returns the unfiltered host set whenever the filtered set is empty, and the filtered set is computed from that same host set — so it never resolves to empty while it has hosts; (R2) the filter removes hosts only from a copy of its input; a host is removed only on the not-yet-timed-out side of its unhealthy mark and the mark is dropped on the timed-out side; (R3) a host is marked unhealthy only where the number of retained failures reached Fails, after failures older than FailTimeout were pruned from the front; (R4) the maps are accessed under the filter's mutex."
	r.NotDecided = "The failure-window rule as such ('exactly when at least Fails failures fall within FailTimeout of some failure no older than FailTimeout'): timeline arithmetic."
	r1 := r.Rule("R1", "E-GUARD", "Passive.Resolve returns the host list itself on the len(filtered)==0 side and the filtered set otherwise; the filter ran on that same host set", 1)
	if rs := r.MustFunc(r1, "(*"+pkgHC+".Passive).Resolve"); rs != nil {
		all := callsInNamed(rs, "(lib/hostlist.List).Resolve")
		run := callsInNamed(rs, "("+pkgHC+".PassiveFilter).Run")
		ok := len(all) == 1 && len(run) == 1 && run[0].Instr.Common().Args[0] == all[0].Instr.Value()
		nEmpty, nFull := 0, 0
		if ok {
			for _, ret := range returnsOf(rs) {
				v := unspill(ret.Results[0])
				zf := lenZeroFact(func(x ssa.Value) bool { return x == run[0].Instr.Value() })
				empty := guardedBy(ret, zf)
				nonEmpty := guardedBy(ret, func(cond ssa.Value, val bool) int { return -zf(cond, val) })
				if !empty && !nonEmpty {
					ok = false // the return is not decided by the emptiness of the filtered set
				}
				if empty {
					nEmpty++
					if v != all[0].Instr.Value() {
						ok = false
					}
				} else {
					nFull++
					if v != run[0].Instr.Value() {
						ok = false
					}
				}
			}
		}
		r.Check(ok && nEmpty >= 1 && nFull >= 1, r1, rs, "fallback to all hosts", nil, "empty filtered set ⇒ whole list", "a passively checked list can resolve to an empty set although it has hosts (no fallback to the unfiltered list on the empty side)")
	}
	r2 := r.Rule("R2", "E-OWN+E-GUARD", "passiveFilter.Run removes only from a copy of its argument, on the not-timed-out side of the unhealthy mark, and deletes the mark on the timed-out side", 1)
	if run := r.MustFunc(r2, "(*"+tPF+").Run"); run != nil {
		cp := callsInNamed(run, "(utils/stringset.Set).Copy")
		ok := len(cp) == 1 && cp[0].Instr.Common().Args[0] == run.Params[1]
		timedOut := func(cond ssa.Value, val bool) int {
			b, isB := cond.(*ssa.BinOp)
			if !isB || !mentionsField(b.Y, pkgHC+".PassiveFilterConfig.FailTimeout") || !mentionsCall(b.X, "(time.Time).Sub") {
				return 0
			}
			switch b.Op {
			case token.GTR, token.GEQ:
				return tern(val, 1, -1)
			case token.LEQ, token.LSS:
				return tern(val, -1, 1)
			}
			return 0
		}
		notTimedOut := func(cond ssa.Value, val bool) int { return -timedOut(cond, val) }
		// the expiry of marks: deletes of the unhealthy map in Run or in a helper method
		// it calls, each on the timed-out side
		ndel := 0
		var expiry *RangeLoop // a loop over the marks that deletes every timed-out one
		var expiryIn *ssa.Function
		scope := []*ssa.Function{run}
		for _, cs := range callsIn(run) {
			if h := cs.Instr.Common().StaticCallee(); h != nil && h.Pkg == run.Pkg && len(h.Blocks) > 0 && recvTypeName(h) == tPF {
				scope = append(scope, h)
			}
		}
		for _, g := range scope {
			g := g
			instrsOf(g, func(in ssa.Instruction) {
				if mu, isMU := in.(*ssa.MapUpdate); isMU && isPureLoadOf(mu.Map, tPF+"."+fUnhealthy) {
					ok = false // Run does not mark hosts
				}
				if !isMapDeleteOn(in, tPF+"."+fUnhealthy) {
					return
				}
				ndel++
				if !guardedBy(in, timedOut) {
					ok = false
					return
				}
				// a complete expiry pass: the delete is the first thing on the timed-out
				// side of the test itself, for the current key of a loop over the marks
				// that has no other exit
				blk := in.Block()
				if len(blk.Preds) != 1 {
					return
				}
				iff, isIf := blk.Preds[0].Instrs[len(blk.Preds[0].Instrs)-1].(*ssa.If)
				if !isIf {
					return
				}
				side := blk.Preds[0].Succs[0] == blk
				if timedOut(iff.Cond, side) != 1 {
					return
				}
				for _, l := range rangeLoops(g) {
					if l.IsMap && l.rangesOverField(tPF+"."+fUnhealthy) && l.contains(blk) && l.derivesFromElem(in.(*ssa.Call).Call.Args[1]) && loopHasNoEarlyExit(g, l) {
						expiry, expiryIn = l, g
					}
				}
			})
		}
		nrm := 0
		for _, cs := range callsInNamed(run, "(utils/stringset.Set).Remove") {
			nrm++
			if !ok || cs.Instr.Common().Args[0] != cp[0].Instr.Value() {
				ok = false
				continue
			}
			if guardedBy(cs.Instr, notTimedOut) {
				continue
			}
			// two-pass form: every mark that survived a complete expiry pass is removed
			second := false
			for _, l := range rangeLoops(run) {
				if !l.IsMap || !l.rangesOverField(tPF+"."+fUnhealthy) || !l.contains(cs.Instr.Block()) || !l.derivesFromElem(cs.Instr.Common().Args[1]) || expiry == nil || l == expiry {
					continue
				}
				if expiryIn == run {
					second = len(l.Header.Instrs) > 0 && expiry.completedBefore(l.Header.Instrs[0])
				} else {
					for _, hc := range callsIn(run) {
						if hc.Instr.Common().StaticCallee() == expiryIn && precedes(hc.Instr, cs.Instr) && !l.contains(hc.Instr.Block()) {
							second = true
							for _, ret := range returnsOf(expiryIn) {
								if !expiry.completedBefore(ret) {
									second = false
								}
							}
						}
					}
				}
			}
			if !second {
				ok = false
			}
		}
		for _, ret := range returnsOf(run) {
			if ok && unspill(ret.Results[0]) != cp[0].Instr.Value() {
				ok = false
			}
		}
		r.Check(ok && nrm == 1 && ndel == 1, r2, run, "filter on a copy, by timeout side", nil, "copy filtered and returned", "the filter mutates its input, or removes/forgets hosts on the wrong side of the FailTimeout test")
	}
	r3 := r.Rule("R3", "E-GUARD", "passiveFilter.Failed marks the host unhealthy only where len(retained failures) >= Fails; the retained list is the stored list pruned from the front by FailTimeout plus the new failure, and is stored back", 1)
	if fl := r.MustFunc(r3, "(*"+tPF+").Failed"); fl != nil {
		// every mark written anywhere in the package is written by Failed, for the
		// failed host, on the threshold side (all of them, not just one)
		okMark, nMark := true, 0
		for _, g := range c.FuncsIn(pkgHC) {
			if c.isFixture(g) || g == fl {
				continue
			}
			instrsOf(g, func(in ssa.Instruction) {
				if mu, isMU := in.(*ssa.MapUpdate); isMU && isPureLoadOf(mu.Map, tPF+"."+fUnhealthy) {
					okMark = false
				}
			})
		}
		instrsOf(fl, func(in ssa.Instruction) {
			mu, isMU := in.(*ssa.MapUpdate)
			if !isMU || !isPureLoadOf(mu.Map, tPF+"."+fUnhealthy) {
				return
			}
			nMark++
			if mu.Key != fl.Params[1] {
				okMark = false
				return
			}
			okMark = okMark && guardedBy(mu, func(cond ssa.Value, val bool) int {
				b, isB := cond.(*ssa.BinOp)
				if !isB || !mentionsField(b.Y, pkgHC+".PassiveFilterConfig.Fails") {
					return 0
				}
				if lc, isL := b.X.(*ssa.Call); !isL || calleeName(lc.Common()) != "builtin.len" {
					return 0
				}
				switch b.Op {
				case token.GEQ:
					return tern(val, 1, -1)
				case token.LSS:
					return tern(val, -1, 1)
				}
				return 0
			})
		})
		stored, pruned := false, false
		instrsOf(fl, func(in ssa.Instruction) {
			if mu, isMU := in.(*ssa.MapUpdate); isMU && isPureLoadOf(mu.Map, tPF+"."+fFailures) && mu.Key == fl.Params[1] {
				if mentions(mu.Value, func(v ssa.Value) bool { cl, isC := v.(*ssa.Call); return isC && calleeName(cl.Common()) == "builtin.append" }, 4) {
					stored = true
				}
			}
			if iff, isIf := in.(*ssa.If); isIf && mentionsField(iff.Cond, pkgHC+".PassiveFilterConfig.FailTimeout") {
				pruned = true
			}
		})
		// the FailTimeout test may sit in a helper of the type that Failed calls
		// (an `expired(t, now)` predicate, or a function returning the retained suffix)
		if !pruned {
			seen := map[*ssa.Function]bool{fl: true}
			var visit func(g *ssa.Function, d int)
			visit = func(g *ssa.Function, d int) {
				for _, cs := range callsIn(g) {
					sf := cs.Instr.Common().StaticCallee()
					if sf == nil || sf.Pkg != fl.Pkg || seen[sf] || d > 2 {
						continue
					}
					seen[sf] = true
					instrsOf(sf, func(in ssa.Instruction) {
						if b, isB := in.(*ssa.BinOp); isB && mentionsField(b, pkgHC+".PassiveFilterConfig.FailTimeout") {
							pruned = true
						}
					})
					visit(sf, d+1)
				}
			}
			visit(fl, 0)
		}
		r.Check(okMark && nMark >= 1 && stored && pruned, r3, fl, "mark at the Fails threshold", nil, "len(retained) >= Fails, list pruned and stored", "a host is marked unhealthy without the retained-failure count having reached Fails, or the failure list is not pruned/stored")
	}
	r5 := r.Rule("R5", "E-OWN", "the per-host failure history (passiveFilter.failures) is written — updated or deleted from — only by Failed, where every write stores the pruned list; no other function drops failures that may still lie inside the window", 1)
	nw := 0
	for _, fn := range c.FuncsIn(pkgHC) {
		if c.isFixture(fn) {
			continue
		}
		instrsOf(fn, func(in ssa.Instruction) {
			wr := isMapDeleteOn(in, tPF+"."+fFailures)
			if mu, isMU := in.(*ssa.MapUpdate); isMU && isPureLoadOf(mu.Map, tPF+"."+fFailures) {
				wr = true
			}
			if !wr {
				return
			}
			nw++
			owner := fn.Name() == "Failed" && recvTypeName(fn) == tPF
			_, isDel := in.(*ssa.MapUpdate)
			r.Check(owner && isDel, r5, fn, "write of the failure history", in, "in Failed, storing the pruned list", "the failure history of a host is modified outside Failed (or deleted wholesale): failures that are still inside FailTimeout are forgotten, so Fails failures within one window no longer mark the host unhealthy")
		})
	}
	if nw == 0 {
		r.Unresolved(r5, "no write of passiveFilter.failures found")
	}
	r4 := r.Rule("R4", "E-LOCK", "passiveFilter.unhealthy/failures under the embedded mutex", 2)
	checkLockRows(c, r, r4, []string{pkgHC}, []LockRow{{Struct: tPF, Mutex: "Mutex", Fields: []string{fUnhealthy, fFailures}, Ctors: []string{pkgHC + ".NewPassiveFilter"}}})
}
