package main

import (
	"fmt"
	"go/constant"
	"go/token"
	"go/types"

	"golang.org/x/tools/go/ssa"
)

const (
	fTorrentControls = "lib/torrent/scheduler.state.torrentControls"
	pkgSched         = "lib/torrent/scheduler"
)

// fCtrlErrors is the waiter list of a torrent control. It is found by its type —
// the one field of torrentControl that is a slice of error channels — so that a
// rename of the field does not move the anchor; the declared name is the fallback.
var fCtrlErrors = "lib/torrent/scheduler.torrentControl.errors"

func resolveWaitersField(c *Ctx) string {
	p := c.PkgByID[K+"/"+pkgSched]
	if p == nil || p.Types == nil {
		return fCtrlErrors
	}
	obj := p.Types.Scope().Lookup("torrentControl")
	if obj == nil {
		return fCtrlErrors
	}
	st, ok := obj.Type().Underlying().(*types.Struct)
	if !ok {
		return fCtrlErrors
	}
	var found []string
	for i := 0; i < st.NumFields(); i++ {
		sl, isSl := st.Field(i).Type().Underlying().(*types.Slice)
		if !isSl {
			continue
		}
		ch, isCh := sl.Elem().Underlying().(*types.Chan)
		if !isCh || ch.Elem().String() != "error" {
			continue
		}
		found = append(found, pkgSched+".torrentControl."+st.Field(i).Name())
	}
	if len(found) == 1 {
		return found[0]
	}
	return fCtrlErrors
}

func init() { register("C17", checkC17) }

// notifyLoops returns the range loops in fn over torrentControl.errors whose body
// sends on the current element on every iteration.
func notifyLoops(fn *ssa.Function) []*RangeLoop {
	var out []*RangeLoop
	for _, l := range rangeLoops(fn) {
		if !l.rangesOverField(fCtrlErrors) {
			continue
		}
		ok := false
		for _, b := range fn.Blocks {
			for _, in := range b.Instrs {
				if s, isSend := in.(*ssa.Send); isSend && l.derivesFromElem(s.Chan) && l.everyIteration(s) {
					ok = true
				}
			}
		}
		if ok {
			out = append(out, l)
		}
	}
	return out
}

// notifyCalls returns the calls in fn to a function of the same package that
// itself notifies every waiter on every path: it contains a notify loop (see
// notifyLoops) that has completed before each of its returns.
func notifyCalls(fn *ssa.Function) []ssa.CallInstruction {
	var out []ssa.CallInstruction
	for _, cs := range callsIn(fn) {
		sf := cs.Instr.Common().StaticCallee()
		if sf == nil || sf.Pkg != fn.Pkg || sf == fn || len(sf.Blocks) == 0 {
			continue
		}
		if _, isGo := cs.Instr.(*ssa.Go); isGo {
			continue
		}
		if _, isDefer := cs.Instr.(*ssa.Defer); isDefer {
			continue
		}
		loops := notifyLoops(sf)
		if len(loops) == 0 {
			continue
		}
		always := true
		for _, ret := range returnsOf(sf) {
			done := false
			for _, l := range loops {
				if l.completedBefore(ret) {
					done = true
				}
			}
			if !done {
				always = false
			}
		}
		if always {
			out = append(out, cs.Instr)
		}
	}
	return out
}

func isMapDeleteOn(in ssa.Instruction, field string) bool {
	c, ok := in.(*ssa.Call)
	if !ok {
		return false
	}
	b, ok := c.Call.Value.(*ssa.Builtin)
	if !ok || b.Name() != "delete" {
		return false
	}
	return isPureLoadOf(c.Call.Args[0], field)
}

func checkC17(c *Ctx, r *Report) {
	fCtrlErrors = resolveWaitersField(c)
	r.Explain = "Structural necessary conditions of 'every Download returns exactly once': (R1) every removal of a torrent control, the completion event and the shutdown path are dominated by a loop that sends on every waiter channel; (R2) a new-torrent event delivers its channel exactly once on every path (immediate send XOR registration as waiter); (R3) the request channel is buffered and received exactly once; (R4) the completion notice is raised once, only for a complete torrent; (R5) the scheduler state is confined to the event loop, so R1-R4 quantify over all orders of applied events; (R6) a control is overwritten only when absent;"
	r.NotDecided = "That the event loop itself makes progress (liveness of the goroutine), and that 'success' coincides with the blob being in the cache (delegated to C03)."
	r.Trusted = append(r.Trusted, "sync.Once.Do runs its argument at most once", "a buffered channel of capacity>=1 accepts one send without a receiver")

	// R1a: every delete on torrentControls
	r1 := r.Rule("R1", "E-ORDER/loop", "every removal from state.torrentControls, the found-control path of the completion event, and the event-loop stop are dominated by a loop sending on every channel of torrentControl.errors", 3)
	for _, fn := range c.FuncsIn(pkgSched) {
		if c.isFixture(fn) {
			continue
		}
		for _, b := range fn.Blocks {
			for _, in := range b.Instrs {
				if !isMapDeleteOn(in, fTorrentControls) {
					continue
				}
				ok := false
				for _, l := range notifyLoops(fn) {
					if l.completedBefore(in) {
						ok = true
					}
				}
				for _, nc := range notifyCalls(fn) {
					if precedes(nc, in) {
						ok = true
					}
				}
				r.Check(ok, r1, fn, "delete(torrentControls)", in,
					"removal is dominated by a completed notify-all loop over ctrl.errors",
					"a torrent control is removed on a path that has not notified every waiter in ctrl.errors: a Download waiting on it never returns")
			}
		}
	}
	// R1b: completion event: the type constructed in liftedEventLoop.DispatcherComplete
	if dc := r.MustFunc(r1, "(*lib/torrent/scheduler.liftedEventLoop).DispatcherComplete"); dc != nil {
		var evType types.Type
		for _, cs := range callsIn(dc) {
			if cs.Callee == "(lib/torrent/scheduler.eventLoop).send" || cs.Callee == "(lib/torrent/scheduler.eventLoop).sendTimeout" {
				arg := cs.Instr.Common().Args[0]
				if mi, ok := arg.(*ssa.MakeInterface); ok {
					evType = mi.X.Type()
				}
			}
		}
		if evType == nil {
			r.Undecided(r1, dc, "completion-event type", nil, "cannot find the event constructed by DispatcherComplete")
		} else {
			apply := c.Func("(" + typeName(evType) + ").apply")
			if apply == nil {
				r.Unresolved(r1, "apply method of "+typeName(evType))
			} else {
				r.Analysed(apply)
				loops := notifyLoops(apply)
				// every return not dominated by the not-found edge must be dominated by a completed loop
				n := 0
				const fa, fb = "lib/torrent/scheduler.torrentControl.dispatcher", "lib/torrent/scheduler.dispatcherCompleteEvent.dispatcher"
				isIdent := func(v ssa.Value) (*ssa.BinOp, bool) {
					b, isB := v.(*ssa.BinOp)
					if !isB || (b.Op != token.EQL && b.Op != token.NEQ) {
						return nil, false
					}
					m := func(v ssa.Value, f string) bool {
						return mentions(v, func(w ssa.Value) bool { return isFieldRef(w, f) }, 5)
					}
					return b, m(b.X, fa) && m(b.Y, fb) || m(b.X, fb) && m(b.Y, fa)
				}
				var exemptEdge func(cond ssa.Value, val bool) bool
				exemptEdge = func(cond ssa.Value, val bool) bool {
					cond, val = stripNot(cond, val)
					if !val && isLookupOK(cond, fTorrentControls, 0) {
						return true // control not found
					}
					if b, ok := isIdent(cond); ok {
						return b.Op == token.EQL && !val || b.Op == token.NEQ && val // another dispatcher's control
					}
					// `known := ok && ctrl.dispatcher == e.dispatcher`: the false side is
					// exempt when every way of being false is
					return phiAll(cond, val, exemptEdge)
				}
				exempt := regionByEdges(apply, exemptEdge)
				for _, ret := range returnsOf(apply) {
					if exempt[ret.Block()] {
						continue
					}
					n++
					ok := false
					for _, l := range loops {
						if l.completedBefore(ret) {
							ok = true
						}
					}
					for _, nc := range notifyCalls(apply) {
						if precedes(nc, ret) {
							ok = true
						}
					}
					r.Check(ok, r1, apply, "completion-event return (control found)", ret,
						"found-control path notifies every waiter before returning",
						"the completion event returns on the found-control path without having sent to every waiter in ctrl.errors")
				}
				if n == 0 {
					r.Undecided(r1, apply, "completion-event", nil, "no found-control return recognised")
				}
				// R8: identity guard against stale completion events
				r8 := r.Rule("R8", "E-GUARD", "the completion event notifies waiters only if the control found by info hash still holds the dispatcher that completed (identity comparison), so a stale event cannot answer a re-added torrent's waiters", 1)
				type notifyPoint struct {
					blk *ssa.BasicBlock
					at  ssa.Instruction
				}
				var points []notifyPoint
				for _, l := range loops {
					points = append(points, notifyPoint{l.Header, l.Header.Instrs[0]})
				}
				for _, nc := range notifyCalls(apply) {
					points = append(points, notifyPoint{nc.Block(), nc})
				}
				for _, np := range points {
					ok := guardedBy(np.at, func(cond ssa.Value, val bool) int {
						b, isB := cond.(*ssa.BinOp)
						if !isB || (b.Op != token.EQL && b.Op != token.NEQ) {
							return 0
						}
						mentionsDisp := func(v ssa.Value, f string) bool {
							return mentions(v, func(w ssa.Value) bool { return isFieldRef(w, f) }, 5)
						}
						const fa, fb = "lib/torrent/scheduler.torrentControl.dispatcher", "lib/torrent/scheduler.dispatcherCompleteEvent.dispatcher"
						if !(mentionsDisp(b.X, fa) && mentionsDisp(b.Y, fb) || mentionsDisp(b.X, fb) && mentionsDisp(b.Y, fa)) {
							return 0
						}
						return tern((b.Op == token.EQL) == val, 1, -1)
					})
					r.Check(ok, r8, apply, "completion notify loop", np.at, "guarded by dispatcher identity",
						"waiters of the control found by info hash are answered with success without checking that it is the dispatcher that completed: a stale event completes a re-added, incomplete torrent")
				}
			}
		}
	}
	// R1c: shutdown: every call of eventLoop.stop inside an apply method
	for _, cs := range c.CallsTo("(lib/torrent/scheduler.eventLoop).stop") {
		if cs.Caller.Name() != "apply" {
			continue
		}
		fn := cs.Caller
		ok := false
		for _, outer := range rangeLoops(fn) {
			if !outer.rangesOverField(fTorrentControls) || !outer.completedBefore(cs.Instr) {
				continue
			}
			for _, l := range notifyLoops(fn) {
				// the inner loop must run on every outer iteration: its header dominates outer latch
				in := l.Header.Instrs[0]
				if outer.everyIteration(in) && l.derivesFromOuter(outer) {
					ok = true
				}
			}
			for _, nc := range notifyCalls(fn) {
				uses := false
				for _, a := range nc.Common().Args {
					if outer.derivesFromElem(a) {
						uses = true
					}
				}
				if outer.everyIteration(nc) && uses {
					ok = true
				}
			}
		}
		r.Check(ok, r1, fn, "eventLoop.stop", cs.Instr,
			"stop is dominated by a loop over all controls notifying all waiters",
			"the event loop is stopped on a path that has not notified the waiters of every torrent control")
	}

	// R2: newTorrentEvent.apply delivers errc exactly once on every path
	r2 := r.Rule("R2", "E-PAIR(path count)", "in the apply method of the event carrying the request channel, every path to a return performs exactly one of {send on e.errc, append e.errc to ctrl.errors}", 1)
	if nt := r.MustFunc(r2, "(lib/torrent/scheduler.newTorrentEvent).apply"); nt != nil {
		const fErrc = "lib/torrent/scheduler.newTorrentEvent.errc"
		isDeliver := func(in ssa.Instruction) bool {
			switch x := in.(type) {
			case *ssa.Send:
				return mentions(x.Chan, func(v ssa.Value) bool { return isFieldRef(v, fErrc) }, 4)
			case *ssa.Store:
				// store to ctrl.errors of a slice built from errc (append)
				if fa, ok := x.Addr.(*ssa.FieldAddr); ok {
					if n, _ := fieldName(fa); n == fCtrlErrors {
						return mentions(x.Val, func(v ssa.Value) bool { return isFieldRef(v, fErrc) }, 8)
					}
				}
			}
			return false
		}
		counts := pathEventCounts(nt, isDeliver)
		for _, ret := range returnsOf(nt) {
			cs := counts[ret.Block()]
			ok := len(cs) == 1 && cs[1]
			r.Check(ok, r2, nt, "return", ret, "exactly one delivery on every path to this return",
				fmt.Sprintf("paths to this return deliver the request channel %v times (must be exactly once): the requester would hang or be answered twice", keysOf(cs)))
		}
	}

	// R3: request channel buffered, received exactly once after a successful send
	r3 := r.Rule("R3", "E-ORDER", "the request channel is made with constant capacity >= 1, handed to the event, and received exactly once, in the success region of eventLoop.send", 1)
	for _, fn := range c.FuncsIn(pkgSched) {
		if c.isFixture(fn) {
			continue
		}
		for _, b := range fn.Blocks {
			for _, in := range b.Instrs {
				mi, ok := in.(*ssa.MakeInterface)
				if !ok || typeName(mi.X.Type()) != "lib/torrent/scheduler.newTorrentEvent" {
					continue
				}
				// find the MakeChan feeding it
				var mk *ssa.MakeChan
				mentions(mi.X, func(v ssa.Value) bool {
					if m, ok := v.(*ssa.MakeChan); ok {
						mk = m
						return true
					}
					return false
				}, 8)
				if mk == nil {
					r.Undecided(r3, fn, "newTorrentEvent", in, "request channel is not made in this function")
					continue
				}
				capOK := false
				if k, ok := mk.Size.(*ssa.Const); ok && k.Value != nil && k.Value.Kind() == constant.Int {
					if n, _ := constant.Int64Val(k.Value); n >= 1 {
						capOK = true
					}
				}
				var recvs []*ssa.UnOp
				for _, rf := range *mk.Referrers() {
					if u, ok := rf.(*ssa.UnOp); ok && u.Op == token.ARROW {
						recvs = append(recvs, u)
					}
				}
				// also receives through a local alloc
				for _, b2 := range fn.Blocks {
					for _, in2 := range b2.Instrs {
						if u, ok := in2.(*ssa.UnOp); ok && u.Op == token.ARROW && u.X != mk {
							if mentions(u.X, func(v ssa.Value) bool { return v == mk }, 4) {
								recvs = append(recvs, u)
							}
						}
					}
				}
				ok2 := capOK && len(recvs) == 1
				if ok2 {
					// the receive must not be in a loop and must be after the send succeeded
					ok2 = !reaches(recvs[0].Block(), recvs[0].Block())
					sent := false
					for _, cs := range callsIn(fn) {
						if cs.Callee == "(lib/torrent/scheduler.eventLoop).send" {
							for _, e := range condEdges(cs.Instr.Value(), true) {
								if edgeDominates(e, recvs[0].Block()) {
									sent = true
								}
							}
							// early-exit form: if !send {return}
							for _, e := range condEdges(cs.Instr.Value(), false) {
								if !reaches(e.To, recvs[0].Block()) && e.To != recvs[0].Block() && precedes(cs.Instr, recvs[0]) {
									sent = true
								}
							}
						}
					}
					ok2 = ok2 && sent
				}
				r.Check(ok2, r3, fn, "request channel", mk, "capacity>=1, one receive after successful send",
					fmt.Sprintf("request channel must have constant capacity>=1 (got ok=%v) and exactly one receive (got %d) guarded by a successful send", capOK, len(recvs)))
			}
		}
	}

	// R4: completion notice raised only from Dispatcher.complete under sync.Once, on the Complete() side
	r4 := r.Rule("R4", "E-OWN+E-GUARD", "Events.DispatcherComplete is invoked only inside a closure run by sync.Once.Do, and every call of the function doing so is on the true side of storage.Torrent.Complete()", 3)
	for _, cs := range c.CallsTo("(lib/torrent/scheduler/dispatch.Events).DispatcherComplete") {
		fn := cs.Caller
		if c.isFixture(fn) {
			continue
		}
		ok := false
		var onceOwner *ssa.Function
		if fn.Parent() != nil {
			// closure must be passed to (*sync.Once).Do in parent
			for _, pcs := range callsIn(fn.Parent()) {
				if pcs.Callee == "(*sync.Once).Do" {
					if mc, isMC := pcs.Instr.Common().Args[1].(*ssa.MakeClosure); isMC && mc.Fn == fn {
						ok = true
						onceOwner = fn.Parent()
					}
				}
			}
		}
		if !ok && fn.Parent() == nil {
			// a named method handed to Once.Do as a method value: go/ssa wraps it in a
			// bound closure; every use of the method must be as such an argument
			uses, onceUses := 0, 0
			for _, g := range c.FuncsIn(pkgOf(fn)) {
				if c.isFixture(g) {
					continue
				}
				for _, pcs := range callsIn(g) {
					if sf := pcs.Instr.Common().StaticCallee(); sf == fn {
						uses++ // called directly somewhere
					}
					if pcs.Callee != "(*sync.Once).Do" {
						continue
					}
					if mc, isMC := pcs.Instr.Common().Args[1].(*ssa.MakeClosure); isMC {
						if bf, isF := mc.Fn.(*ssa.Function); isF {
							for _, inner := range callsIn(bf) {
								if inner.Instr.Common().StaticCallee() == fn {
									onceUses++
									onceOwner = g
								}
							}
						}
					}
				}
			}
			// the call counted inside the bound wrapper is the only allowed direct call
			ok = onceUses >= 1 && uses <= onceUses
		}
		r.Check(ok, r4, fn, "DispatcherComplete call", cs.Instr, "raised under sync.Once", "completion notice raised outside a sync.Once: it can be delivered twice, sending twice on waiter channels")
		if onceOwner != nil {
			for _, ccs := range c.CallsTo(funcName(onceOwner)) {
				g := false
				for _, cf := range dominatingConds(ccs.Instr.Block()) {
					cond, val := stripNot(cf.Cond, cf.Val)
					if val && isCallTo(cond, "(lib/torrent/storage.Torrent).Complete") {
						g = true
					}
				}
				r.Check(g, r4, ccs.Caller, "call of "+onceOwner.Name(), ccs.Instr, "on the Complete() side",
					"completion is signalled on a path where the torrent was not tested complete: waiters would get success before the blob is in the cache")
			}
		}
	}

	// R5: confinement of scheduler.state to the event loop
	checkEventLoopConfinement(c, r, "R5")

	// R6: MapUpdate on torrentControls only when absent
	r6 := r.Rule("R6", "E-GUARD", "a torrent control is stored into the table only on the not-found side of a lookup of the same table (an overwrite would drop the old control's waiters)", 2)
	for _, fn := range c.FuncsIn(pkgSched) {
		if c.isFixture(fn) {
			continue
		}
		for _, b := range fn.Blocks {
			for _, in := range b.Instrs {
				mu, ok := in.(*ssa.MapUpdate)
				if !ok || !mentions(mu.Map, func(v ssa.Value) bool { return isFieldRef(v, fTorrentControls) }, 4) {
					continue
				}
				if notFoundRegion(b, fTorrentControls) {
					r.OK(r6, fn, "torrentControls[h]=", in, true, "in not-found region")
					continue
				}
				// lift to callers
				calls := c.CallsTo(funcName(fn))
				if len(calls) == 0 {
					r.Bad(r6, fn, "torrentControls[h]=", in, "table store not guarded by a lookup and function has no static callers")
					continue
				}
				for _, cs := range calls {
					r.Check(notFoundRegion(cs.Instr.Block(), fTorrentControls), r6, cs.Caller, "call of "+fn.Name(), cs.Instr,
						"caller is on the not-found side of a table lookup",
						"a torrent control may be overwritten while it exists: its waiters are dropped without notification")
				}
			}
		}
	}
}

// derivesFromOuter: inner loop ranges over a value derived from the outer loop's element.
func (l *RangeLoop) derivesFromOuter(outer *RangeLoop) bool {
	return outer.derivesFromElem(l.Ranged)
}

// notFoundRegion: block b is dominated by the false edge of the ok result of a
// lookup on the given map field (v, ok := m[k]; !ok side), or by a true edge of !ok.
func notFoundRegion(b *ssa.BasicBlock, field string) bool {
	for _, cf := range dominatingConds(b) {
		cond, val := stripNot(cf.Cond, cf.Val)
		if val {
			continue
		}
		if isLookupOK(cond, field, 0) {
			return true
		}
	}
	return false
}

// isLookupOK: v is the ok component of a comma-ok lookup on field, possibly
// through a phi that merges it with constant false (ok = false reassignment).
func isLookupOK(v ssa.Value, field string, depth int) bool {
	if depth > 3 {
		return false
	}
	switch x := v.(type) {
	case *ssa.Extract:
		if x.Index != 1 {
			return false
		}
		if lk, ok := x.Tuple.(*ssa.Lookup); ok && lk.CommaOk {
			return mentions(lk.X, func(w ssa.Value) bool { return isFieldRef(w, field) }, 4)
		}
	case *ssa.Phi:
		// ok merged with false constants: "!phi" still implies either not found or forced false
		any := false
		for _, e := range x.Edges {
			if isBoolConst(e, false) {
				continue
			}
			if !isLookupOK(e, field, depth+1) {
				return false
			}
			any = true
		}
		return any
	}
	return false
}

// pathEventCounts: forward dataflow computing, per block exit, the set of possible
// numbers (0,1,2=many) of event instructions executed on paths from entry.
func pathEventCounts(fn *ssa.Function, isEvent func(ssa.Instruction) bool) map[*ssa.BasicBlock]map[int]bool {
	out := map[*ssa.BasicBlock]map[int]bool{}
	in := map[*ssa.BasicBlock]map[int]bool{}
	in[fn.Blocks[0]] = map[int]bool{0: true}
	changed := true
	for changed {
		changed = false
		for _, b := range fn.Blocks {
			cur := in[b]
			if cur == nil {
				continue
			}
			n := 0
			for _, i := range b.Instrs {
				if isEvent(i) {
					n++
				}
			}
			o := map[int]bool{}
			for k := range cur {
				v := k + n
				if v > 2 {
					v = 2
				}
				o[v] = true
			}
			if out[b] == nil {
				out[b] = map[int]bool{}
			}
			for k := range o {
				if !out[b][k] {
					out[b][k] = true
					changed = true
				}
			}
			for _, s := range b.Succs {
				if in[s] == nil {
					in[s] = map[int]bool{}
				}
				for k := range out[b] {
					if !in[s][k] {
						in[s][k] = true
						changed = true
					}
				}
			}
		}
	}
	return out
}

func keysOf(m map[int]bool) []int {
	var out []int
	for k := 0; k <= 2; k++ {
		if m[k] {
			out = append(out, k)
		}
	}
	return out
}

// everyPathFrom: every path from block start to a return passes an instruction
// satisfying pred (loop l's own blocks are not re-entered).
func everyPathFrom(start *ssa.BasicBlock, pred func(ssa.Instruction) bool, l *RangeLoop) bool {
	seen := map[*ssa.BasicBlock]bool{}
	var walk func(b *ssa.BasicBlock) bool
	walk = func(b *ssa.BasicBlock) bool {
		if seen[b] {
			return true
		}
		seen[b] = true
		for _, in := range b.Instrs {
			if pred(in) {
				return true
			}
			if _, ok := in.(*ssa.Return); ok {
				return false
			}
		}
		if len(b.Succs) == 0 {
			return true // panic/unreachable
		}
		for _, s := range b.Succs {
			if !walk(s) {
				return false
			}
		}
		return true
	}
	return walk(start)
}
