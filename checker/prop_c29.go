package main

import (
	"fmt"

	"golang.org/x/tools/go/ssa"
)

// checkDedupSpecific: the C29 rules beyond plain guarded-by.
func checkDedupSpecific(c *Ctx, r *Report, pkg, tRC, tLim, tTask, tTrap string) {
	// the task's state fields by role (names are resolved from the struct and from
	// what the GC stores, so renaming them does not move the anchors)
	fRun, fDel, taskFields := taskFieldRoles(c, pkg, tTask)
	// the task's lock is its condition's Locker: reached as t.cond.L, or — when the
	// condition is built over a mutex field of the task (sync.NewCond(&t.mu)) —
	// through that field directly
	taskLock := map[string]bool{"L": true, "?": true}
	for _, fn := range c.FuncsIn(pkg) {
		for _, cs := range callsInNamed(fn, "sync.NewCond") {
			mentions(cs.Instr.Common().Args[0], func(v ssa.Value) bool {
				if fa, ok := v.(*ssa.FieldAddr); ok && typeName(fa.X.Type()) == tTask {
					if n, ok2 := fieldName(fa); ok2 {
						taskLock[lastSeg(n)] = true
					}
				}
				return false
			}, 4)
		}
	}
	// task state under cond.L
	r2 := r.Rule("R2", "E-LOCK(cond.L)", "task.running/output/expiresAt/deleted are written only while the task's condition lock is held", 2)
	for _, fn := range c.FuncsIn(pkg) {
		if c.isFixture(fn) {
			continue
		}
		var sets map[ssa.Instruction]lockState
		n, bad := 0, 0
		for _, f := range taskFields {
			for _, st := range storesToField(fn, tTask+"."+f) {
				fa := st.Addr.(*ssa.FieldAddr)
				if _, fresh := rootOf(fa.X).(*ssa.Alloc); fresh {
					continue
				}
				if sets == nil {
					sets = locksets(fn, lockState{})
				}
				n++
				held := false
				for k, m := range sets[st] {
					// Lock through t.cond.L: key root is the cond (loaded from the task)
					if m >= 2 && taskLock[k.mutex] {
						held = true
					}
				}
				if !held {
					bad++
				}
			}
		}
		if n > 0 {
			r.Check(bad == 0, r2, fn, "task state writes", nil, fmt.Sprintf("%d writes under cond.L", n), fmt.Sprintf("%d of %d writes to a task's state are made without holding its condition lock", bad, n))
		}
	}

	// Start: reserve / release pairing
	r3 := r.Rule("R3", "E-PAIR(paths)", "RequestCache.Start: after reserve succeeded, every path either starts the worker goroutine or calls release before returning; the worker function ends in release or error on every path", 2)
	// roles, found by what the methods do rather than by their names: a "clearer"
	// is a method of the cache that deletes the key from the pending set on every
	// path (release: nothing else; error: also records the cached error)
	clearers := pendingClearers(c, pkg, tRC)
	var clearerNames []string
	for _, f := range clearers {
		clearerNames = append(clearerNames, funcName(f))
	}
	if len(clearerNames) == 0 {
		clearerNames = []string{"(*" + tRC + ").release", "(*" + tRC + ").error"}
	}
	if st := r.MustFunc(r3, "(*"+tRC+").Start"); st != nil {
		rs := callsInNamed(st, "(*"+tRC+").reserve")
		n, bad := 0, 0
		if len(rs) == 1 {
			forEachPath(st, 5000, func(p Path) {
				if p.ret() == nil || !p.succeeded(rs[0].Instr) {
					return
				}
				n++
				started, released := false, false
				instrsOf(st, func(in ssa.Instruction) {
					if g, ok := in.(*ssa.Go); ok && p.hasInstr(g) {
						started = true
					}
				})
				for _, cs := range callsInNamed(st, clearerNames...) {
					if p.hasInstr(cs.Instr) {
						released = true
					}
				}
				if started == released {
					bad++
				}
				// a path that starts the worker must report success; one that releases must report failure
				k := classifyReturn(p.ret())
				if started && k == RetFailure || released && k == RetSuccess {
					bad++
				}
			})
		}
		// release (an ownerless delete of the pending mark) only by a caller that owns the reservation
		if len(rs) == 1 {
			forEachPath(st, 5000, func(p Path) {
				for _, cs := range callsInNamed(st, clearerNames...) {
					if p.hasInstr(cs.Instr) && !(p.succeeded(rs[0].Instr) && precedes(rs[0].Instr, cs.Instr)) {
						bad++
					}
				}
				instrsOf(st, func(in ssa.Instruction) {
					if g, ok := in.(*ssa.Go); ok && p.hasInstr(g) && !(p.succeeded(rs[0].Instr) && precedes(rs[0].Instr, g)) {
						bad++
					}
				})
			})
		}
		r.Check(len(rs) == 1 && n > 0 && bad == 0, r3, st, "reserve ⇒ worker XOR release", nil, fmt.Sprintf("%d paths", n), fmt.Sprintf("%d of %d paths after a successful reservation neither hand the request to a worker nor release the reservation (or do both): the key stays pending forever, or runs while reported failed", bad, n))
	}
	// the worker: the function started by `go` in Start, or — if that function
	// itself clears nothing — the function of the package it calls that does
	if run := requestWorker(c, tRC, clearerNames); run != nil {
		r.Analysed(run)
		n, bad := 0, 0
		forEachPath(run, 5000, func(p Path) {
			if p.ret() == nil {
				return
			}
			n++
			cnt := 0
			for _, cs := range callsInNamed(run, clearerNames...) {
				if _, isDefer := cs.Instr.(*ssa.Defer); isDefer {
					continue
				}
				if p.hasInstr(cs.Instr) {
					cnt++
				}
			}
			if cnt != 1 {
				bad++
			}
		})
		r.Check(n > 0 && bad == 0, r3, run, "run ends in release or error", nil, fmt.Sprintf("%d paths", n), "the worker can finish without clearing the pending mark of its key")
	} else {
		r.Unresolved(r3, "worker function started by RequestCache.Start")
	}
	// reserve: pending set only where not pending and no unexpired error
	r4 := r.Rule("R4", "E-GUARD", "reserve marks the key pending only where it is not already pending and has no unexpired cached error; error() and release() clear the pending mark", 3)
	if rv := r.MustFunc(r4, "(*"+tRC+").reserve"); rv != nil {
		ok := false
		instrsOf(rv, func(in ssa.Instruction) {
			mu, isMU := in.(*ssa.MapUpdate)
			if !isMU || !isPureLoadOf(mu.Map, tRC+".pending") {
				return
			}
			notPending := guardedBy(mu, func(cond ssa.Value, val bool) int {
				if lk, isL := cond.(*ssa.Lookup); isL && isPureLoadOf(lk.X, tRC+".pending") {
					return tern(val, -1, 1)
				}
				return 0
			})
			// the cached-error table is consulted on the way: a lookup of errors[id]
			// dominates the mark, and the branch returning the cached error (unexpired)
			// does not reach it
			errChecked := false
			instrsOf(rv, func(in2 ssa.Instruction) {
				lk2, isL := in2.(*ssa.Lookup)
				if !isL || !isPureLoadOf(lk2.X, tRC+".errors") || lk2.Index != rv.Params[1] {
					return
				}
				if !blockDominatesInstr(lk2.Block(), mu) {
					return
				}
				for _, cs := range callsInNamed(rv, "(*"+pkg+".cachedError).expired") {
					// not-expired edge must leave without reaching the mark
					for _, e := range condEdges(cs.Instr.Value(), false) {
						if e.To != mu.Block() && !reaches(e.To, mu.Block()) && reaches(lk2.Block(), cs.Instr.Block()) {
							errChecked = true
						}
					}
				}
			})
			ok = notPending && errChecked
		})
		r.Check(ok, r4, rv, "pending[id]=true", nil, "not pending ∧ cached error consulted", "a key is marked pending although it is already pending or its cached error was not consulted: the request runs twice / ignores the cached error")
	}
	// there is a clearer that only clears and one that also records the cached error
	plain, recording := 0, 0
	for _, f := range clearers {
		r.Analysed(f)
		rec := false
		instrsOf(f, func(in ssa.Instruction) {
			if mu, isMU := in.(*ssa.MapUpdate); isMU && isPureLoadOf(mu.Map, tRC+".errors") {
				rec = true
			}
		})
		if rec {
			recording++
		} else {
			plain++
		}
	}
	r.Check(plain >= 1, r4, nil, "clears pending", nil, "a method deletes the pending mark and nothing else", "no method of the cache clears the pending mark of a finished request")
	r.Check(recording >= 1, r4, nil, "clears pending and records the error", nil, "a method deletes the pending mark and stores the cached error", "no method of the cache both clears the pending mark and records the error of a failed request")

	// limiter GC and tombstone
	r5 := r.Rule("R5", "E-GUARD", "the limiter's GC removes a task only where (expired ∧ ¬running) was computed under the task lock and the task was marked deleted under that lock; getOutput tests the deleted mark after locking the task and before deciding to run; running=true is set only where the task is expired and not running", 2)
	if gc := r.MustFunc(r5, "(*"+pkg+".limiterTaskGC).Run"); gc != nil {
		ok := false
		instrsOf(gc, func(in ssa.Instruction) {
			if !isMapDeleteOn(in, tLim+".tasks") {
				return
			}
			// `expired := t.expired(now) && !t.running` is a phi of (false | !running)
			// whose non-constant edge comes from the expired()==true side
			cond := guardedBy(in, func(c0 ssa.Value, val bool) int {
				phi, isPhi := c0.(*ssa.Phi)
				if !isPhi {
					if mentionsCall(c0, "(*"+tTask+").expired") && mentionsField(c0, fRun) {
						return tern(val, 1, -1)
					}
					return 0
				}
				okPhi := true
				any := false
				for i, e := range phi.Edges {
					if isBoolConst(e, false) {
						continue
					}
					any = true
					v, pol := stripNot(e, true)
					if !(isFieldLoad(v, fRun) && !pol) {
						okPhi = false
					}
					pred := phi.Block().Preds[i]
					last := pred.Instrs[len(pred.Instrs)-1]
					if !guardedBy(last, func(c1 ssa.Value, v1 bool) int {
						if isCallTo(c1, "(*"+tTask+").expired") {
							return tern(v1, 1, -1)
						}
						return 0
					}) {
						okPhi = false
					}
				}
				if okPhi && any {
					return tern(val, 1, -1)
				}
				return 0
			})
			marked := false
			sets := locksets(gc, lockState{})
			for _, st := range storesToField(gc, fDel) {
				held := false
				for k, m := range sets[st] {
					if m >= 2 && taskLock[k.mutex] {
						held = true
					}
				}
				if !isBoolConst(st.Val, true) || !held {
					continue
				}
				// every (branch-consistent) path that reaches the delete has executed the store
				n, bad := 0, 0
				forEachPath(gc, 5000, func(p Path) {
					if !p.hasInstr(in) {
						return
					}
					n++
					// order along the path: store block before delete block
					si, di := -1, -1
					for i, b := range p {
						if b == st.Block() && si < 0 {
							si = i
						}
						if b == in.Block() && di < 0 {
							di = i
						}
					}
					if si < 0 || si > di {
						bad++
					}
				})
				if n > 0 && bad == 0 {
					marked = true
				}
			}
			ok = cond && marked
		})
		r.Check(ok, r5, gc, "GC delete", nil, "expired ∧ ¬running, tombstone set under the task lock", "the GC removes a task without (expired ∧ ¬running) or without marking it deleted under the task lock: a Run that already holds the task executes it while a new task for the same key runs too")
	}
	// the function that starts an execution: the Limiter method that sets the
	// running flag (getOutput today)
	var gout *ssa.Function
	for _, fn := range c.FuncsIn(pkg) {
		if c.isFixture(fn) || recvTypeName(fn) != tLim {
			continue
		}
		for _, st := range storesToField(fn, fRun) {
			if isBoolConst(st.Val, true) {
				gout = fn
			}
		}
	}
	if gout == nil {
		r.Unresolved(r5, "no Limiter method sets the task's running flag")
	} else {
		r.Analysed(gout)
		for _, st := range storesToField(gout, fRun) {
			if !isBoolConst(st.Val, true) {
				continue
			}
			notDeleted := guardedBy(st, boolFieldFact(fDel, false))
			notRunning := guardedBy(st, boolFieldFact(fRun, false))
			expired := guardedBy(st, func(c0 ssa.Value, val bool) int {
				if isCallTo(c0, "(*"+tTask+").expired") {
					return tern(val, 1, -1)
				}
				return 0
			})
			r.Check(notDeleted && notRunning && expired, r5, gout, "running=true", st, "¬deleted ∧ ¬running ∧ expired", fmt.Sprintf("a task execution is started without all of: not garbage-collected (%v), not already running (%v), expired (%v)", notDeleted, notRunning, expired))
		}
	}

	// interval trap
	r6 := r.Rule("R6", "E-GUARD", "IntervalTrap.Trap runs the task only after re-testing ready() with the write lock held, and stamps prev afterwards", 1)
	if tr := r.MustFunc(r6, "(*"+tTrap+").Trap"); tr != nil {
		sets := locksets(tr, lockState{})
		ok := false
		for _, cs := range callsInNamed(tr, "("+pkg+".IntervalTask).Run") {
			held := sets[cs.Instr.(ssa.Instruction)][lk(tr.Params[0], "RWMutex")] >= 2
			retest := false
			for _, rd := range callsInNamed(tr, "(*"+tTrap+").ready") {
				if sets[rd.Instr.(ssa.Instruction)][lk(tr.Params[0], "RWMutex")] >= 2 &&
					guardedBy(cs.Instr, func(c0 ssa.Value, val bool) int {
						if c0 == rd.Instr.Value() {
							return tern(val, 1, -1)
						}
						return 0
					}) {
					retest = true
				}
			}
			stamped := false
			for _, st := range storesToField(tr, tTrap+".prev") {
				if precedes(cs.Instr, st) {
					stamped = true
				}
			}
			ok = held && retest && stamped
		}
		r.Check(ok, r6, tr, "run once per interval", nil, "re-test under write lock, then stamp", "the interval trap runs its task without re-testing readiness under the write lock (two callers can both run it in one interval) or does not stamp the run time")
	}
}
