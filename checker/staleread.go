package main

import (
	"fmt"
	"go/token"

	"golang.org/x/tools/go/ssa"
)

// staleGuardedReads (atomicity rule): a value loaded from a guarded field inside
// one critical section must not flow into a write of a guarded field of the same
// struct after the mutex was released in between — the state may have changed
// while it was unlocked (classic check-then-act across critical sections).
//
// Criterion: load Ld of a guarded field is in the backward slice of the value (or
// index/bound) stored by St; there is a non-deferred Unlock/RUnlock event U on
// the same mutex class with a CFG path Ld → U and a path U → St that does not
// re-execute Ld's block (so St uses the value loaded BEFORE the release).
func staleGuardedReads(fn *ssa.Function, row LockRow) []string {
	var out []string
	want := map[string]bool{}
	for _, f := range row.Fields {
		want[row.Struct+"."+f] = true
	}
	// unlock events of this mutex class
	var unlocks []ssa.Instruction
	instrsOf(fn, func(in ssa.Instruction) {
		if _, isDefer := in.(*ssa.Defer); isDefer {
			return
		}
		if k, mode, ok := mutexEvent(in); ok && mode < 0 && k.mutex == row.Mutex && k.rtype == row.Struct {
			unlocks = append(unlocks, in)
		}
	})
	if len(unlocks) == 0 {
		return nil
	}
	isGuardedLoad := func(v ssa.Value) (*ssa.UnOp, bool) {
		u, ok := v.(*ssa.UnOp)
		if !ok || u.Op != token.MUL {
			return nil, false
		}
		fa, ok := u.X.(*ssa.FieldAddr)
		if !ok {
			return nil, false
		}
		n, _ := fieldName(fa)
		return u, want[n]
	}
	between := func(ld *ssa.UnOp, st ssa.Instruction) bool {
		for _, u := range unlocks {
			ub := u.Block()
			ldBefore := ld.Block() == ub && instrIndex(ld) < instrIndex(u) || ld.Block() != ub && reaches(ld.Block(), ub)
			if !ldBefore {
				continue
			}
			var toSt bool
			if ub == st.Block() && instrIndex(u) < instrIndex(st) {
				toSt = true
			} else {
				toSt = reachesAvoiding(ub, st.Block(), ld.Block())
			}
			if st.Block() == ld.Block() {
				toSt = false // same block: the load re-executes before the store
			}
			if toSt {
				return true
			}
		}
		return false
	}
	check := func(st ssa.Instruction, vals ...ssa.Value) {
		seen := map[*ssa.UnOp]bool{}
		for _, v := range vals {
			if v == nil {
				continue
			}
			mentions(v, func(w ssa.Value) bool {
				if ld, ok := isGuardedLoad(w); ok && !seen[ld] {
					seen[ld] = true
					if between(ld, st) {
						n, _ := fieldName(ld.X.(*ssa.FieldAddr))
						out = append(out, fmt.Sprintf("%s (loaded at %s)", lastSeg(n), posOf(fn, ld)))
					}
				}
				return false
			}, 8)
		}
	}
	instrsOf(fn, func(in ssa.Instruction) {
		switch x := in.(type) {
		case *ssa.Store:
			if fa, ok := x.Addr.(*ssa.FieldAddr); ok {
				if n, _ := fieldName(fa); want[n] {
					check(x, x.Val)
				}
			}
			if ia, ok := x.Addr.(*ssa.IndexAddr); ok {
				if _, isG := isGuardedLoad(ia.X); isG {
					check(x, x.Val, ia.Index)
				}
			}
		case *ssa.MapUpdate:
			if _, isG := isGuardedLoad(x.Map); isG {
				check(x, x.Key, x.Value)
			}
		}
	})
	return out
}

func posOf(fn *ssa.Function, in ssa.Instruction) string {
	if in.Pos().IsValid() {
		p := fn.Prog.Fset.Position(in.Pos())
		return fmt.Sprintf("line %d", p.Line)
	}
	return "?"
}

// checkStaleReads adds one obligation per function that writes guarded fields.
func checkStaleReads(c *Ctx, r *Report, rule string, pkgs []string, rows []LockRow) {
	rows = normLockRows(c, pkgs, rows)
	for _, pkg := range pkgs {
		for _, fn := range c.FuncsIn(pkg) {
			if c.isFixture(fn) {
				continue
			}
			for _, row := range rows {
				writes := false
				for _, a := range guardedAccesses(fn, row) {
					if a.write {
						writes = true
					}
				}
				if !writes {
					continue
				}
				st := staleGuardedReads(fn, row)
				r.Check(len(st) == 0, rule, fn, "no stale read of "+lastSeg(row.Struct)+" across critical sections", nil, "values written derive from loads in the same critical section",
					fmt.Sprintf("a value read from %s under the lock is used to update it after the lock was released and re-taken: %v — state changed in between is overwritten (e.g. a concurrent append is truncated away)", lastSeg(row.Struct), st))
			}
		}
	}
}
