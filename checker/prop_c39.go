package main

import (
	"fmt"
	"go/constant"
	"go/token"
	"go/types"
	"strings"

	"golang.org/x/tools/go/ssa"
)

func init() { register("C39", checkC39) }

var hexDecoders = []string{"encoding/hex.DecodeString", "encoding/hex.Decode"}

// lenEqConst finds comparisons len(x) ==/!= c (c>0 constant) in fn.
func lenConstCompares(fn *ssa.Function) []*ssa.BinOp {
	var out []*ssa.BinOp
	instrsOf(fn, func(in ssa.Instruction) {
		b, ok := in.(*ssa.BinOp)
		if !ok || (b.Op != token.EQL && b.Op != token.NEQ) {
			return
		}
		k, ok := b.Y.(*ssa.Const)
		if !ok || k.Value == nil || k.Value.Kind() != constant.Int {
			return
		}
		if n, _ := constant.Int64Val(k.Value); n <= 0 {
			return
		}
		if c, ok := b.X.(*ssa.Call); ok {
			if bi, ok := c.Call.Value.(*ssa.Builtin); ok && bi.Name() == "len" {
				out = append(out, b)
			}
		}
	})
	return out
}

// validatingSummary: every success return of fn lies (a) in the success region of
// a hex decoding (direct, or a callee that itself satisfies the summary) and (b)
// outside the region where a length comparison with a positive constant failed.
// Returns ("", true) if ok, else a reason.
func validatingSummary(c *Ctx, fn *ssa.Function, depth int) (string, bool) {
	rets := returnsOf(fn)
	nsucc := 0
	// length checks may be here or in the validating callee
	badLen := regionByEdges(fn, func(cond ssa.Value, val bool) bool {
		cond, val = stripNot(cond, val)
		b, ok := cond.(*ssa.BinOp)
		if !ok {
			return false
		}
		for _, lc := range lenConstCompares(fn) {
			if lc == b {
				return b.Op == token.NEQ && val || b.Op == token.EQL && !val
			}
		}
		return false
	})
	for _, ret := range rets {
		k := classifyReturn(ret)
		if k == RetFailure {
			continue
		}
		nsucc++
		if badLen[ret.Block()] {
			return "a success return is reachable with a wrong length", false
		}
		decoded, lenChecked := false, false
		for _, cs := range callsIn(fn) {
			if cs.Instr.Block() == nil {
				continue
			}
			isDec := false
			for _, d := range hexDecoders {
				if cs.Callee == d {
					isDec = true
				}
			}
			if isDec && inSuccessRegion(cs.Instr, ret) {
				decoded = true
			}
			if !isDec && depth < 2 {
				if g := c.Func(cs.Callee); g != nil && pkgOf(g) == "core" && len(errResults(cs.Instr)) > 0 && inSuccessRegion(cs.Instr, ret) {
					if _, ok := validatingSummary(c, g, depth+1); ok {
						decoded, lenChecked = true, true
					}
				}
			}
		}
		for _, lc := range lenConstCompares(fn) {
			if blockDominatesInstr(lc.Block(), ret) {
				lenChecked = true
			}
		}
		if !decoded {
			return "a success return is not in the success region of a hex decoding", false
		}
		if !lenChecked {
			return "a success return is not preceded by a length test against a constant", false
		}
	}
	if nsucc == 0 {
		return "no success return", false
	}
	return "", true
}

func checkC39(c *Ctx, r *Report) {
	r.Explain = "Identifier parsers accept only well-formed input: every success return of the digest / info-hash / peer-id parsers is dominated by a successful hex decoding and a length test against a constant, the digest parser additionally by the algorithm comparison; the validated struct is written only by those parsers; varint buffers are large enough for any int64 and the decoder's byte count is tested; piece-status and persist-flag codecs use matching primitives."
	r.NotDecided = "Round-trip equality as such (values); JSON/SQL driver behaviour."
	r1 := r.Rule("R1", "E-ORDER/ok", "every success return of an identifier parser is in the success region of hex decoding and behind a length==constant test", 4)
	for _, n := range []string{"core.NewSHA256DigestFromHex", "core.ParseSHA256Digest", "core.NewPeerID", "core.NewInfoHashFromHex", "core.ValidateSHA256"} {
		fn := r.MustFunc(r1, n)
		if fn == nil {
			continue
		}
		why, ok := validatingSummary(c, fn, 0)
		r.Check(ok, r1, fn, "success returns", nil, "validated", n+": "+why)
	}
	// digest algo
	r2 := r.Rule("R2", "E-GUARD", "ParseSHA256Digest succeeds only where the algorithm field equals the sha256 constant and the separator split produced exactly two parts", 1)
	if fn := r.MustFunc(r2, "core.ParseSHA256Digest"); fn != nil {
		bad := regionByEdges(fn, func(cond ssa.Value, val bool) bool {
			cond, val = stripNot(cond, val)
			b, ok := cond.(*ssa.BinOp)
			if !ok || (b.Op != token.EQL && b.Op != token.NEQ) {
				return false
			}
			if s, ok := constString(b.Y); ok && s == "sha256" {
				return b.Op == token.NEQ && val || b.Op == token.EQL && !val
			}
			return false
		})
		hasCmp := false
		instrsOf(fn, func(in ssa.Instruction) {
			if b, ok := in.(*ssa.BinOp); ok {
				if s, ok := constString(b.Y); ok && s == "sha256" {
					hasCmp = true
				}
			}
		})
		for _, ret := range returnsOf(fn) {
			if classifyReturn(ret) == RetFailure {
				continue
			}
			r.Check(hasCmp && !bad[ret.Block()], r2, fn, "success return", ret, "algo == sha256 established", "a digest with another algorithm prefix is accepted")
		}
	}
	// R3: who writes the validated fields
	r3 := r.Rule("R3", "E-OWN", "fields of core.Digest are stored only by the validating constructors (and whole-value copies of their results)", 2)
	allowed := map[string]bool{"core.NewSHA256DigestFromHex": true, "core.ParseSHA256Digest": true}
	for _, fn := range c.Funcs {
		if c.isFixture(fn) {
			continue
		}
		for _, f := range []string{"core.Digest.hex", "core.Digest.raw", "core.Digest.algo"} {
			for _, st := range storesToField(fn, f) {
				r.Check(allowed[funcName(fn)], r3, fn, "store "+f, st, "validating constructor", "a digest field is written outside the validating constructors: an unvalidated digest can be forged")
			}
		}
	}
	// R4: varint
	r4 := r.Rule("R4", "E-CODEC", "buffers given to binary.PutVarint/PutUvarint are made with a constant length >= binary.MaxVarintLen64 (10); functions calling binary.Varint/Uvarint test the returned byte count", 2)
	for _, cs := range c.CallsTo("encoding/binary.PutVarint", "encoding/binary.PutUvarint") {
		if c.isFixture(cs.Caller) {
			continue
		}
		ok := false
		n := int64(-1)
		mentions(cs.Instr.Common().Args[0], func(v ssa.Value) bool {
			switch x := v.(type) {
			case *ssa.MakeSlice:
				if k, isK := x.Len.(*ssa.Const); isK && k.Value != nil {
					n, _ = constant.Int64Val(k.Value)
				}
				return true
			case *ssa.Alloc:
				// make([]T, const) is lowered to new [const]T + slice
				if arr, isArr := derefT(x.Type()).Underlying().(*types.Array); isArr {
					n = arr.Len()
					return true
				}
				return false
			}
			return false
		}, 4)
		ok = n >= 10
		r.Check(ok, r4, cs.Caller, "varint buffer", cs.Instr, fmt.Sprintf("len %d", n), fmt.Sprintf("varint buffer has constant length %d < 10: PutVarint panics for large values", n))
	}
	for _, cs := range c.CallsTo("encoding/binary.Varint", "encoding/binary.Uvarint") {
		if c.isFixture(cs.Caller) {
			continue
		}
		tested := false
		for _, nv := range resultN(cs.Instr, 1) {
			for _, rf := range *nv.Referrers() {
				if b, ok := rf.(*ssa.BinOp); ok && (b.Op == token.LEQ || b.Op == token.LSS || b.Op == token.GTR || b.Op == token.GEQ || b.Op == token.EQL || b.Op == token.NEQ) {
					tested = true
				}
			}
		}
		r.Check(tested, r4, cs.Caller, "varint count", cs.Instr, "byte count tested", "the decoder's byte count is ignored: malformed input is accepted as a value")
	}
	// R5: persist and piece status codecs
	r5 := r.Rule("R5", "E-CODEC", "Persist uses strconv.FormatBool/ParseBool with the error returned; the piece-status vector is one byte per piece in both directions and unknown bytes become 'empty'", 2)
	if s, d := r.MustFunc(r5, "(*lib/store/metadata.Persist).Serialize"), r.MustFunc(r5, "(*lib/store/metadata.Persist).Deserialize"); s != nil && d != nil {
		ok := len(callsInNamed(s, "strconv.FormatBool")) == 1 && len(callsInNamed(d, "strconv.ParseBool")) == 1
		if ok {
			pb := callsInNamed(d, "strconv.ParseBool")[0]
			for _, st := range storesToField(d, "lib/store/metadata.Persist.Value") {
				if !inSuccessRegion(pb.Instr, st) {
					ok = false
				}
			}
		}
		r.Check(ok, r5, d, "persist codec", nil, "FormatBool/ParseBool, value stored on success only", "persist flag codec mismatch or value stored on a parse error")
	}
	const pst = "lib/torrent/storage/agentstorage"
	if s, d := r.MustFunc(r5, "(*"+pst+".pieceStatusMetadata).Serialize"), r.MustFunc(r5, "(*"+pst+".pieceStatusMetadata).Deserialize"); s != nil && d != nil {
		// serialize: make([]byte, len(m.pieces)); deserialize: make([]*piece, len(b))
		okS, okD := false, false
		instrsOf(s, func(in ssa.Instruction) {
			if mk, ok := in.(*ssa.MakeSlice); ok && mentionsField(mk.Len, pst+".pieceStatusMetadata.pieces") {
				okS = true
			}
		})
		instrsOf(d, func(in ssa.Instruction) {
			if mk, ok := in.(*ssa.MakeSlice); ok && mentions(mk.Len, func(v ssa.Value) bool { return v == d.Params[1] }, 4) {
				okD = true
			}
		})
		// status stored in Deserialize must be a phi/value restricted to {_empty,_complete}
		restricted := false
		instrsOf(d, func(in ssa.Instruction) {
			if st, ok := in.(*ssa.Store); ok {
				if fa, ok := st.Addr.(*ssa.FieldAddr); ok {
					if n, _ := fieldName(fa); n == pst+".piece.status" {
						if _, isPhi := st.Val.(*ssa.Phi); isPhi {
							restricted = true
						}
						if _, isK := st.Val.(*ssa.Const); isK {
							restricted = true
						}
					}
				}
			}
		})
		r.Check(okS && okD && restricted, r5, d, "piece status codec", nil, "one byte per piece both ways; unknown status normalised",
			fmt.Sprintf("piece-status vector codec mismatch (serialize sized by pieces=%v, deserialize sized by input=%v, status normalised=%v)", okS, okD, restricted))
	}
	_ = strings.TrimSpace
}
