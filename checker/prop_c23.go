package main

import (
	"fmt"
	"go/token"

	"golang.org/x/tools/go/ssa"
)

func init() { register("C23", checkC23) }

const pkgHC = "lib/healthcheck"

func checkC23(c *Ctx, r *Report) {
	const tState = pkgHC + ".state"
	fAll, fHealthy, fTrend := tState+".all", tState+".healthy", tState+".trend"
	r.Explain = "Structure of the active health-check hysteresis: (R1) the three collections that describe a host (all, healthy, trend) move together — a departing host is erased from all three by a loop over the set of all tracked hosts, a new host is added to 'all' and 'healthy' together; (R2) the single-host bypass returns before any state is touched; (R3) the collections are accessed under the state mutex (checks run in goroutines); (R4) outside arrival/departure, 'healthy' grows only where the trend equals Passes and shrinks only where it equals -Fails; (R5) the trend is updated by clamped ±1 steps using the configured Fails/Passes."
	r.NotDecided = "The counter arithmetic itself (that exactly Fails consecutive failures flip the state) — values."

	sync := r.MustFunc(r.Rule("R1", "E-COUPDATE", "in state.sync, arrival adds the host to 'all' and 'healthy' on the not-tracked side; departure is a loop over 'all' that, on the not-listed side, removes the host from 'all', 'healthy' and 'trend'", 2), "(*"+tState+").sync")
	r1 := r.Prop + ".R1"
	if sync != nil {
		// departure loop
		ok := false
		why := "no loop over the set of all tracked hosts removes departed hosts"
		for _, l := range rangeLoops(sync) {
			if !l.rangesOverField(fAll) {
				continue
			}
			rmAll, rmHealthy, rmTrend := false, false, false
			instrsOf(sync, func(in ssa.Instruction) {
				if !l.contains(in.Block()) {
					return
				}
				guarded := func() bool {
					return guardedBy(in, func(cond ssa.Value, val bool) int {
						if cl, isC := cond.(*ssa.Call); isC && calleeName(cl.Common()) == "(utils/stringset.Set).Has" && cl.Call.Args[0] == sync.Params[1] {
							return tern(val, -1, 1)
						}
						return 0
					})
				}
				if ci, isC := in.(ssa.CallInstruction); isC {
					// a helper of the state that forgets its argument on every path
					if a, h, t := stateHelperEffects(ci, l, fAll, fHealthy, fTrend, "Remove"); (a || h || t) && guarded() {
						rmAll, rmHealthy, rmTrend = rmAll || a, rmHealthy || h, rmTrend || t
					}
					cn := calleeName(ci.Common())
					if cn == "(utils/stringset.Set).Remove" && l.derivesFromElem(ci.Common().Args[1]) && guarded() {
						if mentionsField(ci.Common().Args[0], fAll) {
							rmAll = true
						}
						if mentionsField(ci.Common().Args[0], fHealthy) {
							rmHealthy = true
						}
					}
				}
				if isMapDeleteOn(in, fTrend) && guarded() {
					rmTrend = true
				}
			})
			if rmAll && rmHealthy && rmTrend {
				ok = true
				// every iteration that takes the not-listed side performs all three
				// removals before the next element: no path from the not-listed edge back
				// to the loop header skips one (a set removal may be skipped only on the
				// side where the set does not hold the host anyway)
				if skipped := departurePathsSkipping(sync, l, fAll, fHealthy, fTrend); skipped != "" {
					ok = false
					why = "on some path through the not-listed side of the departure loop " + skipped
				}
			} else {
				why = fmt.Sprintf("the departure loop over 'all' removes from all=%v healthy=%v trend=%v", rmAll, rmHealthy, rmTrend)
			}
		}
		r.Check(ok, r1, sync, "departure erases all three", nil, "loop over 'all' removes from all, healthy, trend", "a host that leaves the list is not forgotten completely ("+why+"): when it rejoins it is not treated as new and keeps its old health state")
		// arrival
		okA := false
		for _, cs := range callsInNamed(sync, "(utils/stringset.Set).Add") {
			if !mentionsField(cs.Instr.Common().Args[0], fAll) {
				continue
			}
			notTracked := guardedBy(cs.Instr, func(cond ssa.Value, val bool) int {
				if cl, isC := cond.(*ssa.Call); isC && calleeName(cl.Common()) == "(utils/stringset.Set).Has" && mentionsField(cl.Call.Args[0], fAll) {
					return tern(val, -1, 1)
				}
				return 0
			})
			both := false
			for _, cs2 := range callsInNamed(sync, "(utils/stringset.Set).Add") {
				if mentionsField(cs2.Instr.Common().Args[0], fHealthy) && cs2.Instr.Block() == cs.Instr.Block() && cs2.Instr.Common().Args[1] == cs.Instr.Common().Args[1] {
					both = true
				}
			}
			if notTracked && both {
				okA = true
			}
		}
		if !okA {
			// the same through a helper that adds its argument to both sets
			for _, l := range rangeLoops(sync) {
				instrsOf(sync, func(in ssa.Instruction) {
					ci, isC := in.(ssa.CallInstruction)
					if !isC || !l.contains(in.Block()) {
						return
					}
					a, h, _ := stateHelperEffects(ci, l, fAll, fHealthy, fTrend, "Add")
					if !a || !h {
						return
					}
					if guardedBy(in, func(cond ssa.Value, val bool) int {
						if cl, isCl := cond.(*ssa.Call); isCl && calleeName(cl.Common()) == "(utils/stringset.Set).Has" && mentionsField(cl.Call.Args[0], fAll) {
							return tern(val, -1, 1)
						}
						return 0
					}) {
						okA = true
					}
				})
			}
		}
		r.Check(okA, r1, sync, "arrival adds to all and healthy", nil, "new hosts start healthy", "a host seen for the first time is not added to both 'all' and 'healthy'")
	}

	r2 := r.Rule("R2", "E-ORDER", "filter.Run returns the single host before calling state.sync or starting checks", 1)
	if run := r.MustFunc(r2, "(*"+pkgHC+".filter).Run"); run != nil {
		single := eqFact(func(b *ssa.BinOp) bool {
			k, isK := intConst(b.Y)
			cl, isC := b.X.(*ssa.Call)
			if !isK || k != 1 || !isC {
				return false
			}
			bi, isB := cl.Call.Value.(*ssa.Builtin)
			return isB && bi.Name() == "len" && cl.Call.Args[0] == run.Params[1]
		}, true)
		okR := false
		for _, ret := range returnsOf(run) {
			if guardedBy(ret, single) && mentionsCall(unspill(ret.Results[0]), "(utils/stringset.Set).Copy") {
				okR = true
			}
		}
		for _, cs := range callsInNamed(run, "(*"+tState+").sync") {
			if !guardedBy(cs.Instr, eqFact(func(b *ssa.BinOp) bool {
				k, isK := intConst(b.Y)
				return isK && k == 1
			}, false)) {
				okR = false
			}
		}
		r.Check(okR, r2, run, "single-host bypass", nil, "returns the host untouched, state not updated", "a list with a single host is not returned as healthy before the state is consulted")
	}

	r3 := r.Rule("R3", "E-LOCK", "state.all/healthy/trend are accessed under the embedded mutex", 4)
	checkLockRows(c, r, r3, []string{pkgHC}, []LockRow{{Struct: tState, Mutex: "Mutex", Fields: []string{"all", "healthy", "trend"}, Ctors: []string{pkgHC + ".newState"}}})

	r4 := r.Rule("R4", "E-GUARD", "outside sync, healthy.Add only where trend[addr] == Passes and healthy.Remove only where trend[addr] == -Fails", 2)
	for _, fn := range c.FuncsIn(pkgHC) {
		if c.isFixture(fn) || recvTypeName(fn) != tState || fn == sync {
			continue
		}
		// private helpers that only sync calls are part of sync
		if sync != nil && callerAllowed(c, fn, map[string]bool{funcName(sync): true}, 0) {
			continue
		}
		for _, cs := range callsInNamed(fn, "(utils/stringset.Set).Add", "(utils/stringset.Set).Remove") {
			if !mentionsField(cs.Instr.Common().Args[0], fHealthy) {
				continue
			}
			add := lastSeg(cs.Callee) == "Add"
			lim := pkgHC + ".FilterConfig.Fails"
			if add {
				lim = pkgHC + ".FilterConfig.Passes"
			}
			ok := guardedBy(cs.Instr, eqFact(func(b *ssa.BinOp) bool {
				tr := func(v ssa.Value) bool {
					return mentions(v, func(w ssa.Value) bool { lk, isL := w.(*ssa.Lookup); return isL && mentionsField(lk.X, fTrend) }, 4)
				}
				lm := func(v ssa.Value) bool {
					if !mentionsField(v, lim) {
						return false
					}
					neg := mentions(v, func(w ssa.Value) bool { u, isU := w.(*ssa.UnOp); return isU && u.Op == token.SUB }, 3)
					return neg == !add
				}
				return tr(b.X) && lm(b.Y) || tr(b.Y) && lm(b.X)
			}, true))
			r.Check(ok, r4, fn, "healthy."+lastSeg(cs.Callee), cs.Instr, "on the threshold side", "the healthy set changes without the trend having reached the configured threshold ("+lastSeg(lim)+")")
		}
	}

	r5 := r.Rule("R5", "flow", "failed/passed update trend[addr] from its previous value by a clamped step that mentions the configured Fails/Passes", 2)
	for _, m := range []struct{ fn, lim string }{{"failed", "Fails"}, {"passed", "Passes"}} {
		fn := r.MustFunc(r5, "(*"+tState+")."+m.fn)
		if fn == nil {
			continue
		}
		ok := false
		instrsOf(fn, func(in ssa.Instruction) {
			mu, isMU := in.(*ssa.MapUpdate)
			if !isMU || !isPureLoadOf(mu.Map, fTrend) || mu.Key != fn.Params[1] {
				return
			}
			prev := mentions(mu.Value, func(w ssa.Value) bool { lk, isL := w.(*ssa.Lookup); return isL && mentionsField(lk.X, fTrend) }, 8)
			lim := mentionsField(mu.Value, pkgHC+".FilterConfig."+m.lim)
			if prev && lim {
				ok = true
			}
		})
		r.Check(ok, r5, fn, "trend step", nil, "trend[addr] = clamp(trend[addr]±1, …"+m.lim+")", "the trend update does not derive from the previous trend and the configured "+m.lim)
		// every observation is counted: each path to a return passes a trend update,
		// unless it returns where the trend is already saturated at the limit (the
		// clamped step would change nothing). A failure that is not recorded leaves a
		// partial pass streak standing, so the host comes back after fewer than
		// Passes consecutive successes (and symmetrically for passes).
		var updates []ssa.Instruction
		instrsOf(fn, func(in ssa.Instruction) {
			if mu, isMU := in.(*ssa.MapUpdate); isMU && isPureLoadOf(mu.Map, fTrend) && mu.Key == fn.Params[1] {
				updates = append(updates, in)
			}
		})
		saturated := eqFact(func(b *ssa.BinOp) bool {
			tr := func(v ssa.Value) bool {
				return mentions(v, func(w ssa.Value) bool { lk, isL := w.(*ssa.Lookup); return isL && mentionsField(lk.X, fTrend) }, 4)
			}
			lm := func(v ssa.Value) bool {
				if !mentionsField(v, pkgHC+".FilterConfig."+m.lim) {
					return false
				}
				neg := mentions(v, func(w ssa.Value) bool { u, isU := w.(*ssa.UnOp); return isU && u.Op == token.SUB }, 3)
				return neg == (m.fn == "failed")
			}
			return tr(b.X) && lm(b.Y) || tr(b.Y) && lm(b.X)
		}, true)
		skipped := ""
		complete := forEachPath(fn, 2000, func(p Path) {
			ret := p.ret()
			if ret == nil || guardedBy(ret, saturated) {
				return
			}
			for _, u := range updates {
				if p.hasInstr(u) {
					return
				}
			}
			skipped = c.posStr(ret.Pos())
		})
		r.Check(complete && skipped == "", r5, fn, "every observation counted", nil, "each return follows a trend update (or a saturated trend)",
			"a path through "+m.fn+" returns without updating the trend ("+skipped+"): that observation is not counted, so a "+tern2(m.fn == "failed", "failure does not interrupt a streak of passes — a flapping host is re-admitted after fewer than Passes consecutive successes", "success does not interrupt a streak of failures — a flapping host is marked unhealthy after fewer than Fails consecutive failures"))
	}
}
