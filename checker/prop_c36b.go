package main

import (
	"go/constant"
	"go/token"

	"golang.org/x/tools/go/ssa"
)

// rulesSeparatorAtRoot (C36.R5): path.Join/path.Clean return a path that ends in
// the separator only when it IS the root "/". A parser that forms the prefix it
// strips as clean(root) + "/" therefore tests "//" for a backend rooted at "/",
// while the builder produced "/name": no path round-trips. So a separator is
// appended to a bare cleaned root (a Join/Clean none of whose arguments is a
// non-empty constant) only where that value is known not to end in the
// separator already.
func rulesSeparatorAtRoot(c *Ctx, r *Report, fns []*ssa.Function) {
	r5 := r.Rule("R5", "E-GUARD", "in the path parsers a separator is appended to a bare cleaned root (path.Join/Clean of the root alone) only on the side where it does not already end in the separator (HasSuffix(x, \"/\") false, or x != \"/\")", 1)
	strConst := func(v ssa.Value) (string, bool) {
		k, ok := v.(*ssa.Const)
		if !ok || k.Value == nil || k.Value.Kind() != constant.String {
			return "", false
		}
		return constant.StringVal(k.Value), true
	}
	bareClean := func(v ssa.Value) bool {
		cl, ok := v.(*ssa.Call)
		if !ok {
			return false
		}
		switch calleeName(cl.Common()) {
		case "path.Clean", "path/filepath.Clean":
			return true
		case "path.Join", "path/filepath.Join":
			// variadic: the slice elements are the stores into the varargs array
			bare := true
			for _, e := range varargElems(cl.Call.Args[0]) {
				if s, isS := strConst(e); isS && s != "" && s != "/" {
					bare = false
				}
			}
			return bare
		}
		return false
	}
	for _, fn := range fns {
		fn := fn
		instrsOf(fn, func(in ssa.Instruction) {
			b, ok := in.(*ssa.BinOp)
			if !ok || b.Op != token.ADD {
				return
			}
			sep, isS := strConst(b.Y)
			if !isS || sep != "/" {
				return
			}
			x := b.X
			if !mentions(x, bareClean, 4) {
				return
			}
			guarded := guardedBy(b, func(cond ssa.Value, val bool) int {
				switch y := cond.(type) {
				case *ssa.Call:
					if calleeName(y.Common()) == "strings.HasSuffix" && len(y.Call.Args) == 2 && y.Call.Args[0] == x {
						if s, ok := strConst(y.Call.Args[1]); ok && s == "/" {
							return tern(val, -1, 1)
						}
					}
				case *ssa.BinOp:
					if y.Op != token.EQL && y.Op != token.NEQ {
						return 0
					}
					var other ssa.Value
					switch {
					case y.X == x:
						other = y.Y
					case y.Y == x:
						other = y.X
					default:
						return 0
					}
					if s, ok := strConst(other); ok && s == "/" {
						isRoot := (y.Op == token.EQL) == val
						return tern(isRoot, -1, 1)
					}
				}
				return 0
			})
			r.Check(guarded, r5, fn, "separator appended to the cleaned root", b, "only where the cleaned root does not end in the separator",
				"the parser appends \"/\" to the cleaned root without excluding the root that already ends in it: for a backend rooted at \"/\" the tested prefix is \"//\" while built paths start with a single slash, so no path maps back to its name (listings skip or fail on every object)")
		})
	}
}
