#!/bin/bash
# usage: store_benign.sh <ID>w2 [extra property IDs that also run these patches]
# copies /tmp/benign/<tag>/out/{patchN.diff,notes.md} to benign/<tag>/ and registers each patch as a
# SILENT variant of the property (and of the extra properties given).
tag=$1; shift
id=${tag%w[0-9]}
mkdir -p /verif/benign/$tag
cp /tmp/benign/$tag/out/patch*.diff /tmp/benign/$tag/out/notes.md /verif/benign/$tag/
for p in /verif/benign/$tag/patch*.diff; do
  n=$(basename $p .diff); n=${n#patch}
  for prop in $id "$@"; do
    mkdir -p /verif/variants/$prop
    cat > /verif/variants/$prop/benign-$tag-$n.json <<EOJ
{
 "name": "benign-$tag-$n",
 "patch": "benign/$tag/patch$n.diff",
 "expect": "SILENT",
 "why": "further-opinion behaviour-preserving refactoring by an independent sub-agent that was shown the earlier waves' notes and asked for different ones (see benign/$tag/notes.md): the check must stay silent"
}
EOJ
  done
done
