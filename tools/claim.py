#!/usr/bin/env python3
"""usage: claim.py ID 'technique' 'text' 'note'  — registers a claimed check and regenerates MANIFEST.json"""
import json,sys,os,subprocess
H=os.path.dirname(os.path.dirname(os.path.abspath(__file__)))
p=os.path.join(H,'tools','claims.json')
c=json.load(open(p))
pid,tech,text,note=sys.argv[1:5]
c[pid]={"text":text,"note":note,"technique":tech}
json.dump(c,open(p,'w'),indent=1)
subprocess.check_call([sys.executable,os.path.join(H,'tools','mkmanifest.py')])
