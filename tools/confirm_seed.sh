#!/bin/bash
# usage: confirm_seed.sh <seedname e.g. C16a>   — confirms a sub-agent's seeded change in a fresh scratch worktree
# of /repo's HEAD: demo fails with the patch, passes without, full suite passes with the patch (demo absent).
set -u
N=$1; S=/tmp/seed/$N; O=$S/out; W=/tmp/seed/$N/confirm-wt; L=$S/confirm.log
export GOFLAGS=-mod=mod GOPROXY=off
: > $L
git -C /repo worktree remove --force $W >/dev/null 2>&1
git -C /repo worktree add --detach $W HEAD >/dev/null 2>&1 || { echo "worktree failed" >> $L; exit 2; }
cd $W
if ! git apply --check $O/patch.diff 2>>$L; then echo "RESULT patch-does-not-apply" >> $L; git -C /repo worktree remove --force $W; exit 1; fi
# demo files: every *_test.go or main.go in out/, destination from demo_path.txt (first path-looking token per file)
demos=()
for f in $O/*_test.go; do
  [ -e "$f" ] || continue
  b=$(basename $f)
  d=$(grep -o "[A-Za-z0-9_./-]*$b" $O/demo_path.txt | grep -v "^/tmp" | grep "/" | sed 's#^\./##' | head -1)
  [ -z "$d" ] && d=$(cd $S/wt && git status --short | grep "$b" | awk '{print $2}' | head -1)
  [ -z "$d" ] && { echo "cannot place $b" >> $L; continue; }
  demos+=("$d"); mkdir -p $(dirname $d)
done
run=$(grep -o "go test[^\`]*" $O/demo_path.txt | head -1)
echo "demo files: ${demos[*]}" >> $L; echo "demo cmd: $run" >> $L
place() { for d in "${demos[@]}"; do cp $O/$(basename $d) $d; done; }
unplace() { for d in "${demos[@]}"; do rm -f $d; done; }
# (b) without patch
place; ( eval "timeout 600 $run" ) > $S/confirm_b.log 2>&1; B=$?
# (a) with patch
git apply $O/patch.diff; ( eval "timeout 600 $run" ) > $S/confirm_a.log 2>&1; A=$?
# (c) full suite with patch, demo absent
unplace
go build ./... >> $L 2>&1; BUILD=$?
go vet ./... > /dev/null 2>&1
timeout 1800 go test -mod=mod -vet=off -count=1 -timeout 25m ./... > $S/confirm_c.log 2>&1; C=$?
if [ $C -ne 0 ]; then # rerun failed packages once (timing flakes)
  pk=$(grep "^FAIL\s" $S/confirm_c.log | awk '{print $2}' | sort -u | tr '\n' ' ')
  echo "rerunning: $pk" >> $L
  timeout 1200 go test -mod=mod -vet=off -count=1 $pk > $S/confirm_c2.log 2>&1; C=$?
fi
echo "RESULT demo_without_patch_exit=$B (want 0) demo_with_patch_exit=$A (want !=0) build=$BUILD suite_with_patch_exit=$C (want 0)" >> $L
cd /; git -C /repo worktree remove --force $W
[ $B -eq 0 ] && [ $A -ne 0 ] && [ $C -eq 0 ] && [ $BUILD -eq 0 ] && echo CONFIRMED >> $L
tail -3 $L
