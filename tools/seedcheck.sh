#!/bin/bash
# usage: seedcheck.sh <patch.diff> <ID>...  — applies a seeded change to /repo, runs the checks, reverts.
P=$1; shift
cd /repo || exit 2
if [ -n "$(git status --short)" ]; then echo "/repo not clean"; exit 2; fi
git apply "$P" || { echo "patch does not apply"; exit 2; }
cd /verif
for id in "$@"; do ./run check $id -q --verif /tmp/seedcheck-verif 2>&1 | cut -c1-600; echo "exit[$id]=$?"; done
git -C /repo checkout -- . ; git -C /repo status --short
