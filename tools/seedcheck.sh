#!/bin/bash
# usage: seedcheck.sh <patch.diff (absolute path)> <ID>...  — applies a seeded change to a scratch worktree of
# /repo HEAD (never to /repo itself), runs the checks there, and removes the worktree.
P=$1; shift
W=/tmp/scwt-$$
git -C /repo worktree add -q --detach $W HEAD || exit 2
(cd $W && git apply "$P") || { echo "patch does not apply"; git -C /repo worktree remove --force $W; exit 2; }
cd /verif
mkdir -p /tmp/seedcheck-verif; cp /verif/known_findings.json /tmp/seedcheck-verif/; for id in "$@"; do ./run check $id -q --repo $W --verif /tmp/seedcheck-verif 2>&1 | cut -c1-600; echo "exit[$id]=$?"; done
git -C /repo worktree remove --force $W
