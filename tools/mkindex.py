#!/usr/bin/env python3
"""Regenerates seeded/INDEX.md from seeded/*/meta.json."""
import json,glob,os
H=os.path.dirname(os.path.dirname(os.path.abspath(__file__)))
rows=[]
for d in sorted(glob.glob(H+"/seeded/*/")):
    m=json.load(open(d+"meta.json"))
    rows.append((m["seed"],m["property"],m.get("needs_to_manifest","").replace("|","/"),m.get("detected_by","").replace("|","/")))
out=["# Seeded changes (from independent sub-agents) and the rule that reports each","",
"Each directory holds `patch.diff` (the source change only), the demonstration test, `notes.md` of the author and `meta.json` (how it was confirmed, what it needs in order to manifest, which rule reports it). None of these changes is committed to /repo. `tools/seedcheck.sh seeded/<seed>/patch.diff <ID>` applies one, runs the check and reverts.","",
"| seed | property | needs, in order to manifest | reported by |","|---|---|---|---|"]
for r in rows: out.append("| %s | %s | %s | %s |"%r)
open(H+"/seeded/INDEX.md","w").write("\n".join(out)+"\n")
print(len(rows),"seeds")
