#!/usr/bin/env python3
"""Regenerates /verif/MANIFEST.json from tools/claims.json (one entry per property)."""
import json, os, sys
HERE = os.path.dirname(os.path.dirname(os.path.abspath(__file__)))
claims = json.load(open(os.path.join(HERE, "tools", "claims.json")))
props = [json.loads(l) for l in open(os.path.join(HERE, "properties.jsonl"))]
ids = [p["id"] for p in props]
checks, na = [], []
for pid in ids:
    c = claims.get(pid)
    if c is None:
        raise SystemExit("no entry for " + pid)
    if "not_applicable" in c:
        na.append({"property_id": pid, "reason": c["not_applicable"]})
        continue
    checks.append({
        "property_id": pid,
        "quick_cmd": f"./run check {pid} --tier quick",
        "thorough_cmd": f"./run check {pid} --tier thorough",
        "evidence_file": f"evidence/{pid}.json",
        "replay_cmd_template": "./run explain {path}",
        "engine": "kvet",
        "level_claimed": {"category": "other", "text": c["text"], "design_ref": f"DESIGN.md §5 {pid}"},
        "level_note": c["note"],
        "technique": c["technique"],
    })
fixes = [l.strip() for l in open(os.path.join(HERE, "tools", "fix_commits.txt")) if l.strip()] if os.path.exists(os.path.join(HERE, "tools", "fix_commits.txt")) else []
m = {
    "version": 1,
    "setup_cmd": "./run build",
    "hooks": {
        "guard": "verif",
        "enable": "none needed: static analysis instruments nothing; checks analyse /repo's working tree as it is (default build tags)",
        "baseline_off_cmd": "cd /repo && go test -mod=mod -vet=off -count=1 -timeout 25m ./...",
        "source_commits": fixes,
        "add_only": True,
    },
    "engines": [{
        "name": "kvet", "path": "checker/",
        "serves_properties": [c["property_id"] for c in checks],
        "kind_free_text": "repository-specific static analyser (go/packages + go/types + go/ssa, dominator/branch-fact/lockset/call-graph rules); loads and type-checks /repo's current working tree on every run; no kraken code is executed",
    }],
    "checks": checks,
    "not_applicable": na,
    "notes": "All claims are at level 'other': each check decides structural necessary conditions of its property on every analysed path of the current source (see DESIGN.md). source_commits lists only 'fix:' commits (genuine defects repaired); there are no build-tag hooks.",
}
json.dump(m, open(os.path.join(HERE, "MANIFEST.json"), "w"), indent=1)
print(f"{len(checks)} checks, {len(na)} not applicable")
