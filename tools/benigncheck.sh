#!/bin/bash
# usage: benigncheck.sh <dir with patchN.diff> <ID>...  — applies each behaviour-preserving patch to /repo, runs the checks (must stay silent), reverts.
D=$1; shift
cd /repo || exit 2
if [ -n "$(git status --short)" ]; then echo "/repo not clean"; exit 2; fi
for P in $D/patch*.diff; do
  git apply "$P" || { echo "$P does not apply"; continue; }
  echo "== $(basename $P)"
  (cd /verif; for id in "$@"; do ./run check $id -q --verif /tmp/seedcheck-verif 2>&1 | grep -v '^VIOLATION property' | cut -c1-700; done)
  git checkout -- . ; git clean -fdq -- lib utils agent origin tracker build-index core proxy 2>/dev/null
done
git status --short
