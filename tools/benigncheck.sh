#!/bin/bash
# usage: benigncheck.sh <dir with patchN.diff> <ID>...  — applies each behaviour-preserving patch to a scratch
# worktree of /repo HEAD (not to /repo), runs the checks there (they must stay silent), and removes the worktree.
D=$1; shift
W=/tmp/bcwt-$$
git -C /repo worktree add -q --detach $W HEAD || exit 2
for P in $D/patch*.diff; do
  (cd $W && git apply "$P") || { echo "$P does not apply"; continue; }
  echo "== $(basename $P)"
  mkdir -p /tmp/seedcheck-verif; cp /verif/known_findings.json /tmp/seedcheck-verif/; (cd /verif; for id in "$@"; do ./run check $id -q --repo $W --verif /tmp/seedcheck-verif 2>&1 | grep -v '^VIOLATION property' | cut -c1-700; done)
  (cd $W && git checkout -q -- . && git clean -fdq)
done
git -C /repo worktree remove --force $W
