#!/usr/bin/env python3
"""keep_seed.py <seedname> <property> <detected_by rules or 'MISSED'> : copies a confirmed seeded change into /verif/seeded/<seedname>/"""
import sys,os,shutil,json,glob,re
name,prop,det=sys.argv[1:4]
S=f"/tmp/seed/{name}"; O=S+"/out"; D=f"/verif/seeded/{name}"
log=open(S+"/confirm.log").read()
assert "CONFIRMED" in log, "not confirmed"
os.makedirs(D,exist_ok=True)
shutil.copy(O+"/patch.diff",D)
demos=[]
for f in glob.glob(O+"/*_test.go"):
    shutil.copy(f,D); demos.append(os.path.basename(f))
for f in ("notes.md","demo_path.txt"):
    if os.path.exists(O+"/"+f): shutil.copy(O+"/"+f,D)
m=re.search(r"demo files: (.*)",log); dp=m.group(1).strip() if m else ""
m=re.search(r"demo cmd: (.*)",log); dc=m.group(1).strip() if m else ""
notes=open(O+"/notes.md").read() if os.path.exists(O+"/notes.md") else ""
meta={"property":prop,"seed":name,"demo_files":demos,"demo_placed_at":dp,"demo_cmd":dc,
 "needs_to_manifest":sys.argv[4] if len(sys.argv)>4 else "",
 "confirmed_by":"tools/confirm_seed.sh in a fresh scratch worktree of /repo HEAD: demo passes without the patch, fails with it; go build ./... and the full test suite pass with the patch (demo absent)",
 "confirm_result":[l for l in log.splitlines() if l.startswith("RESULT")][-1],
 "checked_with":"tools/seedcheck.sh (git apply in /repo, run checks, git checkout)",
 "detected_by":det}
json.dump(meta,open(D+"/meta.json","w"),indent=1)
print("kept",D)
