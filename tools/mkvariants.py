#!/usr/bin/env python3
"""Generates variants/<ID>/*.json for the thorough tier from (a) the kept seeded changes and (b) the fix commits undone."""
import json,os,re,subprocess,glob
H=os.path.dirname(os.path.dirname(os.path.abspath(__file__)))
os.makedirs(H+"/findings/fixes",exist_ok=True)
n=0
for d in sorted(glob.glob(H+"/seeded/*/")):
    d=d.rstrip("/")
    m=json.load(open(d+"/meta.json"))
    name=os.path.basename(d)
    det=m.get("detected_by","")
    if det.startswith("MISSED"): continue
    rules=re.findall(r"(C\d\d\.[A-Z]+\d*[a-z]?)",det)
    if not rules: continue
    for rule in sorted(set(rules)):
        pid=rule.split(".")[0]
        os.makedirs(f"{H}/variants/{pid}",exist_ok=True)
        v={"name":f"seed-{name}","patch":f"seeded/{name}/patch.diff","expect":rule if pid==rule.split('.')[0] else pid,
           "why":f"seeded change {name} ({m.get('property')}): {m.get('needs_to_manifest','')}"}
        json.dump(v,open(f"{H}/variants/{pid}/seed-{name}-{rule.split('.')[1]}.json","w"),indent=1); n+=1
fixes={
 "f880023":[("C17","C17.R1")],"584e252":[("C17","C17.R8")],"a0d89cb":[("C18","C18.R1")],"fbb50f3":[("C25","C25.R1")],
 "a08a82a":[("C11","C11.R2")],"0d4bb8f":[("C26","C26.R1")],"4023d45":[("C39","C39.R4")],"a0464f1":[("C28","C28.R1")],
 "514bd71":[("C01","C01.R1")],"1becf73":[("C03","C03.R4"),("C14","C14.R6")],"fa2f268":[("C03","C03.R7"),("C04","C04.R3")],
 "11ce54a":[("C06","C06.R1")],"80d9c7a":[("C04","C04.R2"),("C05","C05.R3")],"cd5588d":[("C13","C13.R5")],
 "bfd5750":[("C14","C14.R1")],"49e3b68":[("C14","C14.R4")],"be2cdaf":[("C14","C14.R3")],"5f1a353":[("C23","C23.R1")],
 "d11c029":[("C36","C36.R1")],"fca4c01":[("C14","C14.R7")],"307d59c":[("C14","C14.R8")],"5523bab":[("C06","C06.R1")],
 "9585008":[("C34","C34.R1")],"42a53da":[("C35","C35.R1")],"342bb8c":[("C29","C29.R5")],"023da26":[("C15","C15.R5")],
}
for c,targets in fixes.items():
    diff=subprocess.run(["git","-C","/repo","show","--format=",c],capture_output=True,text=True).stdout
    subj=subprocess.run(["git","-C","/repo","log","-1","--format=%s",c],capture_output=True,text=True).stdout.strip()
    open(f"{H}/findings/fixes/{c}.diff","w").write(diff)
    # later fixes may have changed the lines around this one, so that its reversed diff no longer applies to
    # HEAD: let git compute the revert on HEAD (three-way) in a scratch worktree; fall back to the reversed diff
    patch,rev=f"findings/fixes/{c}.diff",True
    W=f"/tmp/mkv-revert-{os.getpid()}"
    subprocess.run(["git","-C","/repo","worktree","add","-q","--detach",W,"HEAD"],capture_output=True)
    rr=subprocess.run(["git","-C",W,"revert","--no-commit",c],capture_output=True,text=True)
    if rr.returncode==0:
        d=subprocess.run(["git","-C",W,"diff","HEAD"],capture_output=True,text=True).stdout
        if d.strip():
            open(f"{H}/findings/fixes/{c}.revert-on-head.diff","w").write(d)
            patch,rev=f"findings/fixes/{c}.revert-on-head.diff",False
    subprocess.run(["git","-C","/repo","worktree","remove","--force",W],capture_output=True)
    if rev and os.path.exists(f"{H}/findings/fixes/{c}.undo-on-head.diff"):
        # git could not revert it on HEAD (conflict with a later fix): a handwritten undo of the same lines
        patch,rev=f"findings/fixes/{c}.undo-on-head.diff",False
    for pid,rule in targets:
        os.makedirs(f"{H}/variants/{pid}",exist_ok=True)
        v={"name":f"unfix-{c}","patch":patch,"expect":rule,"why":f"the repaired defect returns ({subj})"}
        if rev: v["reverse"]=True
        json.dump(v,open(f"{H}/variants/{pid}/unfix-{c}.json","w"),indent=1); n+=1
print(n,"variants")
